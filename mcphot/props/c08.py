"""C08 -- indexing a catalog commutes with evaluating its properties; a sliced
catalog is independent of its parent.

Shape (A), two explorations executed on the real ``SourceCatalog`` /
``ApertureStats`` objects:

1. *commutation template*: every history ``build -> pre-cache S -> index i ->
   evaluate p`` with S in {nothing, {p}, {q} for every lazy attribute q (private
   ones in quick, all in thorough), everything}, i in every index form, p every
   public property, for several catalog variants; invariant: ``cat[i].p`` equals
   ``take(fresh.p, i)`` (value of a fresh catalog on which only p was read).
   "Property" includes the per-source results of the public methods with an
   argument (``fluxfrac_radius(f)``, ``circular_photometry(r)`` ...) and the extra
   properties they create.  The variants contain sources for every exceptional
   branch of the per-source loops (variant ``hard6``) and the index forms isolate
   every position, so a result that leaks from one source to the next is seen.
   World coordinates are an axis of the variants: no WCS, an ordinary constant-scale WCS, and WCSs whose pixel scale
   and orientation vary over the small image (wide-field TAN; SIP distortion).  On the latter the pixel aperture that
   belongs to a sky aperture depends on WHICH position comes first (photutils converts the shape parameters at the
   first position), so a child that derives anything again from its sliced inputs instead of taking the parent's
   per-source values is seen; the SourceCatalog sky_* properties are evaluated on the wide-field WCS as well.
   Neighbours are an axis of the variants too: 'crowd4c/m/n' are one crowded field (abutting segments, every aperture
   covers pixels of another segment) under the three ``apermask_method``s, so that the aperture quantities (Kron,
   circular, flux-fraction radii, windowed centroid, local background) of a child that lacks its neighbours are right
   only if the child still takes the neighbours from the segmentation image.
   An index form is a VALUE (which positions, which order) in a CONTAINER (Python
   int / list / bools, numpy scalars and arrays of several integer widths, 0-d
   array, list of numpy scalars ...): the two are crossed in full, and what an
   index means is what numpy does with the same object on ``np.arange(n)``.
2. *extra-property independence*: breadth-first search over histories of
   add / overwrite / rename / remove extra property, photometry-with-name,
   index, copy, to_table on parent and child with ``__dict__``-digest
   de-duplication; reference model = two separate ordered name->value maps.
"""
import warnings

import numpy as np

from ..explorer import build, explore
from ..runner import Acc
from ..snapshot import diff, key as state_key, short

PROPERTY = 'C08'
LEVEL = 'model_checking'
RULE = ('commutation: full product catalog variant x pre-cache set x index form x public property, each one history '
        '(build, pre-cache, index, evaluate) executed on the real objects and compared with the value of a fresh '
        'catalog taken at the same positions.  "property" includes the per-source results of the public methods that '
        'take an argument (fluxfrac_radius, circular_photometry, kron_photometry, make_*_apertures, make_cutouts, '
        'to_table; small argument alphabets) and the extra properties those methods create with name=.  An index form '
        'is an index VALUE in a CONTAINER: besides the everyday forms (Python int at every position, slices, list, int64 '
        'array, bool array, get_label(s)/get_id(s), chains of two) the full product of values {integer sequences: '
        'reordered, one element, repeated, negative, n zeros-and-ones meant as positions, empty; masks: 101.., 010.., all '
        'True, all False; integer scalars 1 and -1; slices with negative / beyond-the-end / numpy-integer bounds, empty '
        'slice; labels at positions [2,0] and [1]} x containers {list, tuple, int64 / int32 / int8 / uint8 / uint64 / '
        'float64 array, list of np.int64 / np.uint8, astropy Column of int64; bool array, list of bool, list of np.bool_, '
        'astropy Column of bool, tuple of bool; int, '
        'np.int64 / int32 / int8 / uint8 / uint64, 0-d array, 1-tuple, bool; for get_label(s)/get_id(s): int, numpy '
        'scalars, list, tuple, arrays, list of numpy scalars} is explored with everything cached (both tiers) and with '
        'nothing / only p cached (thorough; quick: one form per container resp. per kind of container); with a single '
        'attribute cached: one form per container (thorough, private attribute) / per kind of container (thorough, '
        'public) / a list of bools (quick).  The meaning of an index is '
        'numpy\'s: positions = np.arange(n)[index]; a form for which numpy raises, returns a 2-D result, or that selects '
        'zero sources, a container that cannot hold the value, and tuples in __getitem__ are enumerated but counted as '
        'skipped with the reason (coverage.index_forms_not_a_selection_n4).  Clause "selection": the child\'s labels / '
        'ids and isscalar are those of numpy\'s selection (reported once per kind of index instead of once per '
        'property).  The index '
        'forms put every position of the catalog alone into a scalar child, and the catalog variants contain, besides '
        'ordinary sources, one source for each exceptional branch of the per-source loops (completely masked, '
        'non-finite centroid, quadratic fit fails, no flux-fraction radius solution, minimum Kron radius, minimum '
        'circular Kron radius, cut by the image edge, non-finite pixel; ApertureStats: aperture cut by the edge, '
        'outside the image, completely masked), each with an ordinary predecessor, so that a value that depends on '
        'the neighbours in the catalog shows.  World coordinates: ApertureStats variants with a sky aperture on (a) an '
        'ordinary constant-scale TAN WCS (sky3: circle), (b) a wide-field rotated TAN WCS with 1.3 deg pixels whose local '
        'scale differs by up to 50 % and whose North direction by 0.3 rad between the five aperture positions (skywarp5: '
        'ellipse = two lengths and an angle, exact sums), (c) an arcsecond-scale WCS with a strong SIP distortion '
        '(skysip4: rectangular annulus = four lengths and an angle, data with units); in (b) and (c) the pixel aperture '
        'converted from the sky aperture depends on which position is first, so every index form that does not keep the '
        'parent\'s first source first (counted in coverage.sky_first_position) separates "the parent\'s per-source values" '
        'from "what a catalog built from the sliced inputs would report".  SourceCatalog: rich4 carries the wide-field WCS '
        '(sky_centroid*, sky_bbox_*), single the constant-scale one, plain4 / hard6 / crowd4* none.  Neighbours: the '
        'variants crowd4c / crowd4m / crowd4n are one crowded field (four abutting segments 7-3-4-11 with interlocking '
        'bounding boxes; the Kron ellipse, the circles, the flux-fraction / windowed-centroid apertures and the '
        'local-background annulus of every source cover pixels of one or two other segments -- measured, '
        'coverage.crowd4_neighbours) x apermask_method {correct, mask, none}, so that every aperture quantity of a source '
        'depends on how the pixels of the OTHER segments are treated; every index form that builds a child without such '
        'a neighbour (all scalar children, [1], [2,0], masks, slices ...: coverage.crowd4_neighbours.*.index_forms_child_'
        'lacks_a_neighbour, counters crowd_histories_child_lacks_a_neighbour:*) separates "neighbours = the other '
        'segments of the segmentation image" from "neighbours = the other members of this catalog object".  Pre-cache '
        'sets of the crowd4 variants: thorough -- nothing / {p} / everything / every private attribute for all three '
        'methods, every public attribute for correct; quick -- nothing and everything cached for all three methods '
        '(with everything cached the methods with an argument are still computed by the child), {p} for correct.  '
        'A history is non-trivial when the index selects >= 1 source and either '
        'something was cached before indexing or the child is scalar / reordered or (crowd4) the child lacks a '
        'neighbour of one of its sources.  independence: BFS over '
        'extra-property histories on {parent, child}, states = digests of both instance __dict__s (date stamp '
        'excluded); non-trivial when the history contains an index and a mutation after it; every photometry method '
        'run in a history is also compared per source with the fresh full catalog (photometry menu on the crowded field '
        'crowd4c and on hard6; thorough also plain4 and crowd4m)')
ASSUMPTIONS = ['numpy fancy indexing of a plain array / list comprehension is the reference for "take"',
               'what an index object means (mask or positions, scalar or sequence, valid or not) is what numpy does with '
               'that very object on np.arange(n) -- "cat.p[idx]" in the statement is numpy indexing of a per-source array',
               'an index that selects zero sources is outside the statement: neither class can represent a catalog '
               'without sources (SourceCatalog: ValueError for a segmentation image without labels; ApertureStats fails '
               'on an aperture without positions); the pinned tree builds such a child and most of its properties raise',
               'a tuple passed to __getitem__ is not one of the index forms of the statement (numpy reads it as a '
               'multi-dimensional index); get_labels / get_ids document "list, tuple, or ndarray of int" and are explored '
               'with all three',
               'a property value of a fresh catalog (only that property read) is the reference for the parent value; '
               'C07/C16 judge whether that value is right',
               'evaluating one property on the child after restoring its __dict__ (and the content of its '
               'extra-property list) to the post-index snapshot is the '
               'same history as indexing a fresh parent again (validated per batch by a digest of the snapshot; '
               'every reported violation is re-executed as a fresh single history)',
               'per-source values computed on a sub-catalog may differ from the full catalog in the last ulp of '
               'vectorised transcendental functions: rtol 1e-11',
               'the result of a public method with a fixed argument, and the extra property it creates with name=, '
               'count as a "public property p" of the statement ("running photometry methods", "whether p was '
               'evaluated before or after the indexing")',
               'which exceptional branch a source of the hand-made scene takes is measured on the tree under test '
               '(coverage.exceptional_sources), not assumed',
               'for a sky aperture on a WCS with a varying pixel scale "cat.p[idx]" is, as everywhere, the value the '
               'PARENT reports for those sources (its pixel aperture is converted once, with the scale and angle at the '
               'parent\'s first position -- documented in SkyAperture._to_pixel_params); the statement makes the child '
               'report the same numbers, not those of a new ApertureStats built from aperture[idx].  How much the two '
               'differ is measured on the tree under test (coverage.sky_first_position), not assumed',
               'neighbouring sources of a source (apermask_method) are the other non-zero labels of the segmentation '
               'image the catalog was built from, whether or not they are members of the (sliced) catalog object: that is '
               'what makes the parent\'s value the parent\'s value, and the statement makes the child report it.  Which '
               'segments lie inside which aperture is measured on the tree under test for the evidence only; the oracle '
               'is the fresh full catalog as everywhere',
               'the batch shortcut restores, besides the child\'s __dict__, the __dict__ of the catalogs the child holds '
               '(the sliced detection catalog): their lazily cached values are part of the post-index state']

# tolerance: child and parent run the same per-source formulas, only the vector length differs; 1e-11 relative (1e-13
# absolute) covers last-ulp SIMD differences and is ~1e5 ulp, far below any mis-slicing (a wrong row differs by O(1)).
RTOL, ATOL = 1e-11, 1e-13

ALWAYS_ITERABLE = ('labels', 'ids')            # documented "always as an iterable"
CATALOG_LEVEL = ('isscalar', 'nlabels', 'n_apertures')


# ============================================================================ scenes
_SCENE = {}


def _image(seed):
    if seed not in _SCENE:
        from astropy.modeling.models import Gaussian2D
        rng = np.random.default_rng([seed, 808])
        ny, nx = 32, 40
        yy, xx = np.mgrid[0:ny, 0:nx]
        img = rng.normal(0, 0.3, (ny, nx))
        jit = rng.uniform(-0.3, 0.3, size=6)
        for k, (a, x0, y0, sx, sy, th) in enumerate([(80, 10.3, 9.8, 2.0, 1.3, 0.5), (60, 29.1, 12.2, 1.6, 1.6, 0.0),
                                                     (50, 18.4, 23.1, 2.2, 1.2, 2.0)]):
            img += Gaussian2D(a, x0 + jit[2 * k], y0 + jit[2 * k + 1], sx, sy, th)(xx, yy)
        img[28:30, 34:36] += 30.0 + rng.uniform(0, 1, (2, 2))     # 4-pixel source: the quadratic fit cannot work
        err = rng.uniform(0.8, 1.2, (ny, nx))
        bkg = 0.1 + 0.01 * xx + 0.02 * yy
        from astropy.convolution import convolve
        from photutils.segmentation import detect_sources, make_2dgaussian_kernel
        conv = convolve(img, make_2dgaussian_kernel(2.0, size=3))
        seg = detect_sources(img, 3.0, 4)
        if seg.nlabels != 4:
            raise RuntimeError(f'scene has {seg.nlabels} sources, expected 4')
        _SCENE[seed] = (img, err, bkg, conv, seg.data.copy())
    return _SCENE[seed]


_SCENE2 = {}
HARD6_LABELS = (2, 3, 5, 8, 9, 12)             # deliberately non-consecutive
# what each source of 'hard6' is there for (position -> exceptional per-source path); positions 0 and 2 are ordinary bright
# sources, so that every exceptional source but the last two has an ordinary predecessor in the parent
HARD6_KINDS = ('ordinary', 'no fluxfrac_radius(0.5 / 1.0) solution (thin line in a negative trough; measured Kron radius '
               'has a non-positive denominator -> minimum Kron radius)', 'ordinary',
               'negative source: isophotal centroid NaN -> aperture / optimizer arguments None, not masked',
               'cut by the image edge and contains an unmasked NaN pixel',
               '2x2 pixels: quadratic centroid fit fails; below the minimum circular Kron radius -> kron_radius 0, '
               'circular Kron aperture')


def _image2(seed):
    """Scene of the 'hard6' variant: a hand-made segmentation image (structure independent of the seed) in which four of
    the six sources take an exceptional branch of the per-source loops of SourceCatalog.  Only the noise, the sub-pixel
    jitter of the Gaussians and the error map come from the seed."""
    if seed not in _SCENE2:
        from astropy.modeling.models import Gaussian2D
        rng = np.random.default_rng([seed, 809])
        ny, nx = 32, 40
        yy, xx = np.mgrid[0:ny, 0:nx]
        img = rng.normal(0, 0.3, (ny, nx))
        jit = rng.uniform(-0.3, 0.3, size=6)
        seg = np.zeros((ny, nx), int)
        for k, (lab, (a, x0, y0, sx, sy, th)) in enumerate([(2, (80, 8.3, 7.8, 2.0, 1.3, 0.5)), (5, (60, 30.1, 8.2, 1.6, 1.6, 0.0)),
                                                            (9, (50, 38.4, 24.1, 2.2, 1.4, 2.0))]):
            g = Gaussian2D(a, x0 + jit[2 * k], y0 + jit[2 * k + 1], sx, sy, th)(xx, yy)
            img += g
            seg[(g > 3.0) & (seg == 0)] = lab
        # label 3: a 1x7 line of +U between two rows of -U/2.  The Kron ellipse (7.05 x 1.01 pix) has positive flux
        # (about 3 U), but a circle of radius r around the centre never holds half of it: at the bracket ends
        # r = 7.05 - j the enclosed flux is about (2.0, 0.6, 0.3, -0.8, -2, -2, -2) U for r = 1.05 ... 7.05 < 1.6 U
        # (the trough ratio may lie anywhere in 0.43 .. 0.64; checked for seeds 0..11) -> no half-light radius.
        u_line = 12.0
        img[20, 4:11] += u_line
        seg[20, 4:11] = 3
        img[19, 3:12] -= 0.5 * u_line
        img[21, 3:12] -= 0.5 * u_line
        # label 8: a negative source (e.g. measured on another band): isophotal centroid undefined
        neg = Gaussian2D(-30, 20.3, 22.6, 1.5, 1.5, 0)(xx, yy)
        img += neg
        seg[neg < -3] = 8
        # label 12: 2x2 pixels
        img[28:30, 28:30] += 30.0 + rng.uniform(0, 1, (2, 2))
        seg[28:30, 28:30] = 12
        img[25, 37] = np.nan                                      # unmasked non-finite pixel inside label 9
        err = rng.uniform(0.8, 1.2, (ny, nx))
        bkg = 0.1 + 0.01 * xx + 0.02 * yy
        if tuple(np.unique(seg)[1:]) != HARD6_LABELS:
            raise RuntimeError(f'hard6 scene has labels {np.unique(seg)}')
        _SCENE2[seed] = (img, err, bkg, seg)
    return _SCENE2[seed]


_SCENE3 = {}
CROWD4_LABELS = (3, 4, 7, 11)                  # deliberately non-consecutive
# the apermask_method axis of the crowded scene: variant name -> SourceCatalog(apermask_method=)
CROWD4_METHODS = {'crowd4c': 'correct', 'crowd4m': 'mask', 'crowd4n': 'none'}
CROWD4_KINDS = ('bright elongated source; abuts label 4 along a diagonal border (interlocking bounding boxes) and label 7',
                'round source abutting labels 3 and 11', 'faint satellite that touches label 3 and lies inside its Kron '
                'ellipse and its r = 6 circle', 'elongated source abutting label 4')


def _image3(seed):
    """Scene of the 'crowd4*' variants: a crowded field.  Four blended Gaussians whose segments (every pixel with
    total model flux > 0.6 = 2 sigma of the noise goes to the Gaussian that contributes most there -- structure
    independent of the seed up to the sub-pixel jitter; the low threshold gives the segments a faint fringe which the
    sigma-clipped local-background estimate of a neighbour would NOT clip away if it were left unmasked) touch each
    other: 7 - 3 - 4 - 11 is a chain of abutting segments with interlocking bounding boxes.
    The Kron ellipse (semi-axes 4 ... 8 pix), the r = 6 circle, the windowed-centroid / flux-fraction apertures and the
    local-background annulus of every source cover pixels of one or two OTHER segments (measured on the tree under test:
    coverage.crowd4_neighbours), so every aperture quantity depends on how the neighbours are treated
    (``apermask_method``: replaced by the mirror pixel / masked / left in).  A 2x2 block of user-masked pixels lies
    inside label 3 where the pixels of label 4 are mirrored to ('correct': mirror value on a masked pixel)."""
    if seed not in _SCENE3:
        from astropy.modeling.models import Gaussian2D
        rng = np.random.default_rng([seed, 810])
        ny, nx = 32, 40
        yy, xx = np.mgrid[0:ny, 0:nx]
        img = rng.normal(0, 0.3, (ny, nx))
        jit = rng.uniform(-0.3, 0.3, size=8)
        gs = []
        for k, (a, x0, y0, sx, sy, th) in enumerate([(80, 13.3, 13.8, 2.4, 1.7, 0.6), (55, 19.4, 16.6, 1.9, 1.9, 0.0),
                                                     (30, 8.6, 19.4, 1.1, 1.1, 0.0), (60, 26.8, 20.6, 1.6, 2.1, 1.2)]):
            gs.append(Gaussian2D(a, x0 + jit[2 * k], y0 + jit[2 * k + 1], sx, sy, th)(xx, yy))
            img += gs[-1]
        gs = np.array(gs)
        seg = np.where(gs.sum(axis=0) > 0.6, np.array(CROWD4_LABELS)[np.argmax(gs, axis=0)], 0)
        mask = np.zeros((ny, nx), bool)
        mask[11:13, 8:10] = True
        err = rng.uniform(0.8, 1.2, (ny, nx))
        bkg = 0.1 + 0.01 * xx + 0.02 * yy
        if tuple(np.unique(seg)[1:]) != CROWD4_LABELS:
            raise RuntimeError(f'crowd4 scene has labels {np.unique(seg)}')
        _SCENE3[seed] = (img, err, bkg, seg, mask)
    return _SCENE3[seed]


def _wcs():
    from astropy.wcs import WCS
    w = WCS(naxis=2)
    w.wcs.crpix = [20.0, 16.0]
    w.wcs.cdelt = [-2.0e-4, 2.0e-4]
    w.wcs.crval = [150.1, 2.2]
    w.wcs.ctype = ['RA---TAN', 'DEC--TAN']
    return w


def _wcs_wide():
    """A WCS whose pixel scale AND orientation vary strongly over the 40 x 32 image: plain TAN projection with
    1.3 deg pixels (the frame spans ~50 x 40 deg; reference pixel near the lower left corner, so the radial stretch of the
    gnomonic projection grows across the frame), rotated by 25 deg, reaching Dec ~55 deg (meridians converge: the
    direction of North changes by ~0.3 rad over the frame).  The local scale at the five aperture positions of
    'skywarp5' differs by up to 50 % (semimajor axis 5.2 ... 7.8 pix for the same sky aperture, measured)."""
    from astropy.wcs import WCS
    w = WCS(naxis=2)
    w.wcs.ctype = ['RA---TAN', 'DEC--TAN']
    w.wcs.crpix = [4.0, 5.0]
    w.wcs.crval = [150.0, 20.0]
    t = np.deg2rad(25.0)
    w.wcs.cd = 1.3 * np.array([[-np.cos(t), np.sin(t)], [np.sin(t), np.cos(t)]])
    w.pixel_shape = (40, 32)
    return w


def _wcs_sip():
    """An arcsecond-scale WCS (0.72"/pixel, rotated by -40 deg) with an exaggerated SIP distortion polynomial of order
    2: the local pixel scale differs by ~40 % and the orientation by ~0.1 rad between the aperture positions of
    'skysip4' (measured).  No inverse polynomial: astropy inverts numerically."""
    from astropy.wcs import WCS, Sip
    w = WCS(naxis=2)
    w.wcs.ctype = ['RA---TAN-SIP', 'DEC--TAN-SIP']
    w.wcs.crpix = [20.0, 16.0]
    w.wcs.crval = [210.0, -35.0]
    t = np.deg2rad(-40.0)
    w.wcs.cd = 2.0e-4 * np.array([[-np.cos(t), np.sin(t)], [np.sin(t), np.cos(t)]])
    a, b = np.zeros((3, 3)), np.zeros((3, 3))
    a[2, 0], a[1, 1], a[0, 2] = 6e-3, -4e-3, 2e-3
    b[2, 0], b[1, 1], b[0, 2] = -3e-3, 5e-3, 7e-3
    w.sip = Sip(a, b, None, None, w.wcs.crpix)
    w.pixel_shape = (40, 32)
    w.wcs.set()
    return w


SC_VARIANTS = ('plain4', 'rich4', 'single', 'hard6') + tuple(CROWD4_METHODS)
# sky apertures: 'sky3' on an ordinary (constant-scale) WCS; 'skywarp5' / 'skysip4' on a WCS whose scale and orientation
# vary over the image -- a sky aperture has ONE set of shape parameters, photutils converts them to pixels with the scale
# and angle at the FIRST position, so "the pixel aperture of the sources idx" is a function of the parent's first
# position, not of the selected sources
AS_VARIANTS = ('circ4', 'sky3', 'skywarp5', 'skysip4', 'single')
# first-position-dependent sky -> pixel conversion, per variant (positions in pixels, used by describe())
SKYWARP5_XY = ([10.3, 29.1, 18.4, 35.2, 5.6], [9.8, 12.2, 23.1, 27.4, 26.0])
SKYSIP4_XY = ([10.3, 29.1, 18.4, 35.2], [9.8, 12.2, 23.1, 27.4])


def make_sc(variant, seed):
    """Fresh SourceCatalog of a variant (inputs are fresh copies)."""
    import astropy.units as u
    from photutils.segmentation import SegmentationImage, SourceCatalog
    if variant == 'hard6':
        # 3-element kron_params with a minimum circular radius that the 2x2 source does not reach
        img, err, bkg, segd = (a.copy() for a in _image2(seed))
        # (no convolved_data: the shape of the thin line must come from the unsmoothed pixels)
        return SourceCatalog(img, SegmentationImage(segd), error=err, background=bkg, localbkg_width=4,
                             kron_params=(2.5, 1.4, 2.5))
    if variant in CROWD4_METHODS:
        # crowded field x apermask_method.  Minimum Kron radius 0.7 (default 1.4): the measured Kron radius itself --
        # a first moment of the neighbour-corrected pixels -- is reported, not the clipped value
        img, err, bkg, segd, mask = (a.copy() for a in _image3(seed))
        return SourceCatalog(img, SegmentationImage(segd), error=err, background=bkg, mask=mask, localbkg_width=3,
                             apermask_method=CROWD4_METHODS[variant], kron_params=(2.5, 0.7))
    img, err, bkg, conv, segd = (a.copy() for a in _image(seed))
    if variant == 'plain4':
        return SourceCatalog(img, SegmentationImage(segd), error=err, background=bkg, localbkg_width=3)
    if variant == 'rich4':
        # units, wcs, detection catalog, a completely masked source (label 2), 3-element kron_params, mask method
        mask = segd == 2
        mask[0, 0] = True
        segm = SegmentationImage(segd)
        # the wcs (taken over from the detection catalog) is the wide-field one: sky_centroid* / sky_bbox_* are strongly
        # non-linear functions of the pixel position ('single' has the ordinary constant-scale WCS)
        det = SourceCatalog(conv * u.Jy, segm, mask=mask, wcs=_wcs_wide(), apermask_method='mask',
                            kron_params=(2.5, 1.4, 1.0))
        return SourceCatalog(img * u.Jy, segm, error=err * u.Jy, background=bkg * u.Jy, mask=mask, convolved_data=conv * u.Jy,
                             localbkg_width=2, detection_cat=det)
    if variant == 'single':
        one = np.where(segd == 3, 7, 0)
        return SourceCatalog(img, SegmentationImage(one), error=err, convolved_data=conv, wcs=_wcs())
    raise KeyError(variant)


SKY_VARIANTS = ('sky3', 'skywarp5', 'skysip4')


def sky_setup(variant):
    """(sky aperture, wcs) of an ApertureStats variant with a sky aperture."""
    import astropy.units as u
    from photutils.aperture import SkyCircularAperture, SkyEllipticalAperture, SkyRectangularAnnulus
    if variant == 'sky3':
        w = _wcs()
        return SkyCircularAperture(w.pixel_to_world([10.3, 29.1, 18.4], [9.8, 12.2, 23.1]), 0.00075 * u.deg), w
    if variant == 'skywarp5':
        # elliptical sky aperture (two lengths and an angle) at five positions spread over the frame of the wide-field
        # WCS.  The aperture at position 3 is cut by the image edge.
        w = _wcs_wide()
        return SkyEllipticalAperture(w.pixel_to_world(*SKYWARP5_XY), 6.5 * u.deg, 3.9 * u.deg, theta=30.0 * u.deg), w
    if variant == 'skysip4':
        # rectangular sky annulus (four lengths and an angle) on the SIP-distorted WCS
        w = _wcs_sip()
        return SkyRectangularAnnulus(w.pixel_to_world(*SKYSIP4_XY), 2.0 * u.arcsec, 5.0 * u.arcsec, 3.4 * u.arcsec,
                                     theta=20.0 * u.deg), w
    raise KeyError(variant)


def make_as(variant, seed):
    import astropy.units as u
    from astropy.stats import SigmaClip
    from photutils.aperture import ApertureStats, CircularAperture
    img, err, bkg, conv, segd = (a.copy() for a in _image(seed))
    if variant == 'circ4':
        # one aperture cut by the image edge, one completely outside the image
        ap = CircularAperture([(10.3, 9.8), (38.6, 12.2), (18.4, 23.1), (60.0, 50.0)], 4.0)
        return ApertureStats(img, ap, error=err, local_bkg=[0.1, 0.2, 0.3, 0.4])
    if variant == 'sky3':
        ap, w = sky_setup(variant)
        mask = np.hypot(*(np.indices(img.shape) - np.array([12.2, 29.1])[:, None, None])) < 6   # aperture 2 fully masked
        return ApertureStats(img * u.Jy, ap, error=err * u.Jy, mask=mask, wcs=w, sigma_clip=SigmaClip(3.0, maxiters=5),
                             sum_method='subpixel', subpixels=3, local_bkg=0.05 * u.Jy)
    if variant == 'skywarp5':
        # 'exact' sums are continuous in the aperture parameters, so any change of the pixel aperture shows
        ap, w = sky_setup(variant)
        return ApertureStats(img, ap, error=err, wcs=w, sum_method='exact', local_bkg=[0.1, 0.2, 0.3, 0.4, 0.5])
    if variant == 'skysip4':
        ap, w = sky_setup(variant)          # data with units
        return ApertureStats(img * u.Jy, ap, error=err * u.Jy, wcs=w, sum_method='exact')
    if variant == 'single':
        from photutils.aperture import EllipticalAperture
        ap = EllipticalAperture([(18.4, 23.1)], 5.0, 3.0, theta=0.4)
        return ApertureStats(img, ap, error=err, sum_method='center')
    raise KeyError(variant)


def make(cls, variant, seed):
    with warnings.catch_warnings():
        warnings.simplefilter('ignore')
        return make_sc(variant, seed) if cls == 'SC' else make_as(variant, seed)


def nsources(cls, variant):
    return {'single': 1, 'sky3': 3, 'hard6': 6, 'skywarp5': 5}.get(variant, 4)


# ============================================================================ index forms
# An index has a VALUE (which positions, in which order) and a CONTAINER (the Python / numpy type that carries it).
# numpy decides what an index means from both -- [True, False, True] is a mask whether it is an ndarray or a plain list,
# [1, 0, 1] is a list of positions whether its items are Python ints or uint8 -- so the container is an axis of the
# space of "index forms", crossed in full with the values.  What an index means is never written down here: it is what
# numpy does with the very same object on ``np.arange(n)`` (``select``).
SCALAR_CONTAINERS = ('int', 'np.int64', 'np.int32', 'np.int8', 'np.uint8', 'np.uint64', 'array0d:int64', 'tuple1', 'bool')
# 'column:*' = astropy.table.Column, an ndarray subclass: what ``tbl['flux'] > 5`` / ``tbl['label']`` of a catalog's own
# to_table() hands to the user
SEQ_CONTAINERS = ('list', 'tuple', 'array:int64', 'array:int32', 'array:int8', 'array:uint8', 'array:uint64',
                  'list:np.int64', 'list:np.uint8', 'column:int64', 'array:float64')
MASK_CONTAINERS = ('array:bool', 'list:bool', 'list:np.bool_', 'column:bool', 'tuple:bool')
# get_label / get_id take "int"; get_labels / get_ids are documented for "list, tuple, or ndarray of int" (and are what
# get_label / get_id call with a single number)
LABEL_CONTAINERS = ('int', 'np.int64', 'np.int32', 'np.uint8')
LABELS_CONTAINERS = ('list', 'tuple', 'array:int64', 'array:int32', 'array:uint8', 'list:np.int64', 'scalar:int')


class Rejected(Exception):
    """The index form is not a selection of >= 1 sources (reason in args[0])."""


def _np_type(name):
    return getattr(np, name.split('.')[-1])


def _carry(container, values):
    """Put integer / 0-1 values into a container.  Raises Rejected if the container cannot hold them."""
    try:
        if container in ('list', 'tuple'):
            return (list if container == 'list' else tuple)(int(v) for v in values)
        if container in ('list:bool', 'tuple:bool'):
            return (list if container == 'list:bool' else tuple)(bool(v) for v in values)
        if container.startswith('list:'):
            t = _np_type(container[5:])
            out = [t(v) for v in values]
        elif container.startswith('array:'):
            t = _np_type(container[6:])
            out = np.array([t(v) for v in values], dtype=t)
        elif container.startswith('column:'):
            from astropy.table import Column
            t = _np_type(container[7:])
            out = Column(np.array([t(v) for v in values], dtype=t), name='c')
        else:
            raise KeyError(container)
    except (OverflowError, ValueError) as e:
        raise Rejected(f'container {container} cannot hold the values ({type(e).__name__})')
    if [int(v) for v in out] != [int(v) for v in values]:
        raise Rejected(f'container {container} cannot hold the values (wrapped)')
    return out


def _carry_scalar(container, k):
    try:
        if container == 'int':
            return int(k)
        if container == 'bool':
            if k not in (0, 1):
                raise Rejected('container bool cannot hold the value')
            return bool(k)
        if container == 'tuple1':
            return (int(k),)
        if container.startswith('array0d:'):
            return np.array(int(k), dtype=_np_type(container[8:]))
        out = _np_type(container)(k)
    except OverflowError as e:
        raise Rejected(f'container {container} cannot hold the value ({type(e).__name__})')
    if int(out) != int(k):
        raise Rejected(f'container {container} cannot hold the value (wrapped)')
    return out


def build_index(form):
    """The Python object that a (non-label, non-chain) index form stands for."""
    kind = form[0]
    if kind == 'int':
        return form[1]
    if kind == 'npint':
        return np.int64(form[1])
    if kind == 'slice':
        return slice(form[1], form[2], form[3])
    if kind == 'nslice':                       # slice whose bounds are numpy integers
        return slice(*(None if b is None else np.int64(b) for b in form[1:4]))
    if kind == 'list':
        return list(form[1])
    if kind == 'array':
        return np.array(form[1])
    if kind == 'bool':
        return np.array(form[1], dtype=bool)
    if kind == 'iscalar':
        return _carry_scalar(form[1], form[2])
    if kind in ('iseq', 'mask'):
        return _carry(form[1], form[2])
    raise KeyError(kind)


def form_tag(form):
    """Short name of the kind of index (part of the violation site of the 'selection' clause)."""
    if form[0] == 'chain':
        return f'chain({form_tag(form[1])},{form_tag(form[2])})'
    if form[0] in ('iscalar', 'iseq', 'mask', 'xlabel', 'xlabels'):
        return f'{form[0]}[{form[1]}]'
    return form[0]


def container_forms(n):
    """Value x container product (simplest first).  Values, for n >= 3: integer sequences [2, 0] (reordered), [1] (one
    source, non-scalar child), [n-1, 1, 1] (repeat), [-1, 0] (negative), [1, 0, 1, 0...] (n zeros / ones that are
    POSITIONS, not a mask), [] ; masks 101 0.., 010 0.., all True, all False; integer scalars 1 and -1; slices with
    negative / out-of-range / numpy-integer bounds and an empty one; labels at positions [2, 0] and [1]."""
    if n == 1:
        seqs, masks, scalars = [[0], [-1], [0, 0], []], [[1], [0]], [0, -1]
        slices = [['slice', -1, None, None], ['slice', 0, 5, None], ['nslice', 0, 1, None], ['slice', 0, 0, None]]
        labseqs, labpos = [[0]], 0
    else:
        seqs = [[2, 0], [1], [n - 1, 1, 1], [-1, 0], [1, 0, 1] + [0] * (n - 3), []]
        masks = [[1, 0, 1] + [0] * (n - 3), [0, 1] + [0] * (n - 2), [1] * n, [0] * n]
        scalars = [1, -1]
        slices = [['slice', -2, None, None], ['slice', None, -1, None], ['slice', 1, n + 5, None], ['nslice', 0, 2, None],
                  ['nslice', None, None, -1], ['slice', 1, 1, None]]
        labseqs, labpos = [[2, 0], [1]], 1
    forms = [['mask', c, m] for m in masks for c in MASK_CONTAINERS]
    forms += [['iseq', c, v] for v in seqs for c in SEQ_CONTAINERS]
    forms += [['iscalar', c, k] for k in scalars for c in SCALAR_CONTAINERS]
    forms += slices
    forms += [['xlabel', c, labpos] for c in LABEL_CONTAINERS]
    forms += [['xlabels', c, v] for v in labseqs for c in LABELS_CONTAINERS if not (c == 'scalar:int' and len(v) != 1)]
    if n > 1:
        forms += [['chain', ['mask', 'list:bool', [1] * n], ['iscalar', 'np.int32', n - 1]],
                  ['chain', ['iseq', 'list', [2, 0, 1]], ['mask', 'list:bool', [1, 0, 1]]],
                  ['chain', ['iseq', 'array:uint8', [2, 0, 1]], ['xlabels', 'tuple', [0, 2]]]]
    return forms


def base_forms(n):
    """The index forms in their everyday containers (Python int, slice of Python ints, list, int64 / bool ndarray)."""
    if n == 1:
        return [['int', 0], ['int', -1], ['npint', 0], ['slice', 0, 1, None], ['slice', None, None, -1], ['list', [0]],
                ['bool', [1]], ['label', 0], ['labels', [0]], ['chain', ['slice', 0, None, None], ['int', 0]]]
    # every position occurs as a single-source child (int k / int -1): a per-source loop that carries state from the
    # previous source cannot hide there
    forms = [['int', 0], ['int', -1]] + [['int', k] for k in range(1, n - 1)] + [
             ['npint', 1], ['slice', 0, 2, None], ['slice', None, None, -1],
             ['slice', 1, None, 2], ['list', [2, 0]], ['list', [1]], ['array', [n - 1, 1, 1]],
             ['bool', [1, 0, 1] + [0] * (n - 3)], ['bool', [0, 1] + [0] * (n - 2)], ['label', 1], ['label', n - 1],
             ['labels', [2, 0]], ['chain', ['slice', 1, None, None], ['int', 0]],
             ['chain', ['list', [2, 0, 1]], ['slice', None, None, 2]], ['chain', ['bool', [1] * n], ['npint', n - 1]],
             ['chain', ['list', [2, 0, 1]], ['label', 0]], ['chain', ['slice', None, None, -1], ['labels', [0, 2]]]]
    return forms


def index_forms(n):
    """JSON-able index specifications for a catalog of n sources (simplest first): the everyday forms, then the
    value x container product.  Forms that numpy itself does not accept as a selection of sources are part of the list;
    ``select`` names the reason and they are counted as skipped."""
    base = base_forms(n)
    return base + [f for f in container_forms(n) if f not in base]


def representative_forms(n):
    """One form per container (the first = simplest value it occurs with)."""
    seen, out = set(), []
    for f in container_forms(n):
        tag = form_tag(f)
        if tag not in seen and f[0] != 'chain':
            seen.add(tag)
            out.append(f)
    return out


EMPTY = ('selects zero sources: a catalog without sources is not an object of either class (SourceCatalog rejects a '
         'segmentation image without labels, ApertureStats cannot be built from an aperture without positions)')


# Measured on the pinned tree: cat[(1,)] works while nothing is cached and raises AttributeError once a list-valued
# property is cached; tuples of length >= 2 are rejected by numpy itself.
TUPLE = ('a tuple is numpy\'s multi-dimensional index (a[(2, 0)] is a[2, 0]), not one of the index forms of the statement '
         '(integer, slice, integer list, boolean mask); tuples are explored where they are documented: get_labels / get_ids')


def positions(form, pos):
    """Reference semantics of an index form on the list of positions ``pos`` -> int (scalar child) or list: what numpy
    returns for the same index object applied to ``np.array(pos)``.  Raises Rejected where that is not a selection."""
    kind = form[0]
    if isinstance(pos, int):
        raise Rejected('a scalar catalog cannot be indexed (documented TypeError)')
    if kind in ('iscalar', 'iseq', 'mask') and form[1].startswith('tuple'):
        raise Rejected(TUPLE)
    if kind == 'chain':
        return positions(form[2], positions(form[1], pos))
    if kind in ('label', 'xlabel'):            # the label is looked up at that position of the catalog
        return pos[form[-1]]
    if kind in ('labels', 'xlabels'):
        if kind == 'xlabels' and form[1] == 'scalar:int':
            return pos[form[2][0]]
        return [pos[i] for i in form[-1]]
    idx = build_index(form)
    try:
        r = np.array(pos, dtype=int)[idx]
    except IndexError as e:
        raise Rejected(f'numpy rejects this index for a 1-D array (IndexError: {str(e)[:60]})')
    if r.ndim == 0:
        return int(r)
    if r.ndim > 1:
        raise Rejected(f'numpy does not read this index as a selection of sources (result has {r.ndim} dimensions)')
    return [int(x) for x in r]


def select(form, n):
    """-> ('ok', int | non-empty list of positions) or ('skip', reason)."""
    try:
        sel = positions(form, list(range(n)))
    except Rejected as e:
        return 'skip', e.args[0]
    if not isinstance(sel, int) and len(sel) == 0:
        return 'skip', EMPTY
    return 'ok', sel


def apply_index(cat, form, cls):
    kind = form[0]
    if kind in ('label', 'labels', 'xlabel', 'xlabels'):
        names = np.atleast_1d(cat.labels if cls == 'SC' else cat.ids)
        if kind in ('label', 'xlabel'):
            lab = int(names[form[-1]])
            if kind == 'xlabel':
                lab = _carry_scalar(form[1], lab)
            return cat.get_label(lab) if cls == 'SC' else cat.get_id(lab)
        labs = [int(names[i]) for i in form[-1]]
        if kind == 'xlabels':
            labs = labs[0] if form[1] == 'scalar:int' else _carry(form[1], labs)
        return cat.get_labels(labs) if cls == 'SC' else cat.get_ids(labs)
    if kind == 'chain':
        return apply_index(apply_index(cat, form[1], cls), form[2], cls)
    return cat[build_index(form)]


def _is_seq(v):
    return isinstance(v, (list, tuple)) or (isinstance(v, np.ndarray) and v.dtype == object and not hasattr(v, 'unit'))


def take(v, sel):
    """Reference "index a per-source value": element for an int, sub-sequence for a list of positions."""
    from astropy.table import Table
    if isinstance(v, Table):                   # a scalar catalog reports a one-row table
        return v[[sel] if isinstance(sel, int) else list(sel)]
    if isinstance(sel, int):
        return v[sel]
    if _is_seq(v):
        return [v[i] for i in sel]
    return v[list(sel)] if len(sel) else v[:0]


def norm(v):
    """Comparable form: sequences -> lists; apertures -> (type, parameter values) -- their own lazily cached
    attributes (_bbox, _centered_edges ...) are not part of the value."""
    if _is_seq(v):
        return [norm(x) for x in v]
    if hasattr(v, '_params') and hasattr(v, 'positions'):
        return {'aperture': type(v).__name__, 'positions': np.asarray(getattr(v.positions, 'value', v.positions)),
                'params': {k: getattr(v, k) for k in v._params}}
    if type(v).__name__ == 'CutoutImage':
        return {'cutout': np.asarray(v.data), 'bbox_original': norm_bbox(v.bbox_original), 'xyorigin': np.asarray(v.xyorigin),
                'position': np.asarray(v.position, dtype=float), 'mode': v.mode}
    from astropy.table import Table
    if isinstance(v, Table):
        import astropy.units as u
        from astropy.coordinates import SkyCoord
        return {n: (v[n] if isinstance(v[n], SkyCoord) else u.Quantity(v[n]) if isinstance(v[n], u.Quantity)
                    else np.asarray(v[n])) for n in v.colnames}
    return v


def norm_bbox(b):
    return [b.ixmin, b.ixmax, b.iymin, b.iymax]


# ============================================================================ methods with arguments
# "Properties" that take an argument: the per-source result of a public method called with a fixed argument, and the
# extra property that the photometry methods create with ``name=``.  spec = (method, args, name or None, attributes
# created by name).  Argument alphabets: fluxfrac in {0.2, 0.5 (what centroid_win uses), 1.0 (boundary of the valid
# range)}; circular radius in {1.5 (inside the source), 6.0 (reaches neighbours / the image edge)}; Kron parameters
# in {2-tuple, 3-tuple with a large minimum circular radius}.
SC_METHODS = {
    'fluxfrac_radius(0.2)': ('fluxfrac_radius', (0.2,), None, ()),
    'fluxfrac_radius(0.5)': ('fluxfrac_radius', (0.5,), None, ()),
    'fluxfrac_radius(1.0)': ('fluxfrac_radius', (1.0,), None, ()),
    'fluxfrac_radius(0.5,name=m_r)': ('fluxfrac_radius', (0.5,), 'm_r', ('m_r',)),
    'circular_photometry(1.5)': ('circular_photometry', (1.5,), None, ()),
    'circular_photometry(6.0)': ('circular_photometry', (6.0,), None, ()),
    'circular_photometry(3.0,name=m_c)': ('circular_photometry', (3.0,), 'm_c', ('m_c_flux', 'm_c_fluxerr')),
    'kron_photometry((2.5,1.4))': ('kron_photometry', ((2.5, 1.4),), None, ()),
    'kron_photometry((1.5,2.0,3.0))': ('kron_photometry', ((1.5, 2.0, 3.0),), None, ()),
    'kron_photometry((2.0,1.0),name=m_k)': ('kron_photometry', ((2.0, 1.0),), 'm_k', ('m_k_flux', 'm_k_fluxerr')),
    'make_circular_apertures(3.0)': ('make_circular_apertures', (3.0,), None, ()),
    'make_kron_apertures((2.0,1.0))': ('make_kron_apertures', ((2.0, 1.0),), None, ()),
    'make_cutouts((5,7))': ('make_cutouts', ((5, 7),), None, ()),
    'to_table()': ('to_table', (), None, ()),
}
AS_METHODS = {'to_table()': ('to_table', (), None, ())}
METHODS = {'SC': SC_METHODS, 'AS': AS_METHODS}


def _pack(v):
    """(flux, fluxerr) -> one per-source value of shape (n, 2) (scalar catalog: (2,))."""
    if isinstance(v, tuple):
        return np.stack(list(v), axis=-1)
    return v


def evaluate(cat, cls, p):
    """Read property p, or call the method that p stands for."""
    spec = METHODS[cls].get(p)
    if spec is None:
        return getattr(cat, p)
    meth, args, name, attrs = spec
    if name is None:
        return _pack(getattr(cat, meth)(*args))
    # the named flavour: the value is what the catalog reports under the extra-property name(s); the method is
    # called only if this catalog does not have them yet (they were not evaluated before the indexing)
    if not all(a in cat.extra_properties for a in attrs):
        getattr(cat, meth)(*args, name=name)
    return _pack(tuple(getattr(cat, a) for a in attrs)) if len(attrs) > 1 else getattr(cat, attrs[0])


# ============================================================================ property lists
_PROPS = {}


def prop_lists(cls, variant, seed):
    """(public property names incl. catalogue-level ones, private lazy names)."""
    k = (cls, variant)
    if k not in _PROPS:
        cat = make(cls, variant, seed)
        public = list(cat.properties)
        extra = ['isscalar', 'nlabels'] if cls == 'SC' else ['id', 'ids']
        for e in extra + list(METHODS[cls]):
            if e not in public:
                public.append(e)
        private = [n for n in cat._lazyproperties if n.startswith('_')]
        _PROPS[k] = (sorted(public), sorted(private))
    return _PROPS[k]


_FULL = {}


def full_value(cls, variant, seed, p):
    """Value of p on a fresh catalog on which nothing else was read: ('ok', value) or ('exc', repr)."""
    k = (cls, variant, seed, p)
    if k not in _FULL:
        cat = make(cls, variant, seed)
        try:
            with warnings.catch_warnings():
                warnings.simplefilter('ignore')
                _FULL[k] = ('ok', evaluate(cat, cls, p))
        except Exception as e:
            _FULL[k] = ('exc', f'{type(e).__name__}: {e}')
    return _FULL[k]


def expected(cls, variant, seed, p, sel):
    """-> ('ok', value) | ('skip', why)"""
    n = nsources(cls, variant)
    if p == 'isscalar':
        return 'ok', isinstance(sel, int)
    if p in ('nlabels', 'n_apertures'):
        return 'ok', 1 if isinstance(sel, int) else len(sel)
    st, v = full_value(cls, variant, seed, p)
    if st != 'ok':
        return 'skip', v
    try:
        if len(v) != n:
            return 'skip', f'not per-source: len {len(v)}'
    except TypeError:
        return 'skip', 'not per-source: no len'
    e = take(v, sel)
    if p in ALWAYS_ITERABLE:
        e = np.atleast_1d(e)
    return 'ok', e


def compare(p, got, exp):
    if p in ALWAYS_ITERABLE:
        got = np.atleast_1d(got)
    if p in CATALOG_LEVEL:
        return None if (got == exp and not isinstance(got, np.ndarray)) else f'{got!r} != {exp!r}'
    # check_type=False: an index column is float only because another source of the catalog has NaN there
    try:
        return diff(norm(got), norm(exp), rtol=RTOL, atol=ATOL, check_type=False)
    except Exception as e:
        # the comparison itself failed: legitimate only if the child's value has a structure the expected value does
        # not have (ragged list where an array is expected ...); the expected value must be comparable with itself,
        # otherwise this is a harness problem and must not look like a verdict
        diff(norm(exp), norm(exp), rtol=RTOL, atol=ATOL, check_type=False)
        return f'structure differs, not comparable ({type(e).__name__}: {str(e)[:80]}): {short(got, 80)}'


# ============================================================================ commutation template
def kind_forms(n):
    """One form per KIND of container: mask as a list of bools, positions as a narrow unsigned array, numpy scalar of
    another width than the platform integer, 0-d array, documented tuple of labels."""
    k = 1 if n > 1 else 0
    return [['mask', 'list:bool', [1, 0, 1] + [0] * (n - 3) if n > 1 else [1]],
            ['iseq', 'array:uint8', [2, 0] if n > 1 else [0]], ['iscalar', 'np.int32', k],
            ['iscalar', 'array0d:int64', k], ['xlabels', 'tuple', [2, 0] if n > 1 else [0]]]


def forms_for(pre, n, tier):
    """Index forms explored with a pre-cache set.
    everything cached (every cached value -- arrays, Quantities, SkyCoords, lists, lists with None -- is re-sliced
    with the index): the everyday forms and the complete value x container product, both tiers.
    nothing cached / {p} cached: the same in the thorough tier; in the quick tier the everyday forms + one form per
    container (nothing cached) resp. + one form per kind of container (``kind_forms``; {p} cached).
    a single attribute q cached, thorough tier: everyday forms + one form per container (q private: the value the child
    recomputes its public properties from) resp. + one form per kind of container (q public).  Quick tier (q private
    only): 9 structurally different everyday forms + a mask given as a list of bools (``list[index]`` raises
    TypeError for it and the fallback branch re-reads the index; ints, slices, integer lists / arrays and numpy
    scalars (get_label) are among the 9)."""
    if pre[0] == 'all' or (tier == 'thorough' and pre[0] in ('none', 'same')):
        return index_forms(n)
    base = base_forms(n)
    reps = [f for f in representative_forms(n) if f not in base]
    if pre[0] == 'none':
        return base + reps
    if pre[0] == 'same':
        return base + kind_forms(n)
    if tier == 'thorough':
        return base + (reps if pre[1].startswith('_') else kind_forms(n))
    if n == 1:
        return base + kind_forms(n)[:1]
    keep = (['int', 0], ['int', -1], ['slice', 0, 2, None], ['slice', None, None, -1], ['list', [2, 0]],
            ['bool', [1, 0, 1] + [0] * (n - 3)], ['label', 1], ['chain', ['slice', 1, None, None], ['int', 0]],
            ['chain', ['list', [2, 0, 1]], ['label', 0]])
    return [f for f in base if f in keep] + kind_forms(n)[:1]


def pre_sets(cls, variant, tier, seed):
    """Pre-cache sets of a variant.  The crowded-field variants (apermask_method axis) are a sub-product in the quick
    tier: nothing cached (every aperture quantity is computed by the child, whose catalog lacks the neighbours) and
    everything cached (the methods with an argument are still computed by the child, from the sliced centroids / local
    backgrounds) for all three methods, {p} cached for the default method 'correct' only; the single-attribute sets are
    explored in the thorough tier (private ones for all three methods, public ones for 'correct')."""
    public, private = prop_lists(cls, variant, seed)
    if cls == 'SC' and variant in CROWD4_METHODS:
        default = CROWD4_METHODS[variant] == 'correct'
        if tier != 'thorough':
            return [['none'], ['same'], ['all']] if default else [['none'], ['all']]
        sets = [['none'], ['same'], ['all']] + [['one', q] for q in private]
        return sets + ([['one', q] for q in public if q not in CATALOG_LEVEL] if default else [])
    sets = [['none'], ['same'], ['all']] + [['one', q] for q in private]
    if tier == 'thorough':
        sets += [['one', q] for q in public if q not in CATALOG_LEVEL]
    return sets


def do_pre(cat, pre, p, cls, variant, seed):
    """Evaluate the pre-cache set on the parent (exceptions of the parent are not C08's business)."""
    public, private = prop_lists(cls, variant, seed)
    names = {'none': [], 'same': [p], 'all': private + public, 'one': pre[1:]}[pre[0]]
    with warnings.catch_warnings():
        warnings.simplefilter('ignore')
        for q in names:
            try:
                evaluate(cat, cls, q)
            except Exception:
                pass


def _clean(v, depth=0):
    """State canonicalisation helper: strip scratch attributes that cannot influence any later result -- the lazily
    cached attributes of aperture objects (isscalar, _bbox, _centered_edges ...), SigmaClip's per-call scratch
    values and the date stamp of ``meta`` -- and recurse into containers / nested catalogs."""
    if depth > 6:
        return v
    if isinstance(v, (list, tuple)):
        return [_clean(x, depth + 1) for x in v]
    if isinstance(v, np.ndarray) and v.dtype == object:
        return [_clean(x, depth + 1) for x in v.tolist()]
    if isinstance(v, dict):
        return {k: _clean(x, depth + 1) for k, x in v.items() if k != 'date'}
    if hasattr(v, '_params') and hasattr(v, 'positions'):
        return norm(v)
    tname = type(v).__name__
    if tname == 'SigmaClip':
        return ('SigmaClip',) + tuple(repr(getattr(v, k, None)) for k in
                                      ('sigma', 'sigma_lower', 'sigma_upper', 'maxiters', 'cenfunc', 'stdfunc', 'grow'))
    if tname in ('SourceCatalog', 'ApertureStats'):
        return _canon_dict(v)
    return v


def _canon_dict(obj):
    return {k: _clean(v) for k, v in obj.__dict__.items()}


def _raise_site(e):
    """Name of the innermost photutils function in the traceback (groups one defect under one key)."""
    import traceback
    names = [f.name for f in traceback.extract_tb(e.__traceback__) if '/photutils/' in f.filename
             and f.name not in ('_as_scalar', '_use_detcat', '_decorator', '__get__')]
    return names[-1] if names else '?'


def run_trace(acc, cls, variant, pre, form, p, seed, report=True):
    """ONE history on fresh objects: build, pre-cache, index, evaluate p, compare.  Returns a violation tuple or None."""
    case = {'kind': 'commute', 'cls': cls, 'variant': variant, 'pre': pre, 'index': form, 'property': p}
    st, sel = select(form, nsources(cls, variant))
    if st != 'ok':
        return None
    st, exp = expected(cls, variant, seed, p, sel)
    if st != 'ok':
        return None
    parent = make(cls, variant, seed)
    do_pre(parent, pre, p, cls, variant, seed)
    v = None
    try:
        with warnings.catch_warnings():
            warnings.simplefilter('ignore')
            child = apply_index(parent, form, cls)
    except Exception as e:
        v = ('index-raises', _site(cls, form, pre, '__getitem__', sel), f'{type(e).__name__}: {e}', 'no exception')
        child = None
    if child is not None:
        v = wrong_selection(child, cls, variant, seed, form, sel) or eval_compare(child, cls, p, exp, form, pre, sel)
    if v and report:
        acc.violation(v[0], v[1], case, v[2], v[3], f'{cls} {variant}: pre-cache {pre}, index {form}, property {p}')
    return v


def wrong_selection(child, cls, variant, seed, form, sel):
    """Clause 'selection': the child must consist of exactly the sources that numpy selects with the same index from
    the per-source array of names (``cat.labels[idx]`` / ``cat.ids[idx]``), in that order.  When it does not, every
    property of the child is off for the same reason, so this is reported once (per kind of index) instead of once per
    property.  Returns a violation tuple or None (also None when the names cannot be read: the per-property comparison
    then says what is wrong)."""
    name = 'labels' if cls == 'SC' else 'ids'
    st, full = full_value(cls, variant, seed, name)
    if st != 'ok':
        return None
    exp = np.atleast_1d(take(np.atleast_1d(full), sel))
    try:
        with warnings.catch_warnings():
            warnings.simplefilter('ignore')
            got = np.atleast_1d(getattr(child, name))
            scalar = bool(child.isscalar)
    except Exception:
        return None
    if got.shape != exp.shape or not np.array_equal(got, exp) or scalar != isinstance(sel, int):
        return ('selection', f'{cls}.__getitem__:{form_tag(form)}',
                f'{name} {got.tolist()} isscalar={scalar}', f'{name} {exp.tolist()} isscalar={isinstance(sel, int)}')
    return None


def _site(cls, form, pre, p, sel, cached_state=True):
    shape = 'scalar-child' if isinstance(sel, int) else 'child'
    if not cached_state:
        return f'{cls}.{p}:{shape}'
    cached = {'none': 'uncached', 'same': 'cached', 'all': 'cached-all', 'one': 'cached-other'}[pre[0]]
    return f'{cls}.{p}:{shape}:{cached}'


def eval_compare(child, cls, p, exp, form, pre, sel):
    try:
        with warnings.catch_warnings():
            warnings.simplefilter('ignore')
            got = evaluate(child, cls, p)
    except Exception as e:
        return ('child-raises', _site(cls, form, pre, _raise_site(e), sel, cached_state=False), f'{type(e).__name__}: {e}',
                short(exp, 200))
    d = compare(p, got, exp)
    if d:
        return ('commute', _site(cls, form, pre, p, sel), short(got, 300), short(exp, 300) + '   [' + d + ']')
    return None


def _nested_snapshot(snap):
    """Catalogs held by the child (the sliced detection catalog of a SourceCatalog built with ``detection_cat``): their
    lazily filled __dict__ is part of the child's state -- (object, copy of its __dict__, content of its extra list)."""
    return [(v, dict(v.__dict__), list(v.__dict__.get('_extra_properties') or []))
            for v in snap.values() if type(v).__name__ in ('SourceCatalog', 'ApertureStats')]


def _restore(child, snap, extras, nested=()):
    """Put the child back into its post-index state (including the catalogs it holds, see ``_nested_snapshot``).  The
    extra-property list is restored *in place* (methods called with ``name=`` append to it), so that whatever it is
    shared with stays shared."""
    for obj, d, ex in list(nested) + [(child, snap, extras)]:
        obj.__dict__.clear()
        obj.__dict__.update(d)
        lst = d.get('_extra_properties')
        if isinstance(lst, list):
            lst[:] = ex


_NEIGH = {}
APERTURES_MEASURED = ('kron_aperture', 'circle r=6.0', 'circle r=1.5', 'local_background_aperture', 'bbox')


def crowd_neighbours(variant, seed):
    """For a crowded-field variant: per source position, per aperture kind, the POSITIONS of the other sources whose
    segment has a pixel inside that aperture ('center' mask) of the fresh full catalog -- measured on the tree under test
    (evidence and the non-triviality counter only; the oracle never uses it).  {} if it cannot be measured."""
    k = (variant, seed)
    if k not in _NEIGH:
        out = {}
        try:
            with warnings.catch_warnings():
                warnings.simplefilter('ignore')
                cat = make('SC', variant, seed)
                seg = np.asarray(cat._segment_img.data)
                labs = [int(x) for x in cat.labels]
                aps = {'kron_aperture': list(cat.kron_aperture), 'circle r=6.0': list(cat.make_circular_apertures(6.0)),
                       'circle r=1.5': list(cat.make_circular_apertures(1.5)),
                       'local_background_aperture': list(cat.local_background_aperture)}
                for name, lst in aps.items():
                    out[name] = []
                    for i, ap in enumerate(lst):
                        inside = ap.to_mask('center').to_image(seg.shape) > 0
                        out[name].append(sorted(labs.index(int(v)) for v in set(seg[inside].tolist()) - {0, labs[i]}))
                out['bbox'] = [sorted(labs.index(int(v)) for v in set(seg[slc].ravel().tolist()) - {0, labs[i]})
                               for i, slc in enumerate(cat.slices)]
        except Exception as e:                  # the tree under test may be broken here
            out = {'unmeasurable': f'{type(e).__name__}: {e}'}
        _NEIGH[k] = out
    return _NEIGH[k]


def drops_neighbour(variant, seed, sel):
    """True when the child (positions ``sel``) holds a source but not every source whose segment lies inside that
    source's Kron aperture: the child can give the parent's answer only if it still looks at the segmentation image."""
    nb = crowd_neighbours(variant, seed).get('kron_aperture')
    if not nb:
        return False
    inside = {sel} if isinstance(sel, int) else set(sel)
    return any(not set(nb[i]) <= inside for i in inside)


def run_batch(acc, cls, variant, pre, form, seed):
    """All public p for one (pre-cache set, index form) with pre[0] in {none, all, one}: the parent is built, pre-cached
    and indexed ONCE; before each p the child's __dict__ is restored to the post-index snapshot.  A mismatch is
    re-executed as a fresh single history (run_trace) and reported from there."""
    public, private = prop_lists(cls, variant, seed)
    n = nsources(cls, variant)
    st, sel = select(form, n)
    if st != 'ok':
        acc.skip(f'index {form_tag(form)}: {sel[:100]}')
        return
    parent = make(cls, variant, seed)
    do_pre(parent, pre, None, cls, variant, seed)
    try:
        with warnings.catch_warnings():
            warnings.simplefilter('ignore')
            child = apply_index(parent, form, cls)
    except Exception:
        child = None
    snap = dict(child.__dict__) if child is not None else None
    extras = list(snap.get('_extra_properties') or []) if child is not None else None
    nested = _nested_snapshot(snap) if child is not None else ()
    k0 = state_key({'child': _canon_dict(child), 'parent': _canon_dict(parent)}) if child is not None else None
    if k0 is not None:
        if acc.state_keys is None:
            acc.state_keys = set()
        acc.state_keys.add(k0)
    nsel = 1 if isinstance(sel, int) else len(sel)
    nontrivial = nsel >= 1 and (pre[0] != 'none' or isinstance(sel, int) or sel != sorted(sel))
    crowd_drop = cls == 'SC' and variant in CROWD4_METHODS and drops_neighbour(variant, seed, sel)
    if child is not None and wrong_selection(child, cls, variant, seed, form, sel):
        # the child does not hold the selected sources: one finding, not one per property
        acc.transitions += 3
        acc.traces += 1
        acc.case(nontrivial=nontrivial)
        if not run_trace(acc, cls, variant, pre, form, 'labels' if cls == 'SC' else 'ids', seed):
            acc.counters['batched_mismatch_not_reproduced_fresh'] += 1
            acc.notes.append(f'batched wrong selection not reproduced by the fresh history: {cls} {variant} {pre} {form}')
        return
    for p in public:
        st, exp = expected(cls, variant, seed, p, sel)
        if st != 'ok':
            acc.skip(f'{cls}.{p}: {exp[:60]}' if 'per-source' not in exp else f'{cls}.{p}: not a per-source value')
            continue
        acc.transitions += 3
        acc.traces += 1
        case = {'kind': 'commute', 'cls': cls, 'variant': variant, 'pre': pre, 'index': form, 'property': p}
        acc.case(nontrivial=nontrivial or crowd_drop, sample=case if acc.evaluations % 7919 == 11 else None)
        if crowd_drop:
            acc.counters[f'crowd_histories_child_lacks_a_neighbour:{pre[0]}'] += 1
        v = None
        if child is None:
            v = True
        else:
            _restore(child, snap, extras, nested)
            v = eval_compare(child, cls, p, exp, form, pre, sel)
        if v:
            v2 = run_trace(acc, cls, variant, pre, form, p, seed)
            if not v2:
                acc.counters['batched_mismatch_not_reproduced_fresh'] += 1
                acc.notes.append(f'batched mismatch not reproduced by the fresh history: {case} {v}')
        else:
            acc.outcome((cls, p, isinstance(sel, int)))
    if child is not None:
        _restore(child, snap, extras, nested)
        k1 = state_key({'child': _canon_dict(child), 'parent': _canon_dict(parent)})
        if k1 != k0:
            # an evaluation changed an object shared with the snapshot: the batch is not a faithful stand-in for
            # independent histories -> redo every p as a fresh single history
            acc.counters['batches_redone_fresh'] += 1
            for p in public:
                run_trace(acc, cls, variant, pre, form, p, seed)


def run_same(acc, cls, variant, form, seed):
    """pre-cache set {p}: one fresh history per p."""
    public, _ = prop_lists(cls, variant, seed)
    st, sel = select(form, nsources(cls, variant))
    if st != 'ok':
        acc.skip(f'index {form_tag(form)}: {sel[:100]}')
        return
    for p in public:
        st, exp = expected(cls, variant, seed, p, sel)
        if st != 'ok':
            continue
        acc.transitions += 3
        acc.traces += 1
        acc.case(nontrivial=True)
        run_trace(acc, cls, variant, ['same'], form, p, seed)


# ============================================================================ extra-property independence (BFS)
NAMES = ('xa', 'xb')


class XState:
    __slots__ = ('cats', 'model', 'sel')


class ExtraSystem:
    """Family {P (parent), C (child = P[index])}; reference model: two separate ordered name->value maps."""

    def __init__(self, variant, seed, menu):
        # menu 'basic': add / overwrite / rename / remove / remove-all / circular_photometry(name) / index / copy /
        # to_table;  'photometry': additionally fluxfrac_radius(name) and kron_photometry(name)
        self.variant, self.seed, self.menu = variant, seed, menu
        self.n = nsources('SC', variant)
        # nested tuples (histories must be hashable)
        self.forms = ((('list', (2, 0)), ('int', 1), ('slice', 1, None, None)) if self.n > 1
                      else (('slice', 0, 1, None),))

    def initial(self):
        st = XState()
        st.cats = {'P': make('SC', self.variant, self.seed), 'C': None}
        st.model = {'P': {}, 'C': None}
        st.sel = {'P': list(range(self.n)), 'C': None}
        return st

    def canon(self, st):
        return state_key({w: (None if c is None else _canon_dict(c)) for w, c in st.cats.items()})

    def _value(self, name, who, st, k=0):
        sel = st.sel[who]
        base = {'xa': 10.0, 'xb': 200.0}.get(name, 3000.0) + k
        if isinstance(sel, int):
            return base + sel
        return np.array([base + s for s in sel])

    def ops(self, st):
        ops = []
        if st.cats['C'] is None:
            ops += [('index', f) for f in self.forms]
        for who in ('P', 'C'):
            if st.cats[who] is None:
                continue
            m = st.model[who]
            for name in NAMES:
                if name not in m:
                    ops.append(('add', who, name))
                else:
                    ops.append(('overwrite', who, name))
                    ops.append(('remove', who, name))
                    for new in NAMES + ('xc',):
                        if new not in m:
                            ops.append(('rename', who, name, new))
                            break
            if 'circ_flux' not in m:
                ops.append(('circular_photometry', who))
            if 'r50' not in m and self.menu == 'photometry':
                ops.append(('fluxfrac_radius', who))
            if 'kr_flux' not in m and self.menu == 'photometry':
                ops.append(('kron_photometry', who))
            if m:
                ops.append(('remove_all', who))
            ops.append(('copy', who))
            ops.append(('to_table', who))
        return ops

    def nontrivial(self, hist):
        idx = [i for i, op in enumerate(hist) if op[0] == 'index']
        return bool(idx) and any(op[0] not in ('index', 'to_table', 'copy') for op in hist[idx[0] + 1:])

    def outcome(self, st):
        return repr({w: (None if m is None else list(m)) for w, m in st.model.items()})

    def apply(self, st, op, report):
        name = op[0]
        try:
            with warnings.catch_warnings():
                warnings.simplefilter('ignore')
                if name == 'index':
                    st.cats['C'] = apply_index(st.cats['P'], op[1], 'SC')
                    sel = positions(op[1], st.sel['P'])
                    st.sel['C'] = sel
                    psel = positions(op[1], list(range(len(st.sel['P']))))
                    st.model['C'] = {k: take(v, psel) for k, v in st.model['P'].items()}
                    return True
                who = op[1]
                cat, m = st.cats[who], st.model[who]
                if name == 'add':
                    v = self._value(op[2], who, st)
                    cat.add_extra_property(op[2], v.copy() if isinstance(v, np.ndarray) else v)
                    m[op[2]] = v
                elif name == 'overwrite':
                    v = self._value(op[2], who, st, k=0.5)
                    cat.add_extra_property(op[2], v.copy() if isinstance(v, np.ndarray) else v, overwrite=True)
                    m[op[2]] = v
                elif name == 'remove':
                    cat.remove_extra_property(op[2])
                    del m[op[2]]
                elif name == 'remove_all':
                    cat.remove_extra_properties(cat.extra_properties)
                    m.clear()
                elif name == 'rename':
                    cat.rename_extra_property(op[2], op[3])
                    items = [(op[3] if k == op[2] else k, v) for k, v in m.items()]   # same position in the list
                    m.clear()
                    m.update(items)
                elif name == 'circular_photometry':
                    f, e = cat.circular_photometry(3.0, name='circ')
                    m['circ_flux'], m['circ_fluxerr'] = f, e
                    self._method_commutes(st, who, 'circular_photometry(3.0,name=m_c)', _pack((f, e)), report)
                elif name == 'kron_photometry':
                    f, e = cat.kron_photometry((2.0, 1.0), name='kr')
                    m['kr_flux'], m['kr_fluxerr'] = f, e
                    self._method_commutes(st, who, 'kron_photometry((2.0,1.0),name=m_k)', _pack((f, e)), report)
                elif name == 'fluxfrac_radius':
                    m['r50'] = cat.fluxfrac_radius(0.5, name='r50')
                    self._method_commutes(st, who, 'fluxfrac_radius(0.5)', m['r50'], report)
                elif name == 'copy':
                    st.cats[who] = cat.copy()
                elif name == 'to_table':
                    cols = ['label'] + list(m)
                    tbl = cat.to_table(columns=cols)
                    if tbl.colnames != cols:
                        report('to_table-columns', f'to_table:{who}', tbl.colnames, cols)
                else:  # pragma: no cover
                    raise AssertionError(op)
        except Exception as e:
            report('op-raises', f'{name}:{type(e).__name__}', f'{type(e).__name__}: {e}', 'no exception',
                   f'valid operation {op} raised')
            return False
        return True

    def _method_commutes(self, st, who, pseudo, got, report):
        """A photometry method run on parent or child (whatever the history before) reports, per source, what a fresh
        full catalog reports for the same sources."""
        status, full = full_value('SC', self.variant, self.seed, pseudo)
        if status != 'ok':
            return
        d = compare(pseudo, got, take(full, st.sel[who]))
        if d:
            report('method-commute', f'SC.{pseudo.split("(")[0]}:{who}', short(got, 300),
                   short(take(full, st.sel[who]), 300) + '   [' + d + ']')

    def invariant(self, st, report):
        for who in ('P', 'C'):
            cat, m = st.cats[who], st.model[who]
            if cat is None:
                continue
            other = 'C' if who == 'P' else 'P'
            try:
                names = list(cat.extra_properties)
                if names != list(m):
                    report('extras-list', 'extra_properties', names, list(m),
                           f'{who}.extra_properties differs from what was added/renamed/removed on {who} itself '
                           f'(other catalog: {other})')
                    continue        # to_table(names) below would only repeat the same finding
                for k, v in m.items():
                    if not hasattr(cat, k):
                        report('extras-attr-missing', f'{who}.{k}', 'no attribute', short(v))
                        continue
                    d = diff(getattr(cat, k), v)
                    if d:
                        report('extras-value', f'value:{who}', short(getattr(cat, k)), short(v), f'{who}.{k}: {d}')
                for k in NAMES + ('xc', 'circ_flux', 'circ_fluxerr', 'r50', 'kr_flux', 'kr_fluxerr'):
                    if k not in m and k in cat.__dict__:
                        report('extras-attr-leak', f'leak:{who}', k, 'absent',
                               f'{who} has attribute {k} that was never added to it (or was removed)')
                # "... never changes what the other reports": two built-in columns against the fresh catalog
                for base in ('segment_flux', 'xcentroid'):
                    st_, full = full_value('SC', self.variant, self.seed, base)
                    d = compare(base, getattr(cat, base), take(full, st.sel[who]))
                    if d:
                        report('builtin-changed', f'{base}:{who}', short(getattr(cat, base)), short(take(full, st.sel[who])), d)
                with warnings.catch_warnings():
                    warnings.simplefilter('ignore')
                    cols = ['label'] + names
                    tbl = cat.to_table(columns=cols)
                lab = np.atleast_1d(cat.labels)
                if not np.array_equal(np.asarray(tbl['label']), lab):
                    report('to_table-label', f'to_table:{who}', list(tbl['label']), lab.tolist())
                for k in names:
                    if k in m:
                        col = tbl[k]
                        d = diff(np.atleast_1d(getattr(col, 'value', np.asarray(col))),
                                 np.atleast_1d(getattr(m[k], 'value', m[k])))
                        if d:
                            report('to_table-value', f'to_table:{who}', short(col), short(m[k]), d)
            except Exception as e:
                report('read-raises', f'{who}:{type(e).__name__}', f'{type(e).__name__}: {e}', 'no exception',
                       f'reading extra properties / to_table of {who} raised (other catalog: {other})')


# ============================================================================ plan / run / replay
def variants(tier):
    return {'SC': SC_VARIANTS, 'AS': AS_VARIANTS}


def plan(tier, seed):
    units = []
    for cls, vs in variants(tier).items():
        for v in vs:
            for pre in pre_sets(cls, v, tier, seed):
                forms = forms_for(pre, nsources(cls, v), tier)
                if pre[0] == 'same':
                    for f in forms:
                        units.append({'kind': 'same', 'cls': cls, 'variant': v, 'forms': [f]})
                else:
                    k = -(-len(forms) // 24)       # <= 24 index forms per unit
                    for j in range(k):
                        units.append({'kind': 'batch', 'cls': cls, 'variant': v, 'pre': pre, 'forms': forms[j::k]})
    for v, menu, depth in extras_plan(tier):
        sysm = ExtraSystem(v, seed, menu)
        nops = len(sysm.ops(sysm.initial()))
        for i in range(nops):
            units.append({'kind': 'extras', 'variant': v, 'menu': menu, 'first': [i], 'depth': depth})
    # expensive SourceCatalog batches first, so that the pool is not left idle at the end
    units.sort(key=lambda u: (u['kind'] != 'extras', u.get('cls') != 'SC'))
    return units


def extras_plan(tier):
    """(variant, operation menu, BFS depth)"""
    # photometry menu: the methods run on parent and child are judged per source against the fresh full catalog, so the
    # scene matters: the crowded field (every aperture covers a neighbour's segment; 'correct' and 'mask') and hard6.
    # quick: the crowded field stands in for plain4 (same number of sources, same constructor options + a mask)
    if tier == 'thorough':
        return [('plain4', 'basic', 5), ('single', 'basic', 5), ('plain4', 'photometry', 4), ('rich4', 'basic', 4),
                ('hard6', 'photometry', 4), ('crowd4c', 'photometry', 4), ('crowd4m', 'photometry', 3)]
    return [('plain4', 'basic', 4), ('single', 'basic', 4), ('crowd4c', 'photometry', 3), ('hard6', 'photometry', 3)]


def run_unit(unit, tier, seed):
    acc = Acc()
    if unit['kind'] == 'batch':
        for f in unit['forms']:
            run_batch(acc, unit['cls'], unit['variant'], unit['pre'], f, seed)
    elif unit['kind'] == 'same':
        for f in unit['forms']:
            run_same(acc, unit['cls'], unit['variant'], f, seed)
    else:
        sysm = ExtraSystem(unit['variant'], seed, unit['menu'])
        explore(sysm, unit['depth'], acc, first_ops=unit['first'],
                extra={'kind': 'extras', 'variant': unit['variant'], 'menu': unit['menu']},
                root_check=(unit['first'][0] == 0))
    return acc


def _tup(x):
    return tuple(_tup(v) for v in x) if isinstance(x, (list, tuple)) else x


def replay(case, seed):
    acc = Acc()
    if case.get('kind') == 'commute':
        run_trace(acc, case['cls'], case['variant'], case['pre'], case['index'], case['property'], seed)
        return acc
    sysm = ExtraSystem(case['variant'], seed, case.get('menu', 'photometry'))
    hist = _tup(case['history'])
    from ..explorer import _mk_report
    extra = {k: v for k, v in case.items() if k != 'history'}
    if hist:
        st, usable = build(sysm, hist, acc, extra)
    else:
        st, usable = sysm.initial(), True
    if usable:
        sysm.invariant(st, _mk_report(acc, sysm, hist, extra))
    return acc


def exceptional_sources(variant, seed):
    """Positions of the sources of a SourceCatalog variant that take an exceptional branch of a per-source loop, as
    measured on the tree under test (single-source children, so that a neighbour cannot influence the answer)."""
    out = {'all_masked': [], 'centroid_not_finite': [], 'fluxfrac_args_none': [], 'no_halflight_solution': [],
           'no_fluxfrac_1.0_solution': [], 'kron_radius_minimum': [], 'kron_radius_zero(circular minimum)': [],
           'quadratic_fit_fallback': [], 'bbox_touches_image_edge': [], 'non_finite_pixel': []}
    with warnings.catch_warnings():
        warnings.simplefilter('ignore')
        n = nsources('SC', variant)
        for k in range(n):
            try:
                c = make('SC', variant, seed)
                c = c[k] if n > 1 else c
                ny, nx = c._data.shape
                args = c._fluxfrac_optimizer_args
                args = args[0] if isinstance(args, list) else args
                flags = {'all_masked': bool(np.all(c._all_masked)),
                         'centroid_not_finite': not np.all(np.isfinite(np.asarray(c.centroid, dtype=float))),
                         'fluxfrac_args_none': args is None,
                         'no_halflight_solution': args is not None and bool(np.isnan(c.fluxfrac_radius(0.5).value)),
                         'no_fluxfrac_1.0_solution': args is not None and bool(np.isnan(c.fluxfrac_radius(1.0).value)),
                         'kron_radius_minimum': bool(np.all(c._measured_kron_radius <= c.kron_params[1])),
                         'kron_radius_zero(circular minimum)': bool(c.kron_radius.value == 0),
                         'quadratic_fit_fallback': bool(np.all(np.asarray(c.centroid_quad) == np.asarray(c.centroid))),
                         'bbox_touches_image_edge': bool(c.bbox_xmin == 0 or c.bbox_ymin == 0 or c.bbox_xmax == nx - 1
                                                         or c.bbox_ymax == ny - 1),
                         'non_finite_pixel': not bool(np.all(np.isfinite(np.asarray(c.data))))}
            except Exception as e:              # the tree under test may be broken here; that is for the check to say
                flags = {f'unmeasurable ({type(e).__name__})': True}
            for name, on in flags.items():
                if on:
                    out.setdefault(name, []).append(k)
    return {k: v for k, v in out.items() if v}


def sky_first_position(variant):
    """How much the pixel aperture of a sky-aperture variant depends on which position comes first, measured on the tree
    under test: the shape parameters (pixels / radians) that the conversion yields when position k is the first one, their
    largest relative spread, and how many of the index forms do not keep the parent's first source first."""
    with warnings.catch_warnings():
        warnings.simplefilter('ignore')
        ap, w = sky_setup(variant)
        n = len(ap.positions)
        rows = []
        try:
            for k in range(n):
                pix = ap[k].to_pixel(w)
                rows.append({q: round(float(getattr(getattr(pix, q), 'value', getattr(pix, q))), 6)
                             for q in pix._params if q != 'positions'})
            names = list(rows[0])
            spread = {q: (max(r[q] for r in rows) - min(r[q] for r in rows)) / max(abs(r[q]) for r in rows) for q in names}
        except Exception as e:                  # the tree under test may be broken here
            return {'unmeasurable': f'{type(e).__name__}: {e}'}
    moved = kept = 0
    for f in index_forms(n):
        st, sel = select(f, n)
        if st == 'ok':
            first = sel if isinstance(sel, int) else sel[0]
            moved += first != 0
            kept += first == 0
    return {'pixel_shape_parameters_if_position_k_is_first': rows,
            'relative_spread': {q: round(v, 6) for q, v in spread.items()},
            'index_forms_first_source_not_first': moved, 'index_forms_first_source_first': kept}


def describe(tier, seed):
    out = {'variants': {'SourceCatalog': list(SC_VARIANTS), 'ApertureStats': list(AS_VARIANTS)}, 'template': {}}
    total = 0
    for cls, vs in variants(tier).items():
        for v in vs:
            public, private = prop_lists(cls, v, seed)
            forms = index_forms(nsources(cls, v))
            pres = pre_sets(cls, v, tier, seed)
            nh = sum(len(public) * len(forms_for(pre, nsources(cls, v), tier)) for pre in pres)
            out['template'][f'{cls}:{v}'] = {'public_properties': len(public), 'private_lazy': len(private),
                                              'index_forms': len(forms), 'pre_cache_sets': len(pres),
                                              'histories': nh}
            total += nh
    out['template_histories_total'] = total
    out['index_forms_everyday_n4'] = base_forms(4)
    out['index_forms_everyday_n6'] = base_forms(6)
    out['index_containers'] = {'integer scalar': list(SCALAR_CONTAINERS), 'integer sequence': list(SEQ_CONTAINERS),
                               'boolean mask': list(MASK_CONTAINERS), 'get_label/get_id argument': list(LABEL_CONTAINERS),
                               'get_labels/get_ids argument': list(LABELS_CONTAINERS),
                               'slice bounds': ['Python int', 'np.int64', 'negative', 'beyond the end']}
    cf = container_forms(4)
    out['index_forms_value_x_container_n4'] = {'count': len(cf), 'forms': [f for f in cf if select(f, 4)[0] == 'ok'],
                                               'per_kind': {k: sum(1 for f in cf if f[0] == k) for k in
                                                            ('mask', 'iseq', 'iscalar', 'slice', 'nslice', 'xlabel',
                                                             'xlabels', 'chain')}}
    # forms that are enumerated but are not a selection of >= 1 sources, with the reason (numpy's verdict)
    rej = {}
    for f in cf:
        st_, why = select(f, 4)
        if st_ != 'ok':
            rej.setdefault(why, []).append(f)
    out['index_forms_not_a_selection_n4'] = rej
    out['index_forms_per_pre_cache_set'] = {
        f'n={n}': {str(pre): len(forms_for(pre, n, tier)) for pre in
                   (['none'], ['same'], ['all'], ['one', '_private'], ['one', 'public'])[:5 if tier == 'thorough' else 4]}
        for n in (1, 3, 4, 6)}
    out['methods_with_arguments'] = {'SourceCatalog': list(SC_METHODS), 'ApertureStats': list(AS_METHODS)}
    out['hard6_sources'] = dict(zip(map(str, HARD6_LABELS), HARD6_KINDS))
    out['exceptional_sources'] = {v: exceptional_sources(v, seed) for v in SC_VARIANTS}
    out['crowd4_sources'] = dict(zip(map(str, CROWD4_LABELS), CROWD4_KINDS))
    out['crowd4_apermask_method'] = dict(CROWD4_METHODS)
    # which other sources (positions) have segment pixels inside each aperture of each source, measured on this tree,
    # and how many of the index forms build a child that lacks such a neighbour of one of its sources
    out['crowd4_neighbours'] = {}
    for v in CROWD4_METHODS:
        nb = dict(crowd_neighbours(v, seed))
        sels = [select(f, 4) for f in index_forms(4)]
        nb['index_forms_child_lacks_a_neighbour'] = sum(1 for st_, sel in sels if st_ == 'ok' and drops_neighbour(v, seed, sel))
        nb['index_forms_child_has_all_neighbours'] = sum(1 for st_, sel in sels
                                                         if st_ == 'ok' and not drops_neighbour(v, seed, sel))
        out['crowd4_neighbours'][v] = nb
    pcs = {v: [str(x) if x[0] != 'one' else 'one:' + ('_private' if x[1].startswith('_') else 'public')
               for x in pre_sets('SC', v, tier, seed)] for v in CROWD4_METHODS}
    out['pre_cache_sets_crowd4'] = {v: sorted(set(x), key=x.index) for v, x in pcs.items()}
    out['world_coordinates'] = {'SourceCatalog': {'plain4': None, 'hard6': None, 'crowd4c/m/n': None,
                                                  'single': 'constant-scale TAN, 0.72"/pixel',
                                                  'rich4': 'wide-field rotated TAN, 1.3 deg/pixel (via detection_cat)'},
                                'ApertureStats': {'circ4': None, 'single': None, 'sky3': 'constant-scale TAN, 0.72"/pixel',
                                                  'skywarp5': 'wide-field rotated TAN, 1.3 deg/pixel',
                                                  'skysip4': 'TAN-SIP, 0.72"/pixel, order-2 distortion'}}
    out['sky_first_position'] = {v: sky_first_position(v) for v in SKY_VARIANTS}
    out['bound'] = {'extras_bfs (variant, menu, depth)': [list(x) for x in extras_plan(tier)],
                    'template_depth': 'build, pre-cache (1 set), index (1 or 2 chained), evaluate 1 property'}
    out['tolerance'] = {'rtol': RTOL, 'atol': ATOL, 'extras': 0}
    return out
