"""C04 -- detect_sources is exact connected-component labelling above threshold.

Shape (C): ALL images of the listed small shapes over a pixel alphabet
{below, == threshold, above, NaN [, +inf, above-but-masked]} x connectivity x
npixels, against a pure-Python union-find labelling (never scipy.ndimage.label).
"""
import itertools
import warnings

import numpy as np

from ..runner import Acc

PROPERTY = 'C04'
LEVEL = 'exploration'
RULE = ('full Cartesian product: every image of each listed shape over the pixel alphabet x connectivity {4,8} x '
        'npixels x threshold form {scalar, 2-D map}; cases are distinct by construction (distinct product indices); '
        'a case is non-trivial when at least one pixel is above threshold and the image is not constant')
ASSUMPTIONS = ['numpy comparisons and integer arrays are trusted; scipy.ndimage.label is NOT trusted (re-derived)',
               'images are at most 3x4 over {below, ==, above} and 4x5 binary (thorough) / 3x3 and 4x5 binary with npixels 10 (quick): bugs needing a larger frame are out of the bound']

# symbols: 0 below, 1 equal, 2 above, 3 NaN, 4 +inf, 5 above but masked
SYM4 = (0, 1, 2, 3)
SYM6 = (0, 1, 2, 3, 4, 5)


def spaces(tier):
    """(shape, symbols[, npixels list]) -- the binary 4x5 space exists for pruning defects that need two
    components with interleaved bounding boxes and an npixels larger than a 3x3 box."""
    sp = [((1, 1), SYM6), ((1, 3), SYM6), ((2, 2), SYM6), ((2, 3), SYM6), ((3, 3), SYM4),
          ((4, 5), (0, 2), (10,))]
    if tier == 'thorough':
        # (3, 4) over SYM4 (16.8 M images, ~6 CPU-hours) was run once on the final tree (silent, see DESIGN 9.3) and is
        # available as VERIF_C04_FULL=1; the registered thorough tier uses the three symbols that decide the partition
        full = bool(int(__import__('os').environ.get('VERIF_C04_FULL', '0')))
        sp = sp[:-1] + [((2, 4), SYM6), ((3, 4), SYM4 if full else (0, 1, 2)), ((4, 4), (0, 2)),
                        ((4, 5), (0, 2), (2, 5, 10, 13))]
    return sp


def ref_label(mask, conn):
    """Union-find connected components, numbered in raster order of first pixel."""
    ny, nx = len(mask), len(mask[0])
    parent = {}

    def find(a):
        while parent[a] != a:
            parent[a] = parent[parent[a]]
            a = parent[a]
        return a

    nb = [(-1, 0), (0, -1)] + ([(-1, -1), (-1, 1)] if conn == 8 else [])
    for y in range(ny):
        for x in range(nx):
            if not mask[y][x]:
                continue
            parent[(y, x)] = (y, x)
            for dy, dx in nb:
                p, q = y + dy, x + dx
                if 0 <= p < ny and 0 <= q < nx and mask[p][q]:
                    ra, rb = find((y, x)), find((p, q))
                    if ra != rb:
                        parent[max(ra, rb)] = min(ra, rb)
    comps = {}
    for pix in sorted(parent):
        comps.setdefault(find(pix), []).append(pix)
    # raster order of the first pixel == sorted roots (root is the minimal pixel)
    return [comps[r] for r in sorted(comps)]


def expected(mask, conn, npixels):
    ny, nx = len(mask), len(mask[0])
    out = np.zeros((ny, nx), dtype=int)
    k = 0
    pruned = 0
    for comp in ref_label(mask, conn):
        if len(comp) >= npixels:
            k += 1
            for (y, x) in comp:
                out[y, x] = k
        else:
            pruned += 1
    return (out if k else None), k, pruned


VALS = {0: -1.0, 1: 0.0, 2: 1.0, 3: np.nan, 4: np.inf, 5: 1.0}
_VALS_ARR = np.array([VALS[k] for k in range(6)])


def realise(code, shape, form, seed):
    """-> data, threshold, mask"""
    code = np.array(code).reshape(shape)
    off = _VALS_ARR[code]
    mask = (code == 5) if (code == 5).any() else None
    if form == 'scalar':
        thr = 2.5
        data = off + thr
    else:
        rng = np.random.default_rng(seed + 17)
        thr = np.round(rng.uniform(-3, 3, size=shape), 2)
        data = off + thr
    return data, thr, mask


def check_case(acc, code, shape, conn, npixels, form, seed, detect_sources, SegmentationImage, NoDetectionsWarning):
    data, thr, mask = realise(code, shape, form, seed)
    c = np.array(code).reshape(shape)
    above = ((c == 2) | (c == 4)).tolist()
    exp, nexp, pruned = expected(above, conn, npixels)
    case = {'shape': list(shape), 'code': list(code), 'connectivity': conn, 'npixels': npixels, 'threshold_form': form}
    nontrivial = any(any(r) for r in above) and len(set(code)) > 1
    acc.case(nontrivial=nontrivial, sample=case if acc.evaluations % 50021 == 7 else None)
    if mask is not None and mask.all():
        acc.skip('mask covers every pixel (documented ValueError)')
        return
    d0 = data.copy()
    with warnings.catch_warnings(record=True) as w:
        warnings.simplefilter('always')
        try:
            segm = detect_sources(data, thr, npixels, connectivity=conn, mask=mask)
        except Exception as e:
            acc.violation('raises', f'detect_sources:{type(e).__name__}', case, repr(e), 'no exception')
            return
    nodet = [x for x in w if issubclass(x.category, NoDetectionsWarning)]
    acc.outcome(None if segm is None else segm.data.tobytes())
    if exp is None:
        if segm is not None:
            acc.violation('none-iff-empty', 'returned-segm', case, segm.data.tolist(), None)
        elif len(nodet) != 1:
            acc.violation('nodetections-warning', f'count={len(nodet)}', case, len(nodet), 1)
        return
    if segm is None:
        acc.violation('none-iff-empty', 'returned-none', case, None, exp.tolist())
        return
    if nodet:
        acc.violation('nodetections-warning', 'spurious', case, len(nodet), 0)
    got = segm.data
    if got.shape != exp.shape or not np.array_equal(got, exp):
        site = 'pruning' if pruned else ('tie-or-nan' if (1 in code or 3 in code) else 'labelling')
        acc.violation('labels', site, case, got.tolist(), exp.tolist())
        return
    if not np.issubdtype(got.dtype, np.integer):
        acc.violation('dtype', 'segm.data', case, str(got.dtype), 'integer')
    fresh = SegmentationImage(got.copy())
    for attr in ('labels', 'slices', 'areas', 'nlabels', 'max_label'):
        b = getattr(fresh, attr)
        try:
            a = getattr(segm, attr)
        except Exception as e:  # reading an attribute of the returned object must not raise
            acc.violation('cache-vs-fresh', f'{attr}:raises', case, repr(e), b)
            continue
        same = (list(a) == list(b)) if attr in ('slices', 'bbox') else np.array_equal(a, b)
        if not same:
            acc.violation('cache-vs-fresh', attr, case, a, b)
    if list(np.asarray(segm.labels)) != list(range(1, nexp + 1)):
        acc.violation('labels-1..N', 'labels', case, segm.labels, list(range(1, nexp + 1)))
    if not np.array_equal(data, d0, equal_nan=True):
        acc.violation('input-modified', 'data', case, None, None)


def plan(tier, seed):
    units = []
    for si, (shape, syms, *_) in enumerate(spaces(tier)):
        n = len(syms) ** (shape[0] * shape[1])
        nsh = max(1, min(64, n // 4000))
        for j in range(nsh):
            units.append({'kind': 'images', 'space': si, 'shard': j, 'nshards': nsh})
    units.append({'kind': 'threshold'})
    units.append({'kind': 'finder'})
    units.append({'kind': 'infthr'})
    return units


def _npix_list(shape, tier):
    area = shape[0] * shape[1]
    lst = {1, 2, 3} | ({area} if (area <= 6 or tier == 'thorough') else set())
    return sorted(lst & set(range(1, area + 1)))


def run_unit(unit, tier, seed):
    acc = Acc()
    from photutils.segmentation import SegmentationImage, detect_sources
    from photutils.utils.exceptions import NoDetectionsWarning
    if unit['kind'] == 'images':
        shape, syms, *rest = spaces(tier)[unit['space']]
        npx = shape[0] * shape[1]
        npix_list = list(rest[0]) if rest else _npix_list(shape, tier)
        forms = ('scalar', 'map')
        for i, code in enumerate(itertools.product(syms, repeat=npx)):
            if i % unit['nshards'] != unit['shard']:
                continue
            for conn in (4, 8):
                for npixels in npix_list:
                    # the 2-D threshold form is run on a deterministic eighth of the codes
                    for form in (forms if i % 8 == 0 else forms[:1]):
                        check_case(acc, code, shape, conn, npixels, form, seed,
                                   detect_sources, SegmentationImage, NoDetectionsWarning)
    elif unit['kind'] == 'threshold':
        run_threshold(acc, seed)
    elif unit['kind'] == 'infthr':
        run_infthr(acc, seed, tier)
    else:
        run_finder(acc, seed)
    return acc


def run_threshold(acc, seed):
    """detect_threshold == background + nsigma * error pixel-wise, for all
    combinations of {None, scalar, 2-D} background x error x nsigma."""
    from astropy.stats import SigmaClip
    from photutils.segmentation import detect_threshold
    rng = np.random.default_rng(seed)
    for k in range(3):
        shape = [(5, 7), (8, 8), (3, 11)][k]
        data = rng.normal(10, 2, size=shape)
        data[0, 0] = 80.0  # an outlier that sigma clipping removes
        bkg2 = rng.uniform(5, 15, size=shape)
        err2 = rng.uniform(1, 3, size=shape)
        mask = np.zeros(shape, bool)
        mask[1, 1] = True
        data64 = data
        for dt, bkg, err, nsigma, msk in itertools.product(('f8', 'f4', 'i4', 'u1', '>f8'), (None, 9.5, bkg2), (None, 2.25, err2),
                                                           (0.0, 1.5, 3.0), (None, mask)):
            # the same image in another representation: integer types hold the rounded image
            data = np.round(data64).astype(dt) if dt in ('i4', 'u1') else data64.astype(dt)
            case = {'image': k, 'dtype': dt, 'background': 'None' if bkg is None else ('map' if np.ndim(bkg) else bkg),
                    'error': 'None' if err is None else ('map' if np.ndim(err) else err), 'nsigma': nsigma,
                    'mask': msk is not None}
            acc.case(nontrivial=True, sample=case if acc.evaluations % 17 == 0 else None)
            try:
                got = detect_threshold(data, nsigma, background=bkg, error=err, mask=msk)
            except Exception as e:
                acc.violation('threshold-raises', type(e).__name__, case, repr(e), None)
                continue
            # independent sigma-clipped mean/std (3 sigma, 10 iterations: the documented default)
            vals = (data[~msk] if msk is not None else data.ravel()).astype(float)
            v = vals.copy()
            for _ in range(10):
                m, s = np.mean(v), np.std(v)
                keep = np.abs(v - np.median(v)) <= 3.0 * s
                if keep.all():
                    break
                v = v[keep]
            b = np.mean(v) if bkg is None else bkg
            e = np.std(v) if err is None else err
            want = np.broadcast_to(b + nsigma * np.asarray(e), data.shape)
            # background/error given: pure arithmetic, exact whatever the image dtype; derived from a float32 image:
            # sigma-clipped statistics accumulate in float32 (1e-5 of scale)
            rtol = 1e-12 if (bkg is not None and err is not None) or dt not in ('f4',) else 1e-5
            if got.shape != data.shape or not np.allclose(np.asarray(got, dtype=float), want, rtol=rtol, atol=1e-12):
                acc.violation('threshold-formula', f'dtype={dt},bkg={case["background"] if isinstance(case["background"], str) else "scalar"}'
                              f',err={case["error"] if isinstance(case["error"], str) else "scalar"}', case,
                              np.asarray(got).ravel()[:4], np.asarray(want).ravel()[:4])


INF_VALUES = (float('-inf'), -1.0, 2.0, float('nan'), float('inf'))
INF_THRESHOLDS = (float('-inf'), -1.0, 1e39, float('inf'))


def run_infthr(acc, seed, tier='quick', only=None):
    """Infinite values on BOTH sides of the comparison: every image of the small shapes over
    {-inf, -1, 2, NaN, +inf} x threshold {-inf, -1, 1e39 (beyond float32), +inf} x data dtype {f8, f4}
    x connectivity; 'strictly above' is decided by plain Python float comparison (x > t), so a -inf
    pixel never exceeds a -inf threshold and a +inf pixel exceeds every finite threshold."""
    from photutils.segmentation import SegmentationImage, detect_sources
    from photutils.utils.exceptions import NoDetectionsWarning
    shapes = [(1, 1), (1, 3), (2, 2), (2, 3)] if tier == 'quick' else [(1, 1), (1, 3), (2, 2), (2, 3), (3, 3)]
    for shape in shapes:
        npx = shape[0] * shape[1]
        for code in itertools.product(range(len(INF_VALUES)), repeat=npx):
            vals = [INF_VALUES[c] for c in code]
            for thr in INF_THRESHOLDS:
                above = [[(vals[r * shape[1] + c] > thr) for c in range(shape[1])] for r in range(shape[0])]
                for dt in ('f8', 'f4'):
                    for conn in (4, 8):
                        case = {'inf_image': vals_json(vals), 'shape': list(shape), 'threshold': thr_json(thr), 'dtype': dt,
                                'connectivity': conn}
                        if only is not None and case != only:
                            continue
                        data = np.array(vals, dtype=dt).reshape(shape)
                        exp, nexp, _ = expected(above, conn, 1)
                        acc.case(nontrivial=any(any(r) for r in above), sample=case if acc.evaluations % 20011 == 3 else None)
                        with warnings.catch_warnings(record=True) as w:
                            warnings.simplefilter('always')
                            try:
                                # np.float64 threshold: a 'strong' scalar, so the comparison is made in float64 for
                                # float32 data as well (a Python float beyond the float32 range would be cast to
                                # float32 = inf by numpy's weak-scalar promotion: implementation-defined, not judged)
                                segm = detect_sources(data, np.float64(thr), 1, connectivity=conn)
                            except Exception as e:
                                acc.violation('raises', f'detect_sources:inf:{type(e).__name__}', case, repr(e), 'no exception')
                                continue
                        acc.outcome(None if segm is None else segm.data.tobytes())
                        nodet = [x for x in w if issubclass(x.category, NoDetectionsWarning)]
                        if (exp is None) != (segm is None):
                            acc.violation('none-iff-empty', 'infinite-values', case, None if segm is None else segm.data.tolist(),
                                          None if exp is None else exp.tolist())
                        elif exp is None:
                            if len(nodet) != 1:
                                acc.violation('nodetections-warning', f'inf:count={len(nodet)}', case, len(nodet), 1)
                        elif not np.array_equal(segm.data, exp):
                            acc.violation('labels', 'infinite-values', case, segm.data.tolist(), exp.tolist())


def vals_json(vals):
    return ['nan' if v != v else ('inf' if v == float('inf') else ('-inf' if v == float('-inf') else v)) for v in vals]


def thr_json(t):
    return 'inf' if t == float('inf') else ('-inf' if t == float('-inf') else t)


def run_finder(acc, seed):
    """SourceFinder(deblend=False) == detect_sources on the same (convolved) data."""
    from photutils.segmentation import SourceFinder, detect_sources
    rng = np.random.default_rng(seed + 3)
    for k in range(6):
        data = rng.normal(0, 1, size=(12, 15))
        data[3:6, 4:8] += 6
        data[8:10, 10:13] += 5
        mask = None
        if k % 2:
            mask = np.zeros(data.shape, bool)
            mask[4, 5] = True
        for conn in (4, 8):
            for npixels in (1, 4):
                case = {'finder_image': k, 'connectivity': conn, 'npixels': npixels}
                acc.case(nontrivial=True)
                a = detect_sources(data, 2.0, npixels, connectivity=conn, mask=mask)
                b = SourceFinder(npixels, connectivity=conn, deblend=False, progress_bar=False)(data, 2.0, mask=mask)
                if (a is None) != (b is None) or (a is not None and not np.array_equal(a.data, b.data)):
                    acc.violation('sourcefinder', 'deblend=False', case, None if b is None else b.data.tolist(),
                                  None if a is None else a.data.tolist())


def replay(case, seed):
    acc = Acc()
    from photutils.segmentation import SegmentationImage, detect_sources
    from photutils.utils.exceptions import NoDetectionsWarning
    if 'code' in case:
        check_case(acc, tuple(case['code']), tuple(case['shape']), case['connectivity'], case['npixels'],
                   case['threshold_form'], seed, detect_sources, SegmentationImage, NoDetectionsWarning)
    elif 'finder_image' in case:
        run_finder(acc, seed)
    elif 'inf_image' in case:
        run_infthr(acc, seed, 'thorough', only=case)
    else:
        run_threshold(acc, seed)
    return acc


def describe(tier, seed):
    return {'alphabet': {'symbols': '0 below, 1 == threshold, 2 above, 3 NaN, 4 +inf, 5 above-but-masked',
                         'spaces': [{'shape': list(s), 'symbols': list(a), 'images': len(a) ** (s[0] * s[1]),
                                     'npixels': list(r[0]) if r else _npix_list(s, tier)}
                                    for s, a, *r in spaces(tier)],
                         'connectivity': [4, 8],
                         'threshold_form': 'scalar for every image, 2-D map for every 8th image (by product index)'}}
