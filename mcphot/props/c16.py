"""C16 -- ApertureStats values equal direct statistics of the aperture pixel set.

Shape (C): full Cartesian product
    aperture spec (6 pixel classes x sizes, + sky apertures) x data variant (finite, NaN/inf) x
    mask (None, one pixel, block) x error condition (None, generic finite, non-finite (NaN / +inf / -inf) at: three
    fixed pixels [inside the summed set of some positions, excluded from others] / every masked pixel / every pixel
    where data is non-finite / every zero-weight pixel / every sigma-clipped pixel / every pixel outside all summed
    sets) x sigma clip (None, 3s/1it, 1.5s/5it) x
    (sum_method, subpixels) in {exact, center, subpixel} x {1, 2, 5} (9 values: the option is given for EVERY method and
    must be ignored for exact and center) x local_bkg (None, scalar, per position) x
    position list (interior generic, integer centre, pixel corner, straddling each of the four edges,
    image corner, fully outside) -- as one multi-position aperture and, on a stated sub-product, as
    scalar apertures.

Oracle (plain Python, pixel by pixel; weights registered in the image by the harness, see ref/aperture_ref):
    S  = pixels whose centre lies in the aperture (centre-method weight > 0), inside the image, unmasked,
         finite, minus those rejected by an independent application of the same SigmaClip to the values of S;
         values v = d - local_bkg[k]:  min max mean median mode std var mad_std biweight location/midvariance,
         count (center_aper_area), centroid sum(x v)/sum(v), second central moments -> covariance (with the
         documented SourceExtractor 1/12 regularisation) -> semi-axes, orientation, eccentricity, fwhm,
         elongation, ellipticity, cxx/cxy/cyy.
    T  = the same with the sum_method weights (w > 0): sum = sum(w v), sum_err = sqrt(sum(w e^2)),
         sum_aper_area = sum(w)  -- i.e. aperture_photometry / area_overlap of the background-subtracted data
         with the total mask -- whenever T is not empty.  The error map is read ONLY at the pixels of T: a NaN/inf
         error at a masked / non-finite-data / zero-weight / clipped pixel must not change sum_err, and a NaN/inf
         error at a pixel of T gives what the quadrature sum gives (NaN resp. inf), as aperture_photometry does.
    S (resp. T) empty or box outside the image: NaN, never a number, never an exception.
    The sum-method weights of the oracle are those of to_mask(method) for exact / center (the subpixels option is NOT
    passed on: it is documented to be ignored there) and of to_mask('subpixel', subpixels=n) for subpixel.
    Literal clause of the statement (configurations without sigma clip, T not empty): sum, sum_err, sum_aper_area equal
    aperture_photometry / area_overlap called with the same (method, subpixels), the same error map and the total mask
    (mask | non-finite data), minus local_bkg x area for the sum.

Access-order product (units of kind 'order'): the statement gives every value as a function of (data, aperture, options)
    alone, so an ApertureStats object on which other values were read before must return what a fresh object returns.
    Operations: read of every public attribute (ApertureStats.properties -- the *cutout attributes, moments, bbox, gini,
    sky centroids ... included -- plus id, ids), to_table() (default columns), to_table(every accepted column in sorted /
    in reverse-sorted order), child = parent[index].  Enumerated completely, each history on a fresh object:
      pairs     every ordered pair (o1, o2), diagonal included: o2 after o1 == o2 alone; the object o1 returned unchanged;
      chains    every operation o1 first, then every attribute in sorted (resp. reverse-sorted) order, then the big table in
                that order, then the default table: every step == alone, every returned object still == alone at the end;
      children  every (index, o1, o2): o1 on the parent, o2 on parent[index] == o2 on the child of an untouched parent; the
                parent afterwards == alone;
    over object configurations form {4-position aperture, scalar aperture, sky aperture} x sum_method x error {given, none}
    x sigma clip {none, 1.5s/5it} (x data unit {none, Jy} in the thorough tier) on the non-finite data variant with the
    one-pixel mask and a per-position local background (the sub-product of the quick tier is listed by describe()).
    Comparison bit for bit (NaN-aware; masked arrays by mask and unmasked values); children 1e-12 relative.
"""
import math

import numpy as np

from ..ref import aperture_ref as R
from ..runner import Acc

PROPERTY = 'C16'
LEVEL = 'exploration'
RULE = ('full Cartesian product aperture spec x data variant x mask x error condition x sigma_clip x (sum_method x subpixels) '
        'x local_bkg, where (sum_method, subpixels) is itself the full product {exact, center, subpixel} x {1, 2, 5}: the '
        'subpixels option is passed for every method and the oracle weights of exact / center do not depend on it '
        '(error conditions whose map is identical to the finite one by construction -- "at masked pixels" with mask=None, '
        '"where data is non-finite" on finite data, "at clipped pixels" without sigma clip -- are not repeated), each '
        'configuration built as one ApertureStats over the whole position list (and as scalar apertures on the sub-product '
        'mask=None); one evaluation = one (configuration, position) with every listed property compared with the direct '
        'computation (the properties that by the statement do not depend on the sum method -- everything except sum, sum_err, '
        'sum_aper_area -- are read for subpixels=5 in every configuration and for subpixels 1, 2 on the sub-product '
        'error=finite; the three sum properties are read in every configuration); configurations without sigma clip are in '
        'addition compared literally with aperture_photometry / area_overlap for the same (method, subpixels); non-trivial when the centre-method pixel set S or the sum-method set T of that position is not empty '
        '(measured from the registered weights); counters sum_err:* count the (configuration, position) cases whose bounding '
        'box really contains a non-finite error value at an excluded pixel / at a pixel of T; cases are distinct by '
        'construction (distinct product indices).  ACCESS-ORDER product (unit kind "order"): for each object configuration '
        '(form x sum_method x error x sigma clip [x unit], listed in coverage.order) every ordered pair of operations from the '
        'alphabet {read of each public attribute in ApertureStats.properties + id + ids, to_table()} (thorough: + the two '
        'all-column tables), the diagonal included, is executed on a fresh object and the second result compared with the same '
        'operation executed alone on a fresh object (and the first returned object re-compared afterwards); every chain '
        '"o1, then all attributes sorted / reverse-sorted, then the all-column table in that order, then the default table" '
        'for every first operation o1; every (index, o1, o2) with o1 read on the parent and o2 on parent[index]; one '
        'evaluation = one history; a pair is non-trivial when o1 != o2 (a re-read is trivial), chains and children always')
ASSUMPTIONS = ['aperture weights / bbox from to_mask() are correct (C01); their registration in the image is done by the harness',
               'the reference weights of sum_method exact / center are to_mask(method) without a subpixels argument, those of '
               'subpixel are to_mask("subpixel", subpixels=n) (n = 1 is registered on its own, not copied from center)',
               'the literal comparison with aperture_photometry / area_overlap (C02 vouches for those) uses linearity for the '
               'local background: sum(w (d - b)) = aperture_sum - b * area_overlap',
               'astropy.stats.SigmaClip applied to a 1-D array of values is trusted (it is re-applied independently to the '
               'reference pixel set, in the same row-major order)',
               'one 7x8 image per variant (thorough: plus a 5x9 image); one distortion-free TAN WCS for sky apertures',
               'error maps are bare arrays; the non-finite error conditions place NaN, +inf, -inf (cycled by pixel index) on a '
               'pixel set computed by the harness from the reference sets S / T (an input choice: the sum_err oracle does not '
               'depend on how the set was chosen); a non-finite error at a pixel whose weight is rounding noise (0 < |w| < 1e-12) '
               'is accepted either way',
               'shape values follow the documented SourceExtractor regularisation of thin covariances; decisions within '
               '1e-9 of its thresholds are accepted either way',
               'access-order product: the "alone" value of an operation (one fresh object, that operation only) is the reference; '
               'that the alone values of the listed properties are the direct statistics is what the value product checks (the '
               'other public attributes -- cutouts, moments, bbox, gini, sky centroids -- are only required to be independent of '
               'the history); an attribute that raises when read alone, and a column to_table() rejects alone (cutout lists of '
               'different shapes), leave the alphabet of that configuration (counted); results are compared bit for bit (same '
               'code path on the same inputs), masked arrays by mask and unmasked values; values of a child parent[index] within '
               '1e-12 relative (the parent computed them on a longer vector); the children of one (index, o1) are taken from '
               'one parent one after the other (a child that writes into its parent is reported under the later child)',
               'access-order product: object configurations use the non-finite data variant, the one-pixel mask, a per-position '
               'local background, subpixels=5, the 7x8 image, aperture circle r=1.5 (thorough: four aperture specs) at four '
               'positions (interior / trimmed box / every pixel masked / no overlap)']

SUM_METHODS = ['exact', 'center', 'subpixel']
SUBPIXELS = [5, 1, 2]           # the default first (the axis of the earlier, three-valued version of this check), then 1, 2
# full product; subpixels is passed to ApertureStats for EVERY method (documented: ignored unless sum_method='subpixel')
METHODS = [(m, sub) for sub in SUBPIXELS for m in SUM_METHODS]
SUM_PROPS = ['sum', 'sum_err', 'sum_aper_area']
CLIPS = [None, [3.0, 1], [1.5, 5]]
LBKG = ['none', 'scalar', 'per']
MASKS = ['none', 'pixel', 'block']
VARIANTS = ['finite', 'nonfinite']
# error conditions: None / generic finite map / the finite map with NaN, +inf, -inf (cycled) written at ...
ERRORS = ['none', 'finite',
          'nf-fixed',         # three fixed pixels: in the summed set T of some positions, excluded (or outside the box) for others
          'nf-masked',        # every pixel flagged in mask=                       (needs mask != none)
          'nf-data',          # every pixel where data is NaN/inf                  (needs the non-finite data variant)
          'nf-zero-weight',   # every in-image pixel whose sum-method weight is exactly 0 for every position (box corners, annulus holes)
          'nf-clipped',       # every pixel rejected by the sigma clip and summed by no position   (needs a sigma clip)
          'nf-excluded']      # every pixel that is in the summed set T of no position (union of all of the above + outside the boxes)
NONFINITE = [math.nan, math.inf, -math.inf]
# quick tier: the scalar-aperture sub-product uses these error conditions only (thorough: all of ERRORS)
SCALAR_ERRORS_QUICK = ['finite', 'nf-fixed', 'nf-excluded']

STATS = ['min', 'max', 'mean', 'median', 'mode', 'std', 'var', 'mad_std', 'biweight_location', 'biweight_midvariance']
SHAPES = ['covar_sigx2', 'covar_sigxy', 'covar_sigy2', 'semimajor_sigma', 'semiminor_sigma', 'orientation',
          'eccentricity', 'fwhm', 'elongation', 'ellipticity', 'cxx', 'cxy', 'cyy']
PROPS = ['sum', 'sum_err', 'sum_aper_area', 'center_aper_area'] + STATS + ['xcentroid', 'ycentroid'] + SHAPES

# Tolerances.  All quantities are O(10) combinations of <= 60 pixel values of size <= 40 computed in double
# precision along two different routes (numpy vs math.fsum): error <= ~100 * eps * scale = 2e-14 * scale.
# RT = 1e-11 * scale leaves a factor > 100 (calibrated: the unchanged tree agrees to <= 3e-13 * scale).
# Centroid / second moments are ratios with denominator sum(v): their error is amplified by
# cond = sum|v| / |sum v|; positions with cond > 1e6 are ill-posed *by the input* and skipped.
RT = 1e-11


def image_shapes(tier):
    return [(7, 8)] + ([(5, 9)] if tier == 'thorough' else [])


def aper_specs(tier):
    s = [['circle', 0.3], ['circle', 1.5], ['circle', 3.0],
         ['ellipse', 2.5, 1.2, 0.6], ['rect', 3.0, 2.0, 0.3], ['rect', 0.5, 0.5, 0.0],
         ['cann', 1.0, 2.6], ['eann', 1.0, 2.8, 1.4, 2.0], ['rann', 1.0, 3.4, 2.2, 0.0]]
    if tier == 'thorough':
        s += [['circle', 0.72], ['circle', 5.0], ['ellipse', 0.45, 0.25, 0.0], ['ellipse', 3.5, 0.6, -0.4],
              ['rect', 1.0, 6.0, 0.0], ['rect', 2.0, 2.0, 0.785], ['cann', 0.3, 0.9], ['eann', 2.0, 3.0, 2.0, 0.0],
              ['rann', 0.4, 1.6, 1.6, 1.0]]
    return s


def sky_specs(tier):
    return [['circle', 1.5], ['ellipse', 2.5, 1.2, 0.6]] + ([['circle', 0.3], ['rect', 3.0, 2.0, 0.3], ['cann', 1.0, 2.6]]
                                                           if tier == 'thorough' else [])


def positions(shape, seed):
    ny, nx = shape
    g = np.random.default_rng(500 + seed).uniform(0.05, 0.45, size=4)
    g = [float(round(v, 6)) for v in g]
    return [(3.0 + g[0], 2.0 + 2 * g[1]),          # interior, generic
            (4.0, 3.0),                              # integer centre
            (3.5, 3.5),                              # pixel corner (r = 0.3: no pixel centre inside)
            (0.0 + g[2], ny - 1 - g[3]),             # cut by the left and top edges
            (nx - 0.4 - g[0] / 10, 3.0),             # cut by the right edge
            (3.0 + g[1], -0.3),                      # cut by the bottom edge
            (2.0 + g[2], ny - 0.2),                  # cut by the top edge
            (-0.5, -0.5),                            # image corner = pixel corner
            (nx - 0.5, ny - 0.5),                    # far image corner
            (1.0, 1.0),                              # near the lower-left corner, integer
            (-5.0, -5.0),                            # outside
            (nx + 4.0, 3.0)]                         # outside (right)


def images(shape, seed):
    ny, nx = shape
    rng = np.random.default_rng(seed * 104729 + ny * 17 + nx)
    d = rng.normal(5.0, 2.0, size=shape)
    d[2, 3] = 40.0                       # an outlier the sigma clips reject
    d[ny - 2, nx - 1] = -12.0            # a negative outlier at the right edge
    dn = d.copy()
    dn[3, 4] = np.nan
    dn[0, 0] = np.inf
    dn[ny - 1, 1] = -np.inf
    e = rng.uniform(0.5, 1.5, size=shape)
    return {'finite': d, 'nonfinite': dn, 'err': e}


def make_mask(name, shape):
    ny, nx = shape
    if name == 'none':
        return None
    m = np.zeros(shape, dtype=bool)
    if name == 'pixel':
        m[3, 3] = True
    else:                                # block: interior apertures lose every pixel, edge ones some
        m[1:ny - 1, 1:nx - 2] = True
    return m


def clip_keep(vals, clip):
    """Independent application of SigmaClip(sigma, maxiters) to a 1-D list -> keep flags."""
    if clip is None or not vals:
        return [True] * len(vals)
    from astropy.stats import SigmaClip
    out = SigmaClip(sigma=clip[0], maxiters=clip[1])(np.array(vals, dtype=float), masked=True)
    return [not bool(b) for b in np.ma.getmaskarray(out)]


class ApCtx:
    """Everything that depends on (image shape, aperture spec, sky?) only."""

    def __init__(self, shape, spec, sky, seed, scalar_index=None):
        self.shape, self.spec, self.sky, self.seed = tuple(shape), spec, bool(sky), seed
        self.ny, self.nx = self.shape
        self.allpos = positions(self.shape, seed)
        self.scalar_index = scalar_index
        pos = self.allpos if scalar_index is None else self.allpos[scalar_index]
        self.idx = list(range(len(self.allpos))) if scalar_index is None else [scalar_index]
        pix = R.make_aperture(spec, pos)
        self.wcs = None
        self.aper = pix
        if sky:
            self.wcs = R.tan_wcs()
            self.aper = pix.to_sky(self.wcs)
            pix = self.aper.to_pixel(self.wcs)          # the property: sky == its own to_pixel image
        self.pix = pix
        self.img = images(self.shape, seed)
        self.reg = {}
        self.scache = {}
        for m, sub in METHODS:
            # exact / center: the option is not handed to the reference (it must not matter)
            mk = pix.to_mask(method=m, subpixels=sub) if m == 'subpixel' else pix.to_mask(method=m)
            mk = [mk] if scalar_index is not None else mk
            self.reg[(m, sub)] = [R.register(x, self.shape) for x in mk]
        self.reg['center'] = self.reg[('center', 5)]
        self.cls = [R.posclass(box, self.shape) for box, _ in self.reg['center']]


def mkey(cfg):
    return (cfg['sum_method'], cfg.get('subpixels', 5))


def fixed_bad_pixels(shape):
    """'nf-fixed': (iy, ix, value) -- NaN / +inf in the interior, -inf in the top-left corner pixel."""
    ny, nx = shape
    return [(2, 4, math.nan), (4, 2, math.inf), (ny - 1, 0, -math.inf)]


def error_map(ctx, cfg, exs):
    """The error array of configuration cfg (None when no error is given).  exs: the error-independent reference
    sets of every position of this ApertureStats (used only to CHOOSE where the non-finite values go)."""
    kind = cfg['error']
    if kind == 'none':
        return None
    e = ctx.img['err']
    if kind == 'finite':
        return e
    ny, nx = ctx.shape
    if kind == 'nf-fixed':
        e = e.copy()
        for iy, ix, v in fixed_bad_pixels(ctx.shape):
            e[iy, ix] = v
        return e
    allpix = [(iy, ix) for iy in range(ny) for ix in range(nx)]
    if kind == 'nf-masked':
        m = make_mask(cfg['mask'], ctx.shape)
        bad = [] if m is None else [p for p in allpix if m[p]]
    elif kind == 'nf-data':
        d = ctx.img[cfg['variant']]
        bad = [p for p in allpix if not np.isfinite(d[p])]
    elif kind == 'nf-zero-weight':
        nonzero = set()
        for _, wl in ctx.reg[mkey(cfg)]:
            if wl is not None:
                nonzero |= {(iy, ix) for iy, ix, w in wl if w != 0}
        bad = [p for p in allpix if p not in nonzero]
    else:
        summed = set()
        preclip = set()
        for ex in exs:
            summed |= {(iy, ix) for iy, ix, _, _ in ex['T']}
            preclip |= {(iy, ix) for iy, ix, _, _ in ex['Tpre']}
        if kind == 'nf-clipped':
            bad = [p for p in allpix if p in preclip and p not in summed]
        elif kind == 'nf-excluded':
            bad = [p for p in allpix if p not in summed]
        else:
            raise ValueError(kind)
    e = e.copy()
    for iy, ix in bad:
        e[iy, ix] = NONFINITE[(iy * nx + ix) % 3]
    return e


def expected(ctx, j, cfg):
    """Direct computation for position j (index into ctx.idx) under configuration cfg: everything that does not
    depend on the error map (sum_err is added by expected_sum_err once the map of the configuration is known)."""
    k = ctx.idx[j]
    data = ctx.img[cfg['variant']]
    mask = make_mask(cfg['mask'], ctx.shape)
    lb = {'none': 0.0, 'scalar': 0.7, 'per': 0.05 + 0.1 * k}[cfg['local_bkg']]
    # the centre-method part does not depend on (sum_method, subpixels, error): computed once per remaining axes
    ckey = (j, cfg['variant'], cfg['mask'], None if cfg['clip'] is None else tuple(cfg['clip']), cfg['local_bkg'])
    if ckey in ctx.scache:
        out = dict(ctx.scache[ckey])
        out['exp'] = dict(out['exp'])
        return expected_T(ctx, j, cfg, out, data, mask, lb)
    out = {'S': [], 'T': [], 'Tpre': [], 'ambiguous_weight': False}

    def usable(iy, ix):
        d = data[iy, ix]
        return bool(np.isfinite(d)) and not (mask is not None and mask[iy, ix])

    # centre-method set
    box, wl = ctx.reg['center'][j]
    S = []
    if wl is not None:
        S = [(iy, ix, float(data[iy, ix]) - lb) for iy, ix, w in wl if w > 0 and usable(iy, ix)]
        keep = clip_keep([v for _, _, v in S], cfg['clip'])
        S = [p for p, kf in zip(S, keep) if kf]
    out['S'] = S
    nan = math.nan
    exp = {p: nan for p in PROPS}
    if S:
        vals = [v for _, _, v in S]
        st = R.direct_stats(vals)
        out['bw_den'] = st.pop('bw_den', None)
        exp.update(st)
        exp['center_aper_area'] = float(len(S))
        out['vscale'] = max(abs(v) for v in vals)
        mo = R.direct_moments(S)
        out['cond'] = mo['cond']
        if mo['cond'] <= 1e6:
            exp['xcentroid'], exp['ycentroid'] = mo['xc'], mo['yc']
            out['covs'] = R.regularised_covariances(mo['cxx'], mo['cxy'], mo['cyy'])
            out['rawcov'] = (mo['cxx'], mo['cxy'], mo['cyy'])
    out['exp'] = exp
    ctx.scache[ckey] = out
    out = dict(out)
    out['exp'] = dict(exp)
    return expected_T(ctx, j, cfg, out, data, mask, lb)


def expected_T(ctx, j, cfg, out, data, mask, lb):
    """adds the sum-method set T and the sums over it to the (copied) centre-method part"""
    exp = out['exp']

    def usable(iy, ix):
        d = data[iy, ix]
        return bool(np.isfinite(d)) and not (mask is not None and mask[iy, ix])

    # sum-method set
    box, wl = ctx.reg[mkey(cfg)][j]
    T = []
    if wl is not None:
        if any(0 < abs(w) < 1e-12 for _, _, w in wl):
            out['ambiguous_weight'] = True      # |w| ~ 1e-17 (annulus outer - inner): in or out is rounding noise
        T = [(iy, ix, w, float(data[iy, ix]) - lb) for iy, ix, w in wl if w > 0 and usable(iy, ix)]
        out['Tpre'] = T
        keep = clip_keep([v for _, _, _, v in T], cfg['clip'])
        T = [p for p, kf in zip(T, keep) if kf]
    out['T'] = T
    if T:
        exp['sum'] = math.fsum(w * v for _, _, w, v in T)
        exp['sum_aper_area'] = math.fsum(w for _, _, w, _ in T)
        out['sum_scale'] = math.fsum(w * abs(v) for _, _, w, v in T)
    out['exp'] = exp
    return out


def expected_sum_err(ctx, j, cfg, ex, err):
    """sum_err = sqrt(sum_T w e^2), reading the error map at the pixels of T only (NaN when T is empty or no error is
    given; NaN / inf when the map is NaN / inf at a pixel of T: that is what the quadrature sum -- aperture_photometry --
    gives).  Also measures where the non-finite error values of this position's box are."""
    ex['err_excluded_nf'] = ex['err_included_nf'] = 0
    ex['err_ambiguous'] = False
    if err is None:
        return
    T = ex['T']
    if T:
        ex['exp']['sum_err'] = math.sqrt(math.fsum(w * float(err[iy, ix]) ** 2 for iy, ix, w, _ in T))
    _, wl = ctx.reg[mkey(cfg)][j]
    if wl is not None:
        inT = {(iy, ix) for iy, ix, _, _ in T}
        for iy, ix, w in wl:
            if not np.isfinite(err[iy, ix]):
                ex['err_included_nf' if (iy, ix) in inT else 'err_excluded_nf'] += 1
                if 0 < abs(w) < 1e-12:
                    ex['err_ambiguous'] = True      # non-finite error where the weight is rounding noise: in or out is noise


def cfg_case(ctx, cfg, j, prop):
    k = ctx.idx[j]
    return {'shape': list(ctx.shape), 'aper': ctx.spec, 'sky': ctx.sky, 'scalar': ctx.scalar_index is not None,
            'pos_index': k, 'position': list(ctx.allpos[k]), 'prop': prop, **cfg}


def build(ctx, cfg, err):
    from astropy.stats import SigmaClip
    from photutils.aperture import ApertureStats
    data = ctx.img[cfg['variant']]
    npos = len(ctx.allpos)
    lb = {'none': None, 'scalar': 0.7,
          'per': (np.array([0.05 + 0.1 * k for k in range(npos)]) if ctx.scalar_index is None
                  else 0.05 + 0.1 * ctx.scalar_index)}[cfg['local_bkg']]
    clip = None if cfg['clip'] is None else SigmaClip(sigma=cfg['clip'][0], maxiters=cfg['clip'][1])
    m, sub = mkey(cfg)
    return ApertureStats(data, ctx.aper, error=err,
                         mask=make_mask(cfg['mask'], ctx.shape), wcs=ctx.wcs, sigma_clip=clip, sum_method=m,
                         subpixels=sub, local_bkg=lb)


def site_for(ctx, j, ex, prop, cfg):
    c = ctx.cls[j]
    if prop in ('xcentroid', 'ycentroid'):
        # one site for "box extends past the left/bottom edge" (the cutout is trimmed at its origin there)
        return 'centroid:box-cut-low-edge' if c in ('cut-low', 'cut-both') else f'centroid:box-{c}'
    if prop == 'sum_aper_area' and not ex['S'] and ex['T']:
        return 'sum_aper_area:centre-set-empty'
    if prop == 'sum_err' and (ex['err_excluded_nf'] or ex['err_included_nf']):
        # the error map has NaN/inf inside this position's box: only at excluded pixels / (also) at a pixel of T
        return 'sum_err:non-finite-error-' + ('at-pixel-of-T' if ex['err_included_nf'] else 'at-excluded-pixel')
    grp = 'sum' if prop in ('sum', 'sum_err', 'sum_aper_area') else ('shape' if prop in SHAPES else ('statistic' if prop in STATS else prop))
    c = 'cut' if c.startswith('cut') else c
    tags = ('' if cfg['clip'] is None else ':clip') + ('' if cfg['local_bkg'] == 'none' else ':bkg')
    if grp == 'sum':
        if cfg['sum_method'] != 'subpixel' and mkey(cfg)[1] != 5:
            # a non-default subpixels value given together with a method that must ignore it: one site per method
            return f"sum:subpixels-given-to-{cfg['sum_method']}" + (':empty' if not ex['T'] else '')
        tags += '' if cfg['sum_method'] == 'center' else ':weighted'
    return f'{grp}:{c}{tags}' + (':empty' if not (ex['T'] if grp == 'sum' else ex['S']) else '')


def props_read(cfg):
    """Every property for subpixels=5 (any error condition) and for subpixels 1, 2 with error='finite'; otherwise the
    three properties that depend on the sum method."""
    return PROPS if (mkey(cfg)[1] == 5 or cfg['error'] == 'finite') else SUM_PROPS


def check_photometry(acc, ctx, cfg, err, got, exs, only=None):
    """The statement taken literally: sum, sum_err, sum_aper_area equal aperture_photometry and area_overlap for the same
    method (and the same subpixels option) whenever at least one unmasked pixel has positive weight.  Applied to the
    configurations without sigma clip (aperture_photometry has none); non-finite data pixels are excluded through the
    mask; local background by linearity: sum(w (d - b)) = aperture_sum - b * area."""
    from photutils.aperture import aperture_photometry
    if cfg['clip'] is not None:
        return
    data = ctx.img[cfg['variant']]
    m, sub = mkey(cfg)
    mask = make_mask(cfg['mask'], ctx.shape)
    bad = ~np.isfinite(data)
    if bad.any():
        mask = bad if mask is None else (mask | bad)
    try:
        tbl = aperture_photometry(data, ctx.aper, error=err, mask=mask, method=m, subpixels=sub, wcs=ctx.wcs)
        area = np.atleast_1d(np.asarray(ctx.pix.area_overlap(data, mask=mask, method=m, subpixels=sub), dtype=float))
        ps = np.atleast_1d(np.asarray(getattr(tbl['aperture_sum'], 'value', tbl['aperture_sum']), dtype=float))
        pe = None if err is None else np.atleast_1d(np.asarray(getattr(tbl['aperture_sum_err'], 'value',
                                                                       tbl['aperture_sum_err']), dtype=float))
    except Exception as exc:  # noqa: BLE001  (aperture_photometry itself is C02's subject)
        acc.skip(f'literal comparison: aperture_photometry / area_overlap raised {type(exc).__name__}')
        return
    for j in range(len(ctx.idx)):
        if only and ctx.idx[j] != only['pos_index']:
            continue
        ex = exs[j]
        if not ex['T']:
            continue            # the clause is stated for "at least one unmasked pixel with positive weight"
        k = ctx.idx[j]
        lb = {'none': 0.0, 'scalar': 0.7, 'per': 0.05 + 0.1 * k}[cfg['local_bkg']]
        a = float(area[j])
        want = {'sum': float(ps[j]) - lb * a, 'sum_aper_area': a}
        # same tolerance rule as the direct oracle; sum |w d| <= sum |w (d - b)| + b * area
        tol = {'sum': RT * (ex.get('sum_scale', 0.0) + 2 * lb * abs(a)) + 1e-13, 'sum_aper_area': RT * abs(a) + 1e-13}
        if pe is not None:
            if ex['err_ambiguous']:
                acc.skip('sum_err with a non-finite error value where the weight is rounding noise (|w| < 1e-12)')
            else:
                want['sum_err'] = float(pe[j])
                tol['sum_err'] = RT * (abs(want['sum_err']) if math.isfinite(want['sum_err']) else 0.0) + 1e-13
        acc.counters['literal:positions-compared-with-aperture_photometry'] += 1
        for p, e in want.items():
            if p not in got or (only and only['prop'] in PROPS and p != only['prop']):
                continue
            g = float(got[p][j])
            if not R.same(g, e, tol[p]):
                tag = (':subpixels-given-to-' + m) if (m != 'subpixel' and sub != 5) else ''
                acc.violation('equals-aperture_photometry', f"{p}:{'center' if m == 'center' else 'weighted'}{tag}",
                              dict(cfg_case(ctx, cfg, j, p), literal=True), g, e,
                              f'{p} of ApertureStats vs aperture_photometry / area_overlap(method={m!r}, subpixels={sub}) '
                              f"with the total mask; local_bkg {lb}; |T|={len(ex['T'])}")


def check_config(acc, ctx, cfg, only=None):
    data0 = ctx.img[cfg['variant']].copy()
    n = len(ctx.idx)
    exs = [expected(ctx, j, cfg) for j in range(n)]
    err = error_map(ctx, cfg, exs)
    err0 = None if err is None else err.copy()
    for j in range(n):
        expected_sum_err(ctx, j, cfg, exs[j], err)
    try:
        st = build(ctx, cfg, err)
    except Exception as exc:  # noqa: BLE001
        acc.violation('raises', f'ApertureStats():{type(exc).__name__}', cfg_case(ctx, cfg, 0, '__init__'), repr(exc), 'an object')
        return
    got = {}
    # the implementation's regularisation loop would run for > 20000 iterations: do not read the shape values at all
    no_shapes = any(e.get('covs', 0) is None for e in exs)
    if no_shapes:
        acc.skip('shape values not read: covariance regularisation needs > 20000 steps for one position')
    for p in props_read(cfg):
        if only and p != only['prop'] and only['prop'] in PROPS:
            continue
        if no_shapes and p in SHAPES:
            continue
        try:
            v = getattr(st, p)
            v = np.atleast_1d(np.asarray(getattr(v, 'value', v), dtype=float))
        except Exception as exc:  # noqa: BLE001
            acc.violation('raises', f'{p}:{type(exc).__name__}', cfg_case(ctx, cfg, 0, p), repr(exc), 'a value or NaN')
            continue
        if v.shape != (n,):
            acc.violation('result-shape', p, cfg_case(ctx, cfg, 0, p), v.shape, (n,))
            continue
        got[p] = v
    for j in range(n):
        if only and ctx.idx[j] != only['pos_index']:
            continue
        ex = exs[j]
        exp = ex['exp']
        acc.case(nontrivial=bool(ex['S'] or ex['T']))
        etag = ('-' if err is None else
                'f' if not (ex['err_excluded_nf'] or ex['err_included_nf']) else
                ('x' if ex['err_excluded_nf'] else '') + ('i' if ex['err_included_nf'] else ''))
        acc.outcome(f"{ctx.cls[j]}|S{min(len(ex['S']), 3)}|T{min(len(ex['T']), 3)}|E{etag}")
        if ex['T'] and ex['err_excluded_nf'] and not ex['err_included_nf']:
            acc.counters[f"sum_err:{cfg['error']}:T-not-empty,non-finite-error-only-at-excluded-box-pixels"] += 1
        if ex['err_included_nf']:
            acc.counters[f"sum_err:{cfg['error']}:non-finite-error-at-a-pixel-of-T"] += 1
        vs = ex.get('vscale', 0.0)
        for p, g in got.items():
            g = float(g[j])
            e = exp[p]
            if p in ('sum', 'sum_err', 'sum_aper_area'):
                if ex['ambiguous_weight'] and cfg['clip'] is not None:
                    acc.skip('sum with sigma clip where a weight is rounding noise (|w| < 1e-12)')
                    continue
                if p == 'sum_err' and ex['err_ambiguous']:
                    acc.skip('sum_err with a non-finite error value where the weight is rounding noise (|w| < 1e-12)')
                    continue
                tol = RT * (ex.get('sum_scale', 0.0) if p == 'sum' else (abs(e) if e == e else 0.0)) + 1e-13
                ok = R.same(g, e, tol)
            elif p == 'center_aper_area':
                ok = R.same(g, e, 0.0)
            elif p in STATS:
                if p == 'biweight_midvariance' and ex['S'] and ex.get('bw_den') is not None and abs(ex['bw_den']) < 1e-3:
                    acc.skip('biweight_midvariance denominator ~ 0 (ill-posed by the input values)')
                    continue
                sc = vs * vs if p in ('var', 'biweight_midvariance') else vs
                ok = R.same(g, e, RT * 100 * sc + 1e-300) if p.startswith('biweight') else R.same(g, e, RT * sc + 1e-300)
            elif p in ('xcentroid', 'ycentroid'):
                if ex['S'] and ex['cond'] > 1e6:
                    acc.skip('centroid with |sum v| < 1e-6 sum|v| (ill-posed by the input values)')
                    continue
                ok = R.same(g, e, RT * 10 * (ex.get('cond', 1.0)) * 10.0 + 1e-300)
            else:
                ok, e = shape_ok(acc, p, g, ex)
                if ok is None:
                    continue
            if not ok:
                clause = 'sum_err-nonfinite-error-map' if (p == 'sum_err' and (ex['err_excluded_nf'] or ex['err_included_nf'])) else \
                    'nan-iff-empty' if (e != e) != (g != g) and p not in SHAPES else \
                    ('sum' if p in ('sum', 'sum_err', 'sum_aper_area') else ('shape' if p in SHAPES else
                                                                               ('centroid' if 'centroid' in p else 'statistic')))
                acc.violation(clause, site_for(ctx, j, ex, p, cfg), cfg_case(ctx, cfg, j, p), g, e,
                              f"{p}: |S|={len(ex['S'])} |T|={len(ex['T'])} box {ctx.reg['center'][j][0]} class {ctx.cls[j]}")
    check_photometry(acc, ctx, cfg, err, got, exs, only)
    if not np.array_equal(data0, ctx.img[cfg['variant']], equal_nan=True):
        acc.violation('input-modified', 'data', cfg_case(ctx, cfg, 0, 'data'))
    if err is not None and not np.array_equal(err0, err, equal_nan=True):
        acc.violation('input-modified', 'error', cfg_case(ctx, cfg, 0, 'error'))
    return st, got


def shape_ok(acc, p, g, ex):
    """Shape values against every acceptable regularised covariance."""
    if not ex['S']:
        return (g != g), math.nan
    if ex['cond'] > 1e6:
        acc.skip('shape with |sum v| < 1e-6 sum|v| (ill-posed by the input values)')
        return None, None
    if ex['covs'] is None:
        acc.skip('shape: covariance regularisation needs > 20000 steps (negative second moment of huge size)')
        return None, None
    cond = ex['cond']
    tol_rel = RT * 1000 * cond          # second moments: (x - xc)^2 amplifies the centroid error by the span (<= 8)
    first = None
    for cov in ex['covs']:
        cxx, cxy, cyy = cov
        if p.startswith('covar_'):
            e = {'covar_sigx2': cxx, 'covar_sigxy': cxy, 'covar_sigy2': cyy}[p]
            sc = abs(cxx) + abs(cyy) if cxx == cxx else 0
        elif p in ('cxx', 'cxy', 'cyy'):
            if cxx != cxx:
                e, sc = math.nan, 0
            else:
                det = cxx * cyy - cxy * cxy
                tr = cxx + cyy
                l2 = tr / 2 - math.sqrt((cxx - cyy) ** 2 / 4 + cxy * cxy)
                if l2 < 0:
                    e, sc = math.nan, 0
                else:
                    e = {'cxx': cyy / det, 'cyy': cxx / det, 'cxy': -2 * cxy / det}[p]
                    sc = (abs(cxx) + abs(cyy)) / abs(det) * max(1.0, (abs(cxx) + abs(cyy)) ** 2 / abs(det))
        else:
            sh = R.shape_from_cov(cxx, cxy, cyy)
            e = sh[p]
            sc = 1.0 + (abs(e) if e == e else 0)
            if p == 'orientation' and e == e:
                aniso = math.hypot(2 * cxy, cxx - cyy)
                if aniso < 1e-6 * (abs(cxx) + abs(cyy)):
                    acc.skip('orientation of an isotropic covariance (undefined)')
                    return None, None
                d = abs(g - e) % 180.0
                if g == g and min(d, 180.0 - d) <= math.degrees(tol_rel * (abs(cxx) + abs(cyy)) / aniso) + 1e-9:
                    return True, e
                first = e if first is None else first
                continue
            if p in ('eccentricity', 'ellipticity', 'elongation') and e == e:
                # functions of l2/l1: compare through the ratio (sqrt near 0 is ill-conditioned)
                l1, l2 = sh['semimajor_sigma'] ** 2, sh['semiminor_sigma'] ** 2
                if l2 <= 0 or l1 <= 0:
                    if g != g or not math.isfinite(g) or abs(g - e) <= 1e-6:
                        return True, e
                    first = e if first is None else first
                    continue
                ratio_g = {'eccentricity': lambda x: 1 - x * x, 'ellipticity': lambda x: (1 - x) ** 2,
                           'elongation': lambda x: 1 / (x * x) if x else math.inf}[p](g) if g == g else math.nan
                if ratio_g == ratio_g and abs(ratio_g - l2 / l1) <= tol_rel * 10 * max(1.0, l1 / l2):
                    return True, e
                first = e if first is None else first
                continue
        if R.same(g, e, tol_rel * sc * 10 + 1e-12):
            return True, e
        first = e if first is None else first
    return False, first


def error_applies(error, variant, mask, clip):
    """False when the error condition gives, by construction, the same map as 'finite' (not repeated)."""
    return not ((error == 'nf-masked' and mask == 'none') or (error == 'nf-data' and variant == 'finite')
                or (error == 'nf-clipped' and clip is None))


def all_cfgs(variant, mask, errors=None):
    # 'finite' first, 'none' second (the order of the previous two-valued error axis), then the non-finite conditions
    out = []
    for error in (errors or (['finite', 'none'] + ERRORS[2:])):
        for clip in CLIPS:
            if not error_applies(error, variant, mask, clip):
                continue
            for sm, sub in METHODS:
                for lbk in LBKG:
                    out.append({'variant': variant, 'mask': mask, 'error': error, 'clip': clip, 'sum_method': sm,
                                'subpixels': sub, 'local_bkg': lbk})
    return out


def plan(tier, seed):
    units = []
    for si, _ in enumerate(image_shapes(tier)):
        for ai, _ in enumerate(aper_specs(tier)):
            for variant in VARIANTS:
                for mask in MASKS:
                    units.append({'kind': 'pixel', 'shape': si, 'aper': ai, 'variant': variant, 'mask': mask})
        for ai, _ in enumerate(sky_specs(tier)):
            for variant in VARIANTS:
                units.append({'kind': 'sky', 'shape': si, 'aper': ai, 'variant': variant, 'mask': 'pixel'})
        for ai, _ in enumerate(aper_specs(tier)):
            # scalar-aperture (isscalar) branch: quick = one (variant, mask) with error; thorough = 2 x 2 x both error forms
            for variant, mask in ([('nonfinite', 'none')] if tier == 'quick' else
                                  [(v, m) for v in VARIANTS for m in ('none', 'pixel')]):
                units.append({'kind': 'scalar', 'shape': si, 'aper': ai, 'variant': variant, 'mask': mask})
    # access-order product: one unit per (aperture, form, object configuration)
    return units + order_units(tier)


def run_unit(unit, tier, seed):
    acc = Acc()
    shape = image_shapes(tier)[unit['shape']]
    if unit['kind'] == 'order':
        octx = OrderCtx(shape, order_apers(tier)[unit['aper']], unit['form'], seed, unit['cfg'])
        run_order(acc, octx, tier, order_parts(tier, unit['form'], octx.ocfg))
        return acc
    if unit['kind'] == 'scalar':
        spec = aper_specs(tier)[unit['aper']]
        npos = len(positions(shape, seed))
        for k in range(npos):
            ctx = ApCtx(shape, spec, False, seed, scalar_index=k)
            for cfg in all_cfgs(unit['variant'], unit['mask'], SCALAR_ERRORS_QUICK if tier == 'quick' else None):
                check_config(acc, ctx, cfg)
        return acc
    sky = unit['kind'] == 'sky'
    spec = (sky_specs(tier) if sky else aper_specs(tier))[unit['aper']]
    ctx = ApCtx(shape, spec, sky, seed)
    for ci, cfg in enumerate(all_cfgs(unit['variant'], unit['mask'])):
        r = check_config(acc, ctx, cfg)
        if r is not None and ci % 19 == 5:      # 19: coprime to the 27 (method, subpixels, local_bkg) block -> every combination
            check_table(acc, ctx, cfg, *r)
        if ci == 7 and unit['aper'] % 3 == 1 and unit['mask'] == 'pixel':
            acc.samples.append(cfg_case(ctx, cfg, (unit['aper'] * 5) % len(ctx.idx), '*'))
    return acc


def check_table(acc, ctx, cfg, st, got):
    """to_table() columns are the attribute values (bit-identical, NaN-aware)."""
    try:
        tbl = st.to_table(columns=['id'] + list(got))
    except Exception as exc:  # noqa: BLE001
        acc.violation('raises', f'to_table:{type(exc).__name__}', cfg_case(ctx, cfg, 0, 'to_table'), repr(exc), 'a table')
        return
    for p, v in got.items():
        col = np.asarray(getattr(tbl[p], 'value', tbl[p]), dtype=float)
        if col.shape != v.shape or not np.array_equal(col, v, equal_nan=True):
            acc.violation('to_table', p, cfg_case(ctx, cfg, 0, 'to_table'), col.tolist(), v.tolist())


# ------------------------------------------------------------------------------------------------------------------
# Access-order product: the values of one ApertureStats object do not depend on the order in which they are asked for
# ------------------------------------------------------------------------------------------------------------------
# The statement gives every value as a function of (data, aperture, options) alone; an object on which other values have
# been read before (a cached, lazily evaluated object) must therefore return the same value as a fresh object.  Every
# history below is executed on a FRESH object and every result is compared with the result of the same operation executed
# ALONE on a fresh object of the same configuration ("alone" values; those of the listed properties are what the value
# product above compares with the direct computation).
ORDER_POS = [0, 3, 7, 10]        # indices into positions(): interior generic / box trimmed by the left and top edges /
#                                  image corner (its only pixel is non-finite in the data used: "all masked") / no overlap
ORDER_SCALAR_POS_QUICK = [3]     # scalar-aperture form: the trimmed position (thorough: every position of ORDER_POS)
ORDER_ERRORS = ['finite', 'none']
ORDER_CLIPS = [None, [1.5, 5]]
ORDER_UNITS = ['none', 'Jy']
ORDER_INDEXES = [0, [3, 0], [1, 3]]      # child = parent[index]: an int (scalar child), a reordering list (fancy index) and
#                                          slice(1, 3) (written [1, 3]; thorough tier only)
ORDER_FIXED = {'variant': 'nonfinite', 'mask': 'pixel', 'local_bkg': 'per', 'subpixels': 5}
BIG_TABLES = ['to_table(sorted)', 'to_table(reversed)']     # every accepted column, in sorted / reverse-sorted order
TABLE_OPS = ['to_table()'] + BIG_TABLES
# child results are recomputed on 1-2 positions where the parent computed them on 4: the same scalar formulae, but numpy's
# vectorised kernels are not guaranteed to round identically for different vector lengths -> 1e-12 relative (values are
# O(1..100); an order defect changes a value by O(its size)).  Pair / chain histories compare bit for bit (same code path
# on the same inputs in both runs).
CHILD_RTOL, CHILD_ATOL = 1e-12, 1e-13


def order_apers(tier):
    return [['circle', 1.5]] + ([['circle', 0.3], ['eann', 1.0, 2.8, 1.4, 2.0], ['rect', 3.0, 2.0, 0.3]]
                                if tier == 'thorough' else [])


def public_properties():
    """ApertureStats.properties (every public lazily evaluated attribute, sorted) as the tree under test defines it."""
    from photutils.aperture import ApertureStats, CircularAperture
    return list(ApertureStats(np.zeros((3, 3)), CircularAperture((1.0, 1.0), r=1.0)).properties)


def order_ops():
    return public_properties() + ['id', 'ids'] + TABLE_OPS


def order_indexes(tier):
    return ORDER_INDEXES if tier == 'thorough' else ORDER_INDEXES[:2]


def order_cfgs(tier, form):
    """Object configurations of the order product for one form (multi / scalar:k / sky), first aperture spec.
    thorough: the full product unit x error x clip x sum_method for the multi and scalar forms, without units for sky.
    quick (no units): multi: {exact, center} x ({error given} x clip + {no error} x no clip); scalar: {exact, center} x
    error given x clip; sky: exact x error given x the sigma clip (chains only, see order_parts)."""
    if tier == 'thorough':
        return [{'sum_method': m, 'error': e, 'clip': c, 'unit': un}
                for un in (ORDER_UNITS if form != 'sky' else ['none']) for e in ORDER_ERRORS for c in ORDER_CLIPS
                for m in SUM_METHODS]
    methods = ['exact'] if form == 'sky' else ['exact', 'center']
    errors = ORDER_ERRORS if form == 'multi' else ['finite']
    clips = [ORDER_CLIPS[1]] if form == 'sky' else ORDER_CLIPS
    return [{'sum_method': m, 'error': e, 'clip': c, 'unit': 'none'} for e in errors for c in clips for m in methods
            if not (e == 'none' and c is not None)]


class OrderCtx:
    """Builds fresh ApertureStats objects of one configuration of the order product."""

    def __init__(self, shape, spec, form, seed, ocfg):
        self.shape, self.spec, self.form, self.seed, self.ocfg = tuple(shape), spec, form, seed, dict(ocfg)
        allpos = positions(self.shape, seed)
        if form.startswith('scalar:'):
            self.pos_idx = [int(form.split(':')[1])]
            pos = allpos[self.pos_idx[0]]
        else:
            self.pos_idx = list(ORDER_POS)
            pos = [allpos[k] for k in ORDER_POS]
        self.n = len(self.pos_idx)
        self.scalar = form.startswith('scalar:')
        aper = R.make_aperture(spec, pos)
        self.wcs = None
        if form == 'sky':
            self.wcs = R.tan_wcs()
            aper = aper.to_sky(self.wcs)
        self.aper = aper
        img = images(self.shape, seed)
        self.data = img[ORDER_FIXED['variant']]
        self.err = img['err'] if ocfg['error'] == 'finite' else None
        self.mask = make_mask(ORDER_FIXED['mask'], self.shape)
        self.lb = (np.array([0.05 + 0.1 * k for k in self.pos_idx]) if not self.scalar else 0.05 + 0.1 * self.pos_idx[0])
        self.inputs0 = (self.data.copy(), None if self.err is None else self.err.copy(), self.mask.copy(),
                        np.array(self.lb, dtype=float).copy())

    def fresh(self):
        from astropy.stats import SigmaClip
        import astropy.units as u
        from photutils.aperture import ApertureStats
        c = self.ocfg
        clip = None if c['clip'] is None else SigmaClip(sigma=c['clip'][0], maxiters=c['clip'][1])
        data, err, lb = self.data, self.err, self.lb
        if c['unit'] != 'none':
            un = u.Unit(c['unit'])
            data, lb = data * un, lb * un
            err = None if err is None else err * un
        return ApertureStats(data, self.aper, error=err, mask=self.mask, wcs=self.wcs, sigma_clip=clip,
                             sum_method=c['sum_method'], subpixels=ORDER_FIXED['subpixels'], local_bkg=lb)

    def inputs_changed(self):
        d0, e0, m0, l0 = self.inputs0
        bad = []
        if not np.array_equal(d0, self.data, equal_nan=True):
            bad.append('data')
        if e0 is not None and not np.array_equal(e0, self.err, equal_nan=True):
            bad.append('error')
        if not np.array_equal(m0, self.mask):
            bad.append('mask')
        if not np.array_equal(l0, np.array(self.lb, dtype=float)):
            bad.append('local_bkg')
        return bad


class OpRaised:
    """Result of an operation that raised (compared by exception type)."""

    def __init__(self, exc):
        self.name = type(exc).__name__
        self.text = repr(exc)[:200]

    def __repr__(self):
        return f'<raised {self.text}>'


def table_plain(tbl):
    """A table as {column name: plain value} (SkyCoord / Quantity kept, other columns as arrays)."""
    import astropy.units as u
    out = {'__colnames__': list(tbl.colnames)}
    for name in tbl.colnames:
        col = tbl[name]
        if hasattr(col, 'spherical'):
            out[name] = col
        elif isinstance(col, u.Quantity):
            out[name] = u.Quantity(col)
        else:
            out[name] = np.ma.asanyarray(col) if hasattr(col, 'mask') else np.asarray(col)
    return out


def apply_op(st, op, tcols):
    """Execute one operation of the alphabet on object st; exceptions of photutils are returned, not raised."""
    try:
        if op == 'to_table()':
            return table_plain(st.to_table())
        if op == 'to_table(sorted)':
            return table_plain(st.to_table(columns=list(tcols)))
        if op == 'to_table(reversed)':
            return table_plain(st.to_table(columns=list(tcols)[::-1]))
        return getattr(st, op)
    except Exception as exc:  # noqa: BLE001
        return OpRaised(exc)


def take_child(st, index):
    try:
        return st[slice(*index) if (isinstance(index, list) and index == [1, 3]) else index]
    except Exception as exc:  # noqa: BLE001
        return OpRaised(exc)


def op_diff(got, want, rtol=0.0, atol=0.0):
    from ..snapshot import diff
    if isinstance(got, OpRaised) or isinstance(want, OpRaised):
        if isinstance(got, OpRaised) and isinstance(want, OpRaised):
            return None if got.name == want.name else f'raised {got.name} instead of {want.name}'
        return f'{got!r} vs {want!r}'[:300]
    return diff(got, want, rtol=rtol, atol=atol)


def blame(op, d):
    """The attribute a difference belongs to: for a table operation the first differing column (a table is a sequence of
    attribute reads), so that one defect seen through an attribute and through a table has one key."""
    if op in TABLE_OPS:
        import re
        m = re.match(r"\['([^']+)'\]", d)
        if m and m.group(1) != '__colnames__':
            return m.group(1)
    return op


def order_case(octx, history, what):
    return {'kind': 'order', 'shape': list(octx.shape), 'aper': octx.spec, 'form': octx.form, **octx.ocfg,
            'fixed': ORDER_FIXED, 'positions': octx.pos_idx, 'history': history, 'check': what, 'prop': 'order'}


def order_reference(acc, octx, ops_all):
    """'Alone' values: every operation executed alone on a fresh object; the columns to_table accepts one by one
    (cutout lists of different shapes are not table columns: outside the statement); operations that raise alone are
    outside the statement of C16 for this configuration and leave the alphabet (counted)."""
    props = [o for o in ops_all if o not in TABLE_OPS]
    tcols = []
    for p in props:
        st = octx.fresh()
        try:
            st.to_table(columns=[p])
            tcols.append(p)
        except Exception:  # noqa: BLE001
            acc.counters[f'order:not-a-table-column:{p}'] += 1
    alone, ops = {}, []
    for op in ops_all:
        r = apply_op(octx.fresh(), op, tcols)
        if isinstance(r, OpRaised):
            acc.skip(f'order: {op} raises {r.name} when read alone on a fresh object (not an order effect)')
            continue
        alone[op] = r
        ops.append(op)
    return ops, tcols, alone


def run_history(octx, history, tcols):
    """Execute a history (list of steps) on a fresh object.  Steps: an operation name (executed on the current object),
    or ['child', index] (the current object becomes parent[index]; the parent is kept for later ['parent'] steps), or
    ['parent'] (back to the parent).  Returns the list of (step, object-kind, result)."""
    st = parent = octx.fresh()
    out = []
    for step in history:
        if isinstance(step, list) and step[0] == 'child':
            st = take_child(parent, step[1])
            out.append((step, 'child', st if isinstance(st, OpRaised) else None))
            if isinstance(st, OpRaised):
                break
        elif isinstance(step, list) and step[0] == 'parent':
            st = parent
            out.append((step, 'parent', None))
        else:
            out.append((step, 'child' if st is not parent else 'parent', apply_op(st, step, tcols)))
    return out


def check_pairs(acc, octx, ops, tcols, alone, only=None):
    """H1: every ordered pair (o1, o2) of operations, the diagonal included, each on a fresh object: o2 after o1 gives the
    alone value of o2, and the object returned by o1 still has the alone value of o1 afterwards."""
    for o1 in ops:
        for o2 in ops:
            if only and only != [o1, o2]:
                continue
            st = octx.fresh()
            r1 = apply_op(st, o1, tcols)
            d1 = op_diff(r1, alone[o1])
            r2 = apply_op(st, o2, tcols)
            acc.case(nontrivial=o1 != o2, sample=(order_case(octx, [o1, o2], 'pair') if acc.evaluations % 20011 == 7 else None))
            acc.outcome(f'order|{type(r2).__name__}')
            if d1:      # the FIRST read on a fresh object differs from the alone value: not a function of the inputs at all
                acc.violation('access-order', f'{o1}:first-read-not-reproducible', order_case(octx, [o1, o2], 'pair'), d1, 'alone value')
                continue
            d = op_diff(r2, alone[o2])
            if d:
                # keyed by the attribute that comes out wrong (o1 is in the case): one defect is usually triggered by
                # many different first reads
                acc.violation('access-order', f'{blame(o2, d)}:after-another-read',
                              order_case(octx, [o1, o2], 'pair'), d,
                              f'the value of {o2} read alone on a fresh object', f'{o2} read after {o1} on one object')
            d = op_diff(r1, alone[o1])
            if d:
                acc.violation('access-order', f'{blame(o1, d)}:returned-value-changed-by-later-read', order_case(octx, [o1, o2], 'pair'), d,
                              f'the value {o1} returned before {o2} was read', 'the object handed out earlier was altered')
    bad = octx.inputs_changed()
    if bad:
        acc.violation('input-modified', 'order:' + ','.join(bad), order_case(octx, [], 'pair'))


def chain_of(o1, direction, reads):
    body = list(reads) if direction == 'sorted' else list(reads)[::-1]
    return [o1] + body + [f'to_table({direction})', 'to_table()']


def check_chains(acc, octx, firsts, reads, tcols, alone, only=None):
    """H2: for every first operation o1 (any operation, the three tables included) and both directions: o1, then every
    attribute in sorted / reverse-sorted order, then the table of every accepted column in that order, then the default
    table -- all on the same object (depth = number of attributes + 3); every result equals its alone value when it is
    produced AND (the object returned) still at the end of the chain."""
    for o1 in firsts:
        for direction in ('sorted', 'reversed'):
            if only and only != [o1, direction]:
                continue
            chain = [op for op in chain_of(o1, direction, reads) if op in alone]
            st = octx.fresh()
            held = []
            acc.case(nontrivial=True, sample=(order_case(octx, [o1, direction], 'chain') if acc.evaluations % 20011 == 7 else None))
            for i, op in enumerate(chain):
                r = apply_op(st, op, tcols)
                d = op_diff(r, alone[op])
                if d:       # the first divergent step names the defect; what follows on this object is its consequence
                    acc.violation('access-order', f'{blame(op, d)}:in-chain', order_case(octx, [o1, direction], 'chain'), d,
                                  f'the value of {op} read alone on a fresh object', f'step {i} of the chain {o1}, then all {direction}')
                    break
                held.append((op, r))
            else:
                for op, r in held:      # every step was right when produced: the objects handed out must still be right
                    d = op_diff(r, alone[op])
                    if d:
                        acc.violation('access-order', f'{blame(op, d)}:returned-value-changed-in-chain',
                                      order_case(octx, [o1, direction], 'chain'), d, 'the value returned earlier in the chain')
                        break
    bad = octx.inputs_changed()
    if bad:
        acc.violation('input-modified', 'order:' + ','.join(bad), order_case(octx, [], 'chain'))


def check_children(acc, octx, indexes, ops, tcols, alone, only=None):
    """H3 (non-scalar objects): for every index and every ordered pair (o1, o2): o1 on the parent, child = parent[index],
    o2 on the child, equals o2 on the child of a parent on which nothing was read (one parent per (index, o1); its
    children, one per o2, are taken from it one after the other); and the parent, read after all that, still gives its
    alone values."""
    for index in indexes:
        if only and only[0] != index:
            continue
        ref = {}
        for o2 in ops:
            ch = take_child(octx.fresh(), index)
            if isinstance(ch, OpRaised):
                acc.skip(f'order: parent[{index}] raises {ch.name} on a fresh object')
                ref = None
                break
            ref[o2] = apply_op(ch, o2, tcols)
        if ref is None:
            continue
        for o1 in ops:
            if only and only[1] != o1:
                continue
            parent = octx.fresh()
            apply_op(parent, o1, tcols)
            for o2 in ops:
                ch = take_child(parent, index)
                r2 = ch if isinstance(ch, OpRaised) else apply_op(ch, o2, tcols)
                acc.case(nontrivial=True, sample=(order_case(octx, [index, o1, o2], 'child') if acc.evaluations % 20011 == 7 else None))
                acc.outcome(f'order|child|{type(r2).__name__}')
                d = op_diff(r2, ref[o2], CHILD_RTOL, CHILD_ATOL)
                if d:
                    # o1 is not part of the site: earlier children of the same parent belong to the history as well
                    acc.violation('access-order', f'{blame(o2, d)}:on-child-of-read-parent', order_case(octx, [index, o1, o2], 'child'), d,
                                  f'{o2} on parent[{index}] of a parent on which nothing was read',
                                  f'{o1} read on the parent, then parent[{index}].{o2} (children taken one after the other)')
            # the parent after all its children were read
            for o2 in ops:
                d = op_diff(apply_op(parent, o2, tcols), alone[o2])
                if d:
                    acc.violation('access-order', f'{blame(o2, d)}:on-parent-after-children', order_case(octx, [index, o1, None], 'child'), d,
                                  f'the value of {o2} read alone on a fresh object')
                    break
    bad = octx.inputs_changed()
    if bad:
        acc.violation('input-modified', 'order:' + ','.join(bad), order_case(octx, [], 'child'))


def run_order(acc, octx, tier, parts, only=None):
    """tier selects the alphabets (see describe()); a replay (only=...) runs one row with the full alphabets."""
    ops, tcols, alone = order_reference(acc, octx, order_ops())
    reads = [o for o in ops if o not in TABLE_OPS]
    small = [o for o in ops if o not in BIG_TABLES]          # attributes + the default table
    acc.counters['order:operations-in-alphabet'] = max(acc.counters['order:operations-in-alphabet'], len(ops))
    acc.counters['order:table-columns'] = max(acc.counters['order:table-columns'], len(tcols))
    if 'pair' in parts:
        check_pairs(acc, octx, ops if (tier == 'thorough' or only) else small, tcols, alone, only)
    if 'chain' in parts:
        check_chains(acc, octx, ops, reads, tcols, alone, only)
    if 'child' in parts and not octx.scalar:
        check_children(acc, octx, order_indexes('thorough' if only else tier), small, tcols, alone, only)


def order_parts(tier, form, ocfg):
    """Which history families run for a configuration.  thorough: all of them (children: non-scalar forms).  quick: pairs
    and chains for the multi and scalar forms, children for the multi form with an error map, chains only for the sky form
    (a fresh sky object costs a to_pixel conversion: its pair product is left to the thorough tier)."""
    if form.startswith('scalar:'):
        return ['pair', 'chain']
    if tier == 'thorough' or (form == 'multi' and ocfg['error'] == 'finite'):
        return ['pair', 'chain', 'child']
    return ['chain'] if form == 'sky' else ['pair', 'chain']


def order_describe(tier, seed):
    try:
        props = public_properties()
    except Exception as exc:  # noqa: BLE001
        props = [f'<ApertureStats.properties not available: {type(exc).__name__}>']
    reads = props + ['id', 'ids']
    pair_ops = reads + (TABLE_OPS if tier == 'thorough' else ['to_table()'])
    return {'attributes': reads, 'pair_alphabet': f'{len(pair_ops)} operations: the attributes + '
            + ('to_table(), to_table(sorted), to_table(reversed)' if tier == 'thorough' else 'to_table()'),
            'pairs_per_configuration': len(pair_ops) ** 2,
            'chains_per_configuration': 2 * (len(reads) + 3), 'chain_depth': len(reads) + 3,
            'child_indexes': [('slice(1, 3)' if i == [1, 3] else i) for i in order_indexes(tier)],
            'children_per_configuration': len(order_indexes(tier)) * (len(reads) + 1) ** 2,
            'apertures': order_apers(tier), 'positions': ORDER_POS, 'fixed': ORDER_FIXED, 'image': list(image_shapes(tier)[0]),
            'configurations': [{'aper': order_apers(tier)[x['aper']], 'form': x['form'], **x['cfg'],
                                'families': order_parts(tier, x['form'], x['cfg'])} for x in order_units(tier)],
            'units': len(order_units(tier))}


def order_units(tier):
    """Work units of the order product (first image only: the image size plays no part in what an object caches):
    first aperture spec x every form x order_cfgs(tier, form); thorough in addition: the other aperture specs (no pixel
    centre inside / annulus with zero-weight hole / rotated rectangle) x multi form x error x clip x sum_method, no units."""
    out = [{'kind': 'order', 'shape': 0, 'aper': 0, 'form': form, 'cfg': cfg}
           for form in order_forms(tier) for cfg in order_cfgs(tier, form)]
    for ai in range(1, len(order_apers(tier))):
        out += [{'kind': 'order', 'shape': 0, 'aper': ai, 'form': 'multi', 'cfg': cfg}
                for cfg in order_cfgs(tier, 'multi') if cfg['unit'] == 'none']
    return out


def order_forms(tier):
    sc = ORDER_SCALAR_POS_QUICK if tier == 'quick' else ORDER_POS
    return ['multi'] + [f'scalar:{k}' for k in sc] + ['sky']


def replay(case, seed):
    acc = Acc()
    if case.get('kind') == 'order':
        octx = OrderCtx(tuple(case['shape']), case['aper'], case['form'], seed,
                        {k: case[k] for k in ('sum_method', 'error', 'clip', 'unit')})
        run_order(acc, octx, 'thorough', [case['check']], only=case['history'])
        return acc
    cfg = {k: case[k] for k in ('variant', 'mask', 'error', 'clip', 'sum_method', 'local_bkg')}
    cfg['subpixels'] = case.get('subpixels', 5)  # replay files written before the subpixels axis existed: the default
    if isinstance(cfg['error'], bool):          # replay files written before the error axis was enlarged
        cfg['error'] = 'finite' if cfg['error'] else 'none'
    ctx = ApCtx(tuple(case['shape']), case['aper'], case['sky'], seed,
                scalar_index=case['pos_index'] if case.get('scalar') else None)
    r = check_config(acc, ctx, cfg, only=case)
    if case['prop'] == 'to_table' and r is not None:
        check_table(acc, ctx, cfg, *r)
    return acc


def describe(tier, seed):
    return {'alphabet': {'image_shapes': [list(s) for s in image_shapes(tier)], 'apertures': aper_specs(tier),
                         'sky_apertures': sky_specs(tier), 'positions': [list(p) for p in positions(image_shapes(tier)[0], seed)],
                         'data_variants': VARIANTS, 'masks': MASKS, 'error': ERRORS,
                         'error_nonfinite_values': 'NaN, +inf, -inf cycled by pixel index (iy*nx+ix) % 3; nf-fixed: '
                         + repr([(iy, ix, str(v)) for iy, ix, v in fixed_bad_pixels(image_shapes(tier)[0])]),
                         'sigma_clip': CLIPS,
                         'sum_method x subpixels': [list(m) for m in METHODS],
                         'subpixels_note': 'passed to ApertureStats (and to aperture_photometry / area_overlap in the literal '
                                           'clause) for every method; reference weights of exact / center ignore it',
                         'local_bkg': LBKG, 'properties': PROPS,
                         'properties_read': 'all for subpixels=5 and for error=finite; sum, sum_err, sum_aper_area otherwise',
                         'literal_clause': 'every configuration without sigma clip, positions with T not empty'},
            'order': order_describe(tier, seed),
            'bound': {'units': len(plan(tier, seed)),
                      'configs_per_unit': {f'{v}/{m}': len(all_cfgs(v, m)) for v in VARIANTS for m in MASKS},
                      'error_conditions_not_repeated': 'nf-masked with mask none, nf-data with finite data, nf-clipped without '
                                                       'sigma clip (map identical to the finite one by construction)',
                      'scalar_sub_product': (f'mask none x nonfinite data x error {SCALAR_ERRORS_QUICK}' if tier == 'quick' else
                                             'masks {none, pixel} x both data variants x every error condition')
                      + ' x clip x sum_method x local_bkg, every position as a scalar aperture',
                      'sky_sub_product': 'mask pixel x both data variants x all configs'}}
