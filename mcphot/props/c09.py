"""C09 -- results never depend on access order or on earlier calls.

Shape (A): one explicit-state BFS (mcphot/explorer.py) per class and configuration.  Every transition is
executed on a freshly constructed real object on which the history is replayed; states are digests of the
complete instance ``__dict__``.  The invariant is always the same differential one:

    every observation (attribute read / call result) equals what a FRESHLY CONSTRUCTED object reports for
    that single request (for mutators: a fresh object built from the final attribute values / the scalar
    normalisation model), no request raises unless the fresh object raises the same error for it, and the
    configuration attributes given to the constructor never change.

Every alphabet also holds the exceptional-exit requests of its class (empty-result early returns and requests
that raise on a fresh object as well): state that is restored on the normal exit only is invisible otherwise.

Sub-systems: Background2D (all read orders, run to fixpoint), the six pixel apertures (setters interleaved
with reads and with in-place writes of the caller into the positions container it handed over), RadialProfile /
CurveOfGrowth (reads interleaved with normalize / unnormalize), PSFPhotometry and IterativePSFPhotometry (call
sequences and the result-consuming requests make_model_image / make_residual_image that follow a call; PSF models
with and without a free shape parameter), the three star finders, Ellipse.fit_image, LocalBackground,
GriddedPSFModel evaluation histories.
"""
import itertools
import math
import warnings

import numpy as np

from ..explorer import explore, build, _mk_report
from ..runner import Acc
from ..snapshot import diff, short
from ..ref.c09_common import (CallSystem, Raised, St, compare, dig, observe, state_key, tally_fresh)

PROPERTY = 'C09'
LEVEL = 'model_checking'
RULE = ('per class and configuration: BFS over ALL histories of the listed requests (attribute reads, setter '
        'assignments, normalize/unnormalize, calls) up to the stated depth (Background2D: to the fixpoint of the '
        'reachable cache states), every transition executed on a freshly built real object; states are distinct '
        'digests of the complete instance __dict__; a history is non-trivial when an earlier request can '
        'influence a later one: at least two reads/calls (Background2D, photometry, finders, Ellipse, '
        'LocalBackground, GriddedPSFModel), at least one assignment and one read (apertures), at least one read '
        'and one normalize/unnormalize (profiles); each observation is compared with a fresh object given only '
        'that request.  Every request alphabet contains, next to the normal requests, the EXCEPTIONAL-EXIT requests '
        'of the class -- early returns with an empty result (finder detects nothing / every detection fails the '
        'cuts; Ellipse.fit_image "Everything is fixed" and "No meaningful fit was possible"; normalize() of an '
        'all-zero profile; LocalBackground without any pixel) and requests that raise on a fresh object too '
        '(rejected setter values, unknown normalize method / integration mode, mask of the wrong shape, source '
        'without overlap, source completely masked in the middle of the fit loop, arrays that cannot be broadcast) '
        '-- and because all histories are enumerated each of them is followed by every request; for Ellipse the '
        'alphabet is the full product (4 exit paths of fit_image) x (7 per-call overrides of the geometry '
        'settings) for a default and a non-default geometry.  Which exit a request really takes is measured on '
        'the fresh object (counters *_calls_exit_*, *_calls_straight_after_exit_*, profile_normalize_exit_*).  '
        'Apertures: positions are handed over as a (nested) list and as a float64 ndarray (constructor and setter), '
        'and the alphabet holds the requests "the caller writes in place into the container it handed over last" '
        '(shift of all values / one element); the oracle stays the fresh aperture built from the values AS PASSED.  '
        'Photometry: once a history holds a __call__, the result-consuming requests make_model_image / '
        'make_residual_image x include_localbkg {False, True} x psf_shape are requests of the history (up to two per '
        'history, while it holds one call -- thorough: one or two calls; after longer call histories they are read '
        'in one fixed sweep in every distinct state); each must equal what a fresh object reports after the LAST __call__ of the history and '
        'that single request ([call, request] alone is that fresh observation: counted trivial); the configurations '
        'with a local-background estimator get scenes with a constant sky, so the local backgrounds are far from '
        'zero (counter psf_localbkg_nonzero_calls); configurations whose PSF model has a FREE shape parameter '
        '(fwhm) are called with init tables with and without a column for it, with and without position bounds '
        '(xy_bounds=None is the only setting in which a one-source group is fitted without bounds being written)')
ASSUMPTIONS = ['a state is the instance __dict__ (plus, for StarFinder/Ellipse, the caller-owned kernel/geometry it '
               'aliases); equal digests have equal futures',
               'the differential oracle trusts a freshly constructed object for a single request (single-request '
               'correctness is the business of C01-C20, not of C09)',
               'numpy, scipy (zoom, splines, least_squares) and astropy (modeling, tables, units, SigmaClip) are trusted',
               'every call gets its own copy of the input arrays/tables: mutation of caller inputs is C10, not C09',
               'caller-side in-place writes are explored for aperture positions only (an aperture is documented as '
               'defined by the values given); objects documented to hold a reference to the caller\'s data '
               '(Background2D, profiles, Ellipse image, GriddedPSFModel data) are not subjected to them',
               'a result-consuming request (make_model_image / make_residual_image) that leaves the complete instance '
               '__dict__ digest unchanged is not expanded further (equal digests have equal futures): on a tree where '
               'rendering is read-only the histories [call, request, request\'] are covered by [call, request\']',
               'make_residual_image is given the data of the last __call__ (its documented use)',
               'the configuration snapshot of the photometry classes digests the psf_model by class and by every '
               'parameter\'s value / fixed / bounds / tied (snapshot.digest of an astropy Model), not by identity',
               'a request that raises on a FRESH object is compared by exception type only (whether it should raise is '
               'not C09\'s business); what C09 demands is that the requests after it answer like a fresh object and '
               'that the configuration is unchanged',
               'background estimators are given their own SigmaClip(sigma=3, maxiters=10) (same values as the library '
               'default, which is ONE module-level instance shared by all estimators: its never-read-back private '
               'bookkeeping would otherwise be explored state living outside the object)',
               'Background2D has no exceptional request: all its validation is in the constructor, every public read '
               'of a constructed object succeeds',
               'RadialProfile.gaussian_fit/gaussian_profile/gaussian_fwhm are excluded: their docstrings state that '
               'they keep the normalisation in force when first read']


# =========================================================================== Background2D
BKG_READS = ['background', 'background_rms', 'background_mesh', 'background_rms_mesh', 'background_median',
             'background_rms_median', 'npixels_mesh', 'npixels_map',
             'background_mesh_masked', 'background_rms_mesh_masked', 'mesh_nmasked']
BKG_AXES = {
    'filter_threshold': ['none', 'below', 'inside'],
    'filter_size': [1, 3],
    'interp': ['zoom', 'idw'],
    'exclude_percentile': [10, 50],     # 0 is rejected by the constructor for this frame ('All boxes contain <= ...')
    'mask': [False, True],
    'coverage': [False, True],
    'units': [False, True],
}
BKG_DEPTH = 10      # > longest chain of distinct cache states (4 lazy values + 2 dropped statistics)


BKG_FRAMES = {'quick': ['f11x14'], 'thorough': ['f11x14', 'i11x14', 'f9x12']}
# f11x14: float image, box (3, 4) leaves an extra row, an extra column and a corner box;
# i11x14: the same frame as int64 (float32 working copy, integer output dtype path of _interpolate_grid);
# f9x12: box (3, 4) divides the frame (no padded boxes)


def bkg_configs(tier):
    names = list(BKG_AXES)
    out = []
    for frame in BKG_FRAMES[tier]:
        for vals in itertools.product(*[BKG_AXES[n] for n in names]):
            c = dict(zip(names, vals))
            if frame != 'f11x14':
                c['frame'] = frame
            out.append(c)
    return out


def _bkg_scene(seed, frame='f11x14'):
    rng = np.random.default_rng(1000 + seed)
    img = rng.normal(10.0, 1.0, (11, 14))
    img[3:6, 4:8] += 50.0          # one box far above every threshold of the alphabet
    img[7, 1] += 4.0
    mask = np.zeros(img.shape, bool)
    mask[0, 0] = True
    mask[4, 9] = True
    mask[8, 5:7] = True
    cov = np.zeros(img.shape, bool)
    cov[:, -1] = True
    cov[-1, :3] = True
    if frame == 'i11x14':
        img = np.round(img * 4).astype(np.int64)        # thresholds of the alphabet are scaled by 4 as well
    elif frame == 'f9x12':
        img, mask, cov = img[:9, :12].copy(), mask[:9, :12].copy(), cov[:9, :12].copy()
        cov[:, -1] = True
    return img, mask, cov


class BkgSystem:
    name = 'Background2D'

    def __init__(self, cfg, seed):
        self.cfg = cfg
        self.seed = seed
        self._fresh = {}
        self.counters = {}

    def make(self):
        import astropy.units as u
        from photutils.background import Background2D, BkgIDWInterpolator, BkgZoomInterpolator
        c = self.cfg
        frame = c.get('frame', 'f11x14')
        img, mask, cov = _bkg_scene(self.seed, frame)
        self.thr_inside = 56.0 if frame == 'i11x14' else 14.0
        thr = {'none': None, 'below': -1.0e3, 'inside': self.thr_inside}[c['filter_threshold']]
        data = img * u.Jy if c['units'] else img
        with warnings.catch_warnings():
            warnings.simplefilter('ignore')
            return Background2D(data, (3, 4), mask=mask if c['mask'] else None,
                                coverage_mask=cov if c['coverage'] else None, fill_value=-7.0,
                                exclude_percentile=c['exclude_percentile'], filter_size=c['filter_size'],
                                filter_threshold=thr,
                                interpolator=BkgIDWInterpolator() if c['interp'] == 'idw' else BkgZoomInterpolator())

    def initial(self):
        return St(self.make())

    def ops(self, st):
        return [('read', r) for r in BKG_READS]

    def canon(self, st):
        return state_key(vars(st.obj), st.hist)

    def fresh(self, name):
        if name not in self._fresh:
            obj = self.make()
            self._fresh[name] = observe(lambda: getattr(obj, name))
        return self._fresh[name]

    def _site(self, name, cached):
        """one key per defect: the lazy mesh the read goes through, the filter mode, what was cached before"""
        under = ('background_rms_mesh' if 'rms' in name else 'background_mesh') if name.startswith('background') else name
        thr = 'filter_threshold' if self.cfg['filter_threshold'] == 'inside' and self.cfg['filter_size'] > 1 else 'plain'
        return f'Background2D.{under}:{thr}:cached={"+".join(cached) or "none"}'

    @staticmethod
    def _cached(obj):
        return sorted(k for k in ('background_mesh', 'background_rms_mesh') if k in vars(obj))

    def apply(self, st, op, report):
        name = op[1]
        cached = self._cached(st.obj)
        obs = observe(lambda: getattr(st.obj, name))
        st.hist.append(tuple(op))
        tally_fresh(self, self.fresh(name), False, name)
        c = compare(obs, self.fresh(name))       # bit-exact: identical arithmetic on identical inputs
        if c:
            report('read-' + c[0], self._site(name, cached), short(obs, 300), short(self.fresh(name), 300),
                   c[1] + f' [reading {name}; cached before: {cached}]')
            return not isinstance(obs, Raised)
        return True

    def invariant(self, st, report):
        # from this cache state every read must still answer like a fresh object (one extra level of depth)
        obj = st.obj
        for name in BKG_READS:
            cached = self._cached(obj)
            obs = observe(lambda: getattr(obj, name))
            c = compare(obs, self.fresh(name))
            if c:
                report('read-' + c[0], self._site(name, cached), short(obs, 300), short(self.fresh(name), 300),
                       c[1] + f' [reading {name} in the invariant sweep after {st.hist}]')
                if isinstance(obs, Raised):
                    break

    def nontrivial(self, hist):
        return len(hist) >= 2

    def outcome(self, st):
        return self.canon(st)

    def selective(self):
        """measured: does the selective filter really pick a strict non-empty subset of the mesh?"""
        obj = self.make()
        if self.cfg['filter_threshold'] != 'inside':
            return False
        stats = np.asarray(obj._bkg_stats)
        n = int(np.sum(stats > self.thr_inside))
        return 0 < n < stats.size


# =========================================================================== pixel apertures
P_SCALAR = (5.3, 4.6)
P_OTHER = (6.0, 5.5)
P_LIST = ((5.3, 4.6), (2.2, 7.9))
AP_POS = [P_SCALAR, P_OTHER, P_LIST]
# attribute alphabets: first value = constructor value; every combination is a valid aperture
AP_CLASSES = {
    'CircularAperture': {'r': [2.3, 3.0]},
    'CircularAnnulus': {'r_in': [1.7, 1.0], 'r_out': [3.1, 4.0]},
    'EllipticalAperture': {'a': [3.2, 4.0], 'b': [1.6, 2.5], 'theta': [0.4, 1.9]},
    'EllipticalAnnulus': {'a_in': [1.8, 1.2], 'a_out': [3.6, 4.2], 'b_in': [0.9, 0.6], 'b_out': [2.2, 2.9],
                          'theta': [0.4, 1.9]},
    'RectangularAperture': {'w': [3.4, 5.0], 'h': [2.2, 1.5], 'theta': [0.4, 1.9]},
    'RectangularAnnulus': {'w_in': [1.8, 1.1], 'w_out': [4.4, 5.2], 'h_in': [1.2, 0.8], 'h_out': [2.6, 3.3],
                           'theta': [0.4, 1.9]},
}
AP_READS = ['bbox', 'area', '_xy_extents', 'shape', 'isscalar', 'to_mask', 'len', 'area_overlap', 'photometry',
            '_centered_edges']


def _ap_image(seed):
    rng = np.random.default_rng(2000 + seed)
    return rng.random((10, 11)) + 0.5


def _ap_read(ap, name, img):
    if name == 'to_mask':
        m = ap.to_mask(method='exact')
        ms = m if isinstance(m, list) else [m]
        return [type(m).__name__] + [(x.data, (x.bbox.ixmin, x.bbox.ixmax, x.bbox.iymin, x.bbox.iymax)) for x in ms]
    if name == 'len':
        return len(ap)
    if name == 'area_overlap':
        return ap.area_overlap(img, method='center')
    if name == 'photometry':
        return list(ap.do_photometry(img, method='exact'))
    if name == 'bbox':
        b = ap.bbox
        bs = b if isinstance(b, list) else [b]
        return [type(b).__name__] + [(x.ixmin, x.ixmax, x.iymin, x.iymax) for x in bs]
    v = getattr(ap, name)
    if name == '_xy_extents':
        return [float(getattr(x, 'value', x)) for x in v]
    return v


# Representation of the positions handed to the constructor / the ``positions`` setter: a (nested) list or a
# float64 ndarray (the one container the aperture could keep a reference to without converting it).
AP_REPS = ['list', 'ndarray']
# In-place writes of the CALLER into the container it handed over last (constructor or positions setter): the
# aperture is a function of the values AS PASSED, so nothing it reports may move.
AP_CALLER_WRITES = ['shift-all', 'first-element']


def _ap_container(val, rep):
    nested = isinstance(val[0], tuple)
    if rep == 'ndarray':
        return np.array(val, dtype=np.float64)
    return [list(p) for p in val] if nested else list(val)


def _ap_caller_write(c, how):
    if isinstance(c, np.ndarray):
        if how == 'shift-all':
            c += 1.75
        else:
            c.flat[0] = 9.25
        return
    rows = c if isinstance(c[0], list) else [c]
    if how == 'shift-all':
        for row in rows:
            row[:] = [v + 1.75 for v in row]
    else:
        rows[0][0] = 9.25


class ApSystem:
    def __init__(self, cls, seed, ctor='list'):
        self.cls = cls
        self.name = cls
        self.ctor = ctor
        self.attrs = AP_CLASSES[cls]
        self.img = _ap_image(seed)
        self._fresh = {}
        self.counters = {}

    def _cls(self):
        import photutils.aperture as pa
        return getattr(pa, self.cls)

    def _build(self, vals, rep='list', keep=None):
        kw = {k: v for k, v in vals.items()}
        pos = _ap_container(kw.pop('positions'), rep)
        if keep is not None:
            keep['caller'] = pos
        return self._cls()(pos, **kw)

    def initial(self):
        vals = {'positions': AP_POS[0]}
        vals.update({k: v[0] for k, v in self.attrs.items()})
        aux = {}
        st = St(self._build(vals, self.ctor, aux))
        st.aux.update(aux)
        st.aux['vals'] = vals
        return st

    def ops(self, st):
        ops = [('set', 'positions', i) for i in range(len(AP_POS))]
        ops += [('set', 'positions', i, 'ndarray') for i in range(len(AP_POS))]
        for a, vs in self.attrs.items():
            ops += [('set', a, i) for i in range(len(vs))]
        ops += [('read', r) for r in AP_READS]
        # rejected assignments (documented validation errors of the attribute descriptors): afterwards every read
        # must still answer for the values in force before -- the exceptional exit of a setter
        ops += [('set_invalid', 'positions', 'three-numbers'), ('set_invalid', next(iter(self.attrs)), 'negative')]
        # the caller re-uses (writes into) the container it passed for the positions last
        ops += [('caller_writes', how) for how in AP_CALLER_WRITES]
        return ops

    def canon(self, st):
        return state_key(vars(st.obj), st.hist)

    def fresh(self, vals, name):
        k = (repr(sorted(vals.items())), name)
        if k not in self._fresh:
            ap = self._build(vals)
            self._fresh[k] = observe(lambda: _ap_read(ap, name, self.img))
        return self._fresh[k]

    def fresh_set_invalid(self, vals, attr, bad):
        k = (repr(sorted(vals.items())), 'set_invalid', attr)
        if k not in self._fresh:
            ap = self._build(vals)
            self._fresh[k] = observe(lambda: setattr(ap, attr, bad))
        return self._fresh[k]

    def _site(self, st, name):
        # whatever differs after an in-place write of the caller is ONE defect (the aperture shares the caller's
        # buffer): one key per class, the read concerned is named in the detail
        if st.aux.get('caller_wrote'):
            return f'{self.cls}.positions:after-caller-writes-into-its-array'
        return f'{self.cls}.{name}'

    def apply(self, st, op, report):
        op = tuple(op)
        st.hist.append(op)
        if op[0] == 'set':
            attr, i = op[1], op[2]
            rep = op[3] if len(op) > 3 else 'list'
            val = AP_POS[i] if attr == 'positions' else self.attrs[attr][i]
            given = _ap_container(val, rep) if attr == 'positions' else val
            r = observe(lambda: setattr(st.obj, attr, given))
            if isinstance(r, Raised):
                report('setter-raises', f'{self.cls}.{attr}', repr(r), 'no exception', 'assigning a valid value raised')
                return False
            st.aux['vals'] = dict(st.aux['vals'], **{attr: val})
            if attr == 'positions':
                st.aux['caller'] = given
                st.aux['caller_wrote'] = False
                if rep == 'ndarray':
                    self.counters['positions_given_as_ndarray'] = self.counters.get('positions_given_as_ndarray', 0) + 1
            return True
        if op[0] == 'caller_writes':
            c = st.aux['caller']
            _ap_caller_write(c, op[1])
            st.aux['caller_wrote'] = True
            ck = 'caller_writes_into_' + type(c).__name__
            self.counters[ck] = self.counters.get(ck, 0) + 1
            return True             # the attribute values in force (as passed) are unchanged
        if op[0] == 'set_invalid':
            _, attr, what = op
            bad = [1.0, 2.0, 3.0] if what == 'three-numbers' else -1.0
            r = observe(lambda: setattr(st.obj, attr, bad))
            f = self.fresh_set_invalid(st.aux['vals'], attr, bad)
            self.counters['validation_error_calls'] = self.counters.get('validation_error_calls', 0) + 1
            c = compare(r, f)
            if c:
                report('setter-' + c[0], f'{self.cls}.{attr}:invalid', repr(r), repr(f), c[1])
                return False
            # the attribute values in force are unchanged; an accepted 'invalid' value cannot be followed by the model
            return isinstance(r, Raised)
        name = op[1]
        obs = observe(lambda: _ap_read(st.obj, name, self.img))
        exp = self.fresh(st.aux['vals'], name)
        # len() of a scalar aperture is a documented TypeError
        tally_fresh(self, exp, name == 'len' and not isinstance(st.aux['vals']['positions'][0], tuple),
                    (name, st.aux['vals']))
        c = compare(obs, exp)       # bit-exact: same kernels on the same parameter values
        if c:
            report('read-' + c[0], self._site(st, name), short(obs, 300), short(exp, 300),
                   c[1] + f' [reading {name}; attribute values as passed {st.aux["vals"]}]')
        return True

    def invariant(self, st, report):
        for name in AP_READS:
            obs = observe(lambda: _ap_read(st.obj, name, self.img))
            exp = self.fresh(st.aux['vals'], name)
            c = compare(obs, exp)
            if c:
                report('read-' + c[0], self._site(st, name), short(obs, 300), short(exp, 300),
                       c[1] + f' [reading {name} in the invariant sweep; attribute values as passed {st.aux["vals"]}; '
                       f'cached {sorted(vars(st.obj))}]')
        # the public parameters read back what was assigned
        for a, v in st.aux['vals'].items():
            got = getattr(st.obj, a)
            got = getattr(got, 'value', got)
            if not np.array_equal(np.asarray(got, float), np.asarray(v, float)):
                report('attribute-readback', self._site(st, a), short(got), short(v), f'reading back {a}')

    def nontrivial(self, hist):
        kinds = [h[0] for h in hist]
        return ('set' in kinds or 'set_invalid' in kinds or 'caller_writes' in kinds) and 'read' in kinds

    def outcome(self, st):
        return self.canon(st)


# =========================================================================== profiles
PROF_CONFIGS = [
    {'cls': 'RadialProfile', 'error': True, 'units': False, 'data': 'star'},
    {'cls': 'CurveOfGrowth', 'error': True, 'units': False, 'data': 'star'},
    {'cls': 'RadialProfile', 'error': False, 'units': True, 'data': 'star'},
    {'cls': 'CurveOfGrowth', 'error': False, 'units': True, 'data': 'star'},
    # all-zero data: normalize() takes its early exit ('cannot be normalized because the max or sum is zero')
    {'cls': 'RadialProfile', 'error': False, 'units': False, 'data': 'zero'},
    {'cls': 'CurveOfGrowth', 'error': True, 'units': False, 'data': 'zero'},
]
PROF_SCALED = {'profile', 'profile_error', 'data_profile', 'ee'}


def _prof_scene(seed, kind):
    rng = np.random.default_rng(3000 + seed)
    yy, xx = np.mgrid[0:13, 0:13]
    if kind == 'zero':
        img = np.zeros((13, 13))
    else:
        img = 40.0 * np.exp(-((xx - 6.2) ** 2 + (yy - 5.9) ** 2) / (2 * 1.8 ** 2)) + rng.normal(0, 0.3, (13, 13)) + 2.0
    err = 0.3 + 0.05 * rng.random((13, 13))
    return img, err


def _prof_read(obj, name):
    if name == 'ee':
        return obj.calc_ee_at_radius(np.array([1.5, 2.7, 4.0]))
    return getattr(obj, name)


class ProfSystem:
    def __init__(self, cfg, seed):
        self.cfg = cfg
        self.cls = cfg['cls']
        self.name = self.cls
        self.seed = seed
        self._fresh = {}
        self.counters = {}
        self.reads = ['profile', 'profile_error', 'area', 'radius', 'normalization_value']
        if self.cls == 'RadialProfile':
            self.reads += ['data_profile', 'data_radius']
        else:
            self.reads += ['ee']

    def make(self):
        import astropy.units as u
        import photutils.profiles as pp
        img, err = _prof_scene(self.seed, self.cfg['data'])
        if self.cfg['units']:
            img = img * u.Jy
            err = err * u.Jy
        radii = np.array([0.0, 1.0, 2.5, 4.0, 5.5]) if self.cls == 'RadialProfile' else np.array([1.0, 2.0, 3.0, 4.5, 6.0])
        with warnings.catch_warnings():
            warnings.simplefilter('ignore')
            return getattr(pp, self.cls)(img, (6.2, 5.9), radii, error=err if self.cfg['error'] else None)

    def initial(self):
        st = St(self.make())
        st.aux['scale'] = 1.0
        return st

    def ops(self, st):
        # ('normalize', 'bogus'): not a documented method -> ValueError; nothing may change (exceptional exit)
        return [('read', r) for r in self.reads] + [('normalize', 'max'), ('normalize', 'sum'), ('unnormalize',),
                                                    ('normalize', 'bogus')]

    def canon(self, st):
        return state_key(vars(st.obj), st.hist)

    def fresh(self, name):
        if name not in self._fresh:
            obj = self.make()
            self._fresh[name] = observe(lambda: _prof_read(obj, name))
        return self._fresh[name]

    def fresh_normalize(self, method):
        k = ('normalize', method)
        if k not in self._fresh:
            obj = self.make()
            self._fresh[k] = observe(lambda: obj.normalize(method))
        return self._fresh[k]

    def expected(self, st, name):
        f = self.fresh(name)
        if isinstance(f, Raised):
            return f
        if name == 'normalization_value':
            return st.aux['scale']
        if name == 'ee':        # the interpolator works on bare values: unit-blind
            return f / getattr(st.aux['scale'], 'value', st.aux['scale'])
        if name in PROF_SCALED:
            return f / st.aux['scale']
        return f

    def _check(self, st, name, obs, report, where):
        import astropy.units as u
        exp = self.expected(st, name)
        # RadialProfile.data_profile is a bare array even for data with units (a single-request matter, not
        # C09's); normalize + unnormalize then makes it a dimensionless-unscaled Quantity of the same values.
        # A dimensionless-unscaled Quantity and a bare array denote the same value: compared by value.
        if isinstance(obs, u.Quantity) and not isinstance(exp, (u.Quantity, Raised)) \
                and obs.unit == u.dimensionless_unscaled and obs.unit.scale == 1:
            obs = obs.value
        # profile/n1/n2 vs profile/(n1*n2), (profile/n)*n vs profile: a handful of correctly rounded
        # multiplications/divisions, each 1.1e-16 relative -> < 1e-14 after the <= 6 operations of a history;
        # rtol 1e-12 is > 10x that and 1e10 times smaller than any genuine mis-scaling (the factors are O(10-100))
        c = compare(obs, exp, rtol=1e-12, atol=0.0)
        if c:
            report('read-' + c[0], f'{self.cls}.{name}', short(obs, 300), short(exp, 300),
                   c[1] + f' [{where}; scalar model: normalization {st.aux["scale"]!r}]')

    def apply(self, st, op, report):
        op = tuple(op)
        st.hist.append(op)
        obj = st.obj
        if op[0] == 'read':
            tally_fresh(self, self.fresh(op[1]), False, op[1])
            obs = observe(lambda: _prof_read(obj, op[1]))
            self._check(st, op[1], obs, report, f'cached before: {sorted(k for k in vars(obj) if k in self.reads)}')
            return True
        if op[0] == 'normalize':
            r = observe(lambda: obj.normalize(op[1]))
            if op[1] not in ('max', 'sum'):
                # documented domain {'max', 'sum'}: compared with a fresh object by exception type; the scalar
                # model keeps its normalisation (if the request is accepted the model cannot follow: unusable)
                f = self.fresh_normalize(op[1])
                self.counters['validation_error_calls'] = self.counters.get('validation_error_calls', 0) + 1
                c = compare(r, f)
                if c:
                    report('mutator-' + c[0], f'{self.cls}.normalize:invalid-method', repr(r), repr(f), c[1])
                    return False
                return isinstance(r, Raised)
            if isinstance(r, Raised):
                report('mutator-raises', f'{self.cls}.normalize', repr(r), 'no exception')
                return False
            # scalar model (a Quantity when the data carry units: profile[Jy] / max[Jy] is dimensionless)
            prof = self.fresh('profile')
            with np.errstate(all='ignore'):
                cur = prof / st.aux['scale']
                n = np.nanmax(cur) if op[1] == 'max' else np.nansum(cur)
            if n != 0:
                st.aux['scale'] = st.aux['scale'] * n
            # measured exit class of normalize(): n == 0 is its early exit (warns, changes nothing)
            ck = 'normalize_exit_' + ('normal' if n != 0 else 'zero-cannot-normalize')
            self.counters[ck] = self.counters.get(ck, 0) + 1
            return True
        r = observe(lambda: obj.unnormalize())
        if isinstance(r, Raised):
            report('mutator-raises', f'{self.cls}.unnormalize', repr(r), 'no exception')
            return False
        st.aux['scale'] = 1.0
        return True

    def invariant(self, st, report):
        for name in self.reads:
            obs = observe(lambda: _prof_read(st.obj, name))
            self._check(st, name, obs, report, f'invariant sweep after {st.hist}')

    def nontrivial(self, hist):
        kinds = [h[0] for h in hist]
        return 'read' in kinds and ('normalize' in kinds or 'unnormalize' in kinds)

    def outcome(self, st):
        return self.canon(st)


def _median_background():
    """MedianBackground with the library's default clipping parameters but its OWN SigmaClip instance: the default
    argument is one module-level SigmaClip shared by every estimator, whose private bookkeeping (_min_value,
    _max_value, _niterations of the last clip, never read back) would put explored state outside the object --
    a request that leaves before the estimator runs would then show the bookkeeping of whichever object ran last."""
    from astropy.stats import SigmaClip
    from photutils.background import MedianBackground
    return MedianBackground(sigma_clip=SigmaClip(sigma=3.0, maxiters=10))


# =========================================================================== PSF photometry
def _psf_scene(seed, which):
    """Deterministic scenes: A = close pair + isolated star (25x27), B = two stars (21x19), Z = pure noise."""
    from photutils.psf import CircularGaussianPRF, make_psf_model_image  # noqa: F401
    rng = np.random.default_rng(4000 + seed + {'A': 0, 'B': 1, 'Z': 2}[which])
    if which == 'A':
        shape, src = (25, 27), [(8.3, 9.1, 900.0), (11.6, 10.4, 600.0), (19.2, 17.7, 700.0)]
    elif which == 'B':
        shape, src = (21, 19), [(6.4, 7.2, 800.0), (12.9, 13.1, 500.0)]
    else:
        shape, src = (25, 27), []
    yy, xx = np.mgrid[0:shape[0], 0:shape[1]]
    img = rng.normal(0.0, 0.5, shape)
    sig = 2.4 / 2.3548200450309493
    for x, y, f in src:
        img += f / (2 * np.pi * sig ** 2) * np.exp(-((xx - x) ** 2 + (yy - y) ** 2) / (2 * sig ** 2))
    return img, src


def _psf_init(seed, which, kind):
    import astropy.units as u
    from astropy.table import Table, QTable
    _, src = _psf_scene(seed, which)
    x = [s[0] + 0.3 for s in src]
    y = [s[1] - 0.2 for s in src]
    f = [s[2] * 0.9 for s in src]
    if kind == 'xyf':
        return Table({'x': x, 'y': y, 'flux': f})
    if kind == 'xyf+gid':
        return Table({'x': x, 'y': y, 'flux': f, 'group_id': [1] * (len(x) - 1) + [2]})
    if kind == 'xy':
        return Table({'x_0': x, 'y_0': y})
    if kind == 'xyf+lbkg':
        return Table({'x': x, 'y': y, 'flux': f, 'local_bkg': [0.4, 0.1, -0.2][:len(x)]})
    if kind == 'off':
        return Table({'x': [-40.0] + x[1:], 'y': y, 'flux': f})
    if kind == 'off+gid':
        return Table({'x': [-40.0] + x[1:], 'y': y, 'flux': f, 'group_id': [1] * (len(x) - 1) + [2]})
    if kind == 'xyf*u':
        return QTable({'x': x, 'y': y, 'flux': np.array(f) * u.Jy})
    if kind == 'xyf+fwhm':      # initial values for the free shape parameter, all different from the model's 2.4
        return Table({'x': x, 'y': y, 'flux': f, 'fwhm': [3.1, 2.0, 2.9][:len(x)]})
    if kind == 'xy+fwhm':
        return Table({'x': x, 'y': y, 'fwhm': [2.0, 2.9, 3.1][:len(x)]})
    raise AssertionError(kind)


# (image, units?, mask?, error?, init kind or None -> finder)
PSF_CALLS = [
    ('A', False, False, False, 'xyf'),
    ('A', False, False, False, 'xyf+gid'),
    ('A', False, False, False, None),
    ('B', False, False, False, 'xyf'),
    ('A', True, False, False, 'xyf*u'),
    ('A', False, True, False, 'xyf'),
    ('A', False, False, False, 'xy'),
    ('A', False, False, False, 'off'),
    ('A', False, False, True, 'xyf'),
    ('A', False, False, False, 'xyf+lbkg'),
    ('Z', False, False, False, None),
    ('A', False, 'cover', False, 'xyf'),
    ('A', False, False, False, 'off+gid'),
    ('A', False, 'cover', False, 'xyf+gid'),
]
# exit classes of __call__ in the alphabet (measured per transition: counters psf_calls_exit_*):
#   normal result; 'Z' = the finder detects nothing -> None (early return after the per-call reset);
#   'off' = a source without overlap -> ValueError BEFORE anything is fitted (init_params not yet stored);
#   'cover' = the mask hides every pixel of the LAST source's fit box -> ValueError in the MIDDLE of the fit loop
#   (the first group is already fitted, per-call results half filled);
#   both raising requests x {without, with} a group_id column (the argument that makes a call ignore the grouper)
ITER_CALLS = [PSF_CALLS[i] for i in (0, 1, 2, 3, 5, 10, 7, 11, 12, 13)]
# calls of the configurations whose PSF model has a FREE shape parameter (fwhm.fixed = False): the init table
# {has, has not} a column for that parameter (a call without the column takes the initial value from the model
# given to the constructor) x {scene A, scene B} x {with, without flux column}, the finder, and every exit class
FREE_CALLS = [PSF_CALLS[i] for i in (0, 1, 2, 3, 10, 7, 11)] + [
    ('A', False, False, False, 'xyf+fwhm'),
    ('B', False, False, False, 'xyf+fwhm'),
    ('A', False, False, False, 'xy+fwhm'),
    ('A', False, False, False, 'xy'),
]
# Result-consuming requests: (method, include_localbkg, psf_shape).  They are requests of the history like any
# call, enabled once the history holds a __call__; each must equal what a fresh object reports after the LAST
# __call__ of the history and that single request (the rendered images are functions of the constructor
# arguments, the arguments of the last __call__ and their own arguments).
PSF_SHAPES = {'7x7': (7, 7), '5x9': (5, 9)}
PSF_RESULT_OPS = [('model', False, '7x7'), ('model', True, '7x7'), ('resid', False, '7x7'), ('resid', True, '7x7'),
                  ('model', False, '5x9'), ('model', True, '5x9')]
# read in this fixed order in every distinct state (invariant sweep), compared with a fresh object that was given
# the last __call__ and the same sweep: covers the result requests after histories of >= 2 calls in the quick tier
# (a render costs ~3 ms and the sweep runs in every distinct state: both methods and both flags once, the one
# that cannot have been influenced by the other first)
PSF_SWEEP = [('model', False, '7x7'), ('resid', True, '7x7')]
PSF_MAX_RESULT_OPS = 2      # result requests per history (a third one cannot see more than the second)
# constant sky added to every scene of the configurations with a local-background estimator: the estimated local
# backgrounds are then far from zero (about PSF_SKY, measured: counter psf_localbkg_nonzero_calls), so that an
# image rendered with and without them differs by ~PSF_SKY, not by the noise of a zero-mean annulus
PSF_SKY = 4.0
PSF_CONFIGS = [
    {'cls': 'PSFPhotometry', 'grouper': True, 'localbkg': False},
    {'cls': 'PSFPhotometry', 'grouper': False, 'localbkg': False},
    {'cls': 'PSFPhotometry', 'grouper': True, 'localbkg': True},
    {'cls': 'PSFPhotometry', 'grouper': False, 'localbkg': True},
    {'cls': 'IterativePSFPhotometry', 'grouper': True, 'localbkg': False, 'mode': 'new'},
    {'cls': 'IterativePSFPhotometry', 'grouper': False, 'localbkg': True, 'mode': 'new'},
    {'cls': 'IterativePSFPhotometry', 'grouper': True, 'localbkg': True, 'mode': 'all'},
    # 'free': the PSF model has a free parameter besides x, y, flux (fwhm.fixed = False);
    # 'xy_bounds': 'none' -> constructed without position bounds (all others: xy_bounds=(2, 2))
    {'cls': 'PSFPhotometry', 'grouper': False, 'localbkg': False, 'free': 'fwhm', 'xy_bounds': 'none'},
    {'cls': 'PSFPhotometry', 'grouper': True, 'localbkg': True, 'free': 'fwhm', 'xy_bounds': 'none'},
    {'cls': 'IterativePSFPhotometry', 'grouper': True, 'localbkg': False, 'mode': 'new', 'free': 'fwhm',
     'xy_bounds': 'none'},
]
# thorough tier: the remaining corners of {free shape parameter} x {position bounds}
PSF_CONFIGS_THOROUGH = PSF_CONFIGS + [
    {'cls': 'PSFPhotometry', 'grouper': False, 'localbkg': False, 'xy_bounds': 'none'},
    {'cls': 'PSFPhotometry', 'grouper': True, 'localbkg': False, 'free': 'fwhm'},
    # (mode 'all' requires a grouper)
    {'cls': 'IterativePSFPhotometry', 'grouper': True, 'localbkg': True, 'mode': 'all', 'xy_bounds': 'none'},
    {'cls': 'IterativePSFPhotometry', 'grouper': True, 'localbkg': True, 'mode': 'all', 'free': 'fwhm',
     'xy_bounds': 'none'},
]


def psf_configs(tier):
    return PSF_CONFIGS_THOROUGH if tier == 'thorough' else PSF_CONFIGS


class PsfSystem(CallSystem):
    # deterministic single-threaded fits on identical inputs are bit-identical on the unchanged tree (measured);
    # rtol 1e-9 only forgives re-associated floating point sums, while any leaked state (another grouping, init
    # table, mask, unit, background) moves fitted values by >> 1e-6.  atol covers qfit/cfit/err values near zero.
    rtol = 1e-9
    atol = 1e-9

    def __init__(self, cfg, seed, call_depth=2, result_after_calls=1):
        super().__init__()
        self.cfg = cfg
        self.seed = seed
        self.name = cfg['cls']
        self.call_depth = call_depth
        self.result_after_calls = result_after_calls
        self._fresh_obj = {}

    def make(self):
        from photutils.background import LocalBackground
        from photutils.detection import DAOStarFinder
        from photutils.psf import CircularGaussianPRF, IterativePSFPhotometry, PSFPhotometry, SourceGrouper
        c = self.cfg
        psf = CircularGaussianPRF(fwhm=2.4)
        if c.get('free') == 'fwhm':
            psf.fwhm.fixed = False
        kw = dict(finder=DAOStarFinder(6.0, 2.4), grouper=SourceGrouper(5.0) if c['grouper'] else None,
                  localbkg_estimator=LocalBackground(4.0, 7.0, _median_background()) if c['localbkg'] else None,
                  aperture_radius=3.0, xy_bounds=None if c.get('xy_bounds') == 'none' else (2.0, 2.0))
        if c['cls'] == 'PSFPhotometry':
            return PSFPhotometry(psf, (5, 5), **kw)
        return IterativePSFPhotometry(psf, (5, 5), maxiters=2, mode=c['mode'], sub_shape=(7, 7), **kw)

    def calls(self):
        if self.cfg.get('free'):
            base = FREE_CALLS
        else:
            base = PSF_CALLS if self.cfg['cls'] == 'PSFPhotometry' else ITER_CALLS
        return [('call',) + c for c in base]

    def ops(self, st):
        """calls while the history holds fewer than ``call_depth`` of them; the result-consuming requests once it
        holds 1..``result_after_calls`` calls (histories of more calls: invariant sweep) and fewer than
        PSF_MAX_RESULT_OPS of them"""
        hist = st.hist if st is not None else []
        ncall = sum(1 for h in hist if h[0] == 'call')
        nres = len(hist) - ncall
        out = []
        if ncall < self.call_depth:
            out += self.calls()
        if 1 <= ncall <= self.result_after_calls and nres < PSF_MAX_RESULT_OPS:
            out += list(PSF_RESULT_OPS)
        return out

    def opname(self, op):
        return {'call': '__call__', 'model': 'make_model_image', 'resid': 'make_residual_image'}[op[0]]

    def expected_invalid(self, op):
        # a source without overlap with the image / a completely masked source: documented ValueErrors
        return op[5] in ('off', 'off+gid') or op[3] == 'cover'

    def is_empty(self, op, obs):
        return obs['table'] is None        # the finder detected nothing: __call__ returns None

    def _core(self, obj):
        return obj if self.cfg['cls'] == 'PSFPhotometry' else obj._psfphot

    def owner(self, attr):
        return self.name if attr in ('maxiters', 'mode', 'sub_shape') else 'PSFPhotometry'

    def config(self, obj):
        p = self._core(obj)
        # psf_model: snapshot.digest of an astropy Model = class + every parameter's VALUE, fixed flag, bounds and
        # tie (not the identity): a call that writes initial or fitted values into the constructor's model is a
        # configuration change
        out = {'grouper': vars(p.grouper) if p.grouper is not None else None,
               'finder': {k: v for k, v in vars(p.finder).items()} if p.finder is not None else None,
               'fit_shape': p.fit_shape, 'xy_bounds': p.xy_bounds, 'aperture_radius': p.aperture_radius,
               'fitter_maxiters': p.fitter_maxiters, 'fitter': type(p.fitter).__name__,
               'psf_model': p.psf_model, 'progress_bar': p.progress_bar,
               'localbkg_estimator': (None if p.localbkg_estimator is None else
                                      p.localbkg_estimator)}
        if p is not obj:
            out.update({'maxiters': obj.maxiters, 'mode': obj.mode, 'sub_shape': obj.sub_shape})
        return out

    def inputs(self, op):
        """fresh copies of the arguments of one __call__ request"""
        import astropy.units as u
        _, which, units, mask, error, init = op
        img, _ = _psf_scene(self.seed, which)
        if self.cfg['localbkg']:
            img = img + PSF_SKY
        shape = img.shape
        m = None
        if mask:
            m = np.zeros(shape, bool)
            m[9, 8] = True
            m[17:19, 19] = True
            if mask == 'cover':        # the whole 5x5 fit box of the isolated star at (19.2, 17.7) -> init (19.5, 17.5)
                m[14:22, 16:24] = True
        e = np.full(shape, 0.5) + 0.01 * (np.arange(shape[1]) % 3) if error else None
        data = img * u.Jy if units else img
        if e is not None and units:
            e = e * u.Jy
        ip = _psf_init(self.seed, which, init) if init else None
        return data, m, e, ip

    def do(self, obj, op):
        data, m, e, ip = self.inputs(op)
        tbl = obj(data, mask=m, error=e, init_params=ip)
        core = self._core(obj)
        obs = {'table': tbl, 'init_params': core.init_params, 'fit_params': core.fit_params,
               'finder_results': core.finder_results, 'data_unit': str(core.data_unit),
               'fit_info_keys': sorted(core.fit_info) if isinstance(core.fit_info, dict) else None,
               'fit_param_errs': core.fit_info.get('fit_param_errs') if isinstance(core.fit_info, dict) else None}
        if core is not obj:
            obs['n_fit_results'] = len(obj.fit_results)
        return obs

    # ---- result-consuming requests ------------------------------------------------------------------------
    @staticmethod
    def last_call(hist):
        for h in reversed(hist):
            if h[0] == 'call':
                return tuple(h)
        return None

    def do_result(self, obj, op, last):
        kind, incl, shp = op
        data = self.inputs(last)[0]
        if kind == 'model':
            return obj.make_model_image(data.shape, psf_shape=PSF_SHAPES[shp], include_localbkg=bool(incl))
        return obj.make_residual_image(data, psf_shape=PSF_SHAPES[shp], include_localbkg=bool(incl))

    def fresh(self, op):
        k = repr(op)
        if k not in self._fresh:
            obj = self.make()
            self._fresh[k] = observe(lambda: self.do(obj, op))
            self._fresh_obj[k] = obj        # the fresh object after exactly this call: used once, by fresh_sweep
        return self._fresh[k]

    def fresh_result(self, last, op):
        """what a fresh object reports for ``op`` straight after the call ``last``"""
        k = repr((last, op))
        if k not in self._fresh:
            obj = self.make()
            observe(lambda: self.do(obj, last))
            self._fresh[k] = observe(lambda: self.do_result(obj, op, last))
        return self._fresh[k]

    def sweep(self, obj, last):
        return [observe(lambda r=r: self.do_result(obj, r, last)) for r in PSF_SWEEP]

    def fresh_sweep(self, last):
        k = repr((last, 'sweep'))
        if k not in self._fresh:
            self.fresh(last)
            obj = self._fresh_obj.pop(repr(last), None)
            if obj is None:
                obj = self.make()
                observe(lambda: self.do(obj, last))
            self._fresh[k] = self.sweep(obj, last)
        return self._fresh[k]

    def _report_config(self, st, op, dirty_before, report, otag=''):
        for k in self.dirty(st.obj):
            if k not in dirty_before:
                report('config-changed', f'{self.owner(k)}.{k}' + (f':after-{otag}' if otag else ''),
                       short(self.config(st.obj)[k], 200), 'the value given to the constructor',
                       f'{self.opname(op)} changed the configuration attribute {k!r} of the instance')

    def apply(self, st, op, report):
        op = tuple(op) if isinstance(op, list) else op
        if op[0] == 'call':
            ok = super().apply(st, op, report)
            exp = self.fresh(op)
            if not isinstance(exp, Raised) and exp['table'] is not None and self.cfg['localbkg']:
                lb = np.asarray(getattr(exp['init_params']['local_bkg'], 'value', exp['init_params']['local_bkg']))
                if np.all(np.abs(lb) > 0.5 * PSF_SKY):
                    self.counters['localbkg_nonzero_calls'] = self.counters.get('localbkg_nonzero_calls', 0) + 1
            return ok
        last = self.last_call(st.hist)
        dirty_before = self.dirty(st.obj)
        obs = observe(lambda: self.do_result(st.obj, op, last))
        first_hand = tuple(st.hist) == (last,)
        st.hist.append(op)
        k = repr((last, op))
        if first_hand and k not in self._fresh:
            # the history is exactly [call, request] on a freshly built object: this IS the fresh observation
            self._fresh[k] = obs
        exp = self.fresh_result(last, op)
        self.counters['result_requests'] = self.counters.get('result_requests', 0) + 1
        if isinstance(exp, Raised):     # no results to render (the last call raised or detected nothing)
            self.counters['result_requests_without_results'] = self.counters.get('result_requests_without_results', 0) + 1
        st.aux['prev_exit'] = ''
        c = compare(obs, exp, self.rtol, self.atol)
        if c:
            report('call-' + c[0], self.site(op, dirty_before), short(obs, 300), short(exp, 300),
                   c[1] + f' [oracle: fresh object, {last}, then {op}]')
        self._report_config(st, op, dirty_before, report)
        return True

    def invariant(self, st, report):
        last = self.last_call(st.hist)
        if last is None:
            return
        dirty_before = self.dirty(st.obj)
        obs = self.sweep(st.obj, last)
        exp = self.fresh_sweep(last)
        for r, o, e in zip(PSF_SWEEP, obs, exp):
            c = compare(o, e, self.rtol, self.atol)
            if c:
                report('call-' + c[0], self.site(r, dirty_before), short(o, 300), short(e, 300),
                       c[1] + f' [invariant sweep {PSF_SWEEP} after {list(st.hist)}; oracle: fresh object, {last}, '
                       'then the same sweep]')
                break
        for k in self.dirty(st.obj):
            if k not in dirty_before:
                report('config-changed', f'{self.owner(k)}.{k}', short(self.config(st.obj)[k], 200),
                       'the value given to the constructor',
                       f'make_model_image / make_residual_image (sweep {PSF_SWEEP}) changed the configuration '
                       f'attribute {k!r} of the instance')

    def nontrivial(self, hist):
        # [call, result request] alone is the fresh observation itself
        return len(hist) >= 2 and not (len(hist) == 2 and hist[1][0] != 'call')


# =========================================================================== star finders
def _sf_scene(seed, which):
    rng = np.random.default_rng(5000 + seed + {'A': 0, 'B': 1, 'Z': 2, 'H': 3}[which])
    shape = {'A': (31, 33), 'B': (27, 24), 'Z': (31, 33), 'H': (27, 24)}[which]
    src = {'A': [(8.3, 9.1, 90.0), (20.6, 12.4, 60.0), (15.2, 23.7, 70.0)], 'B': [(6.4, 7.2, 80.0), (16.9, 18.1, 50.0)],
           'Z': [], 'H': []}[which]
    yy, xx = np.mgrid[0:shape[0], 0:shape[1]]
    img = rng.normal(0.0, 0.3, shape)
    for x, y, a in src:
        img += a * np.exp(-((xx - x) ** 2 + (yy - y) ** 2) / (2 * 1.3 ** 2))
    if which == 'H':        # two single hot pixels: detected as peaks, rejected by the sharpness criterion
        img[9, 8] += 400.0
        img[17, 15] += 300.0
    return img


# (image, mask?, units?): a finder configured without units accepts only the unit-less calls and vice versa
# (the others are documented validation errors, kept in the alphabet because a failed call must not poison later ones)
# Exit classes (measured: counters finder_calls_exit_*): a table; None because nothing is above the threshold
# ('Z': return before a catalogue exists); None because every detected peak fails the sharpness/roundness cuts
# ('H': return after the catalogue was built and filtered); an exception (unit mismatch: raised before anything
# is computed; mask of the wrong shape 'badshape': raised in the middle of the peak search).
SF_CALLS = [('A', False, False), ('B', False, False), ('A', True, False), ('Z', False, False),
            ('A', False, True), ('B', False, True), ('Z', False, True), ('A', True, True),
            ('H', False, False), ('H', False, True), ('A', 'badshape', False), ('A', 'badshape', True)]
SF_CONFIGS = [{'cls': 'DAOStarFinder', 'units': False}, {'cls': 'IRAFStarFinder', 'units': False},
              {'cls': 'StarFinder', 'units': False}, {'cls': 'DAOStarFinder', 'units': True},
              {'cls': 'StarFinder', 'units': True}, {'cls': 'DAOStarFinder', 'units': False, 'brightest': 2},
              # peakmax below the hot pixels of 'H' (StarFinder has no sharpness cut: this is its
              # 'sources were found, but none pass' exit), above every star of 'A' and 'B'
              {'cls': 'StarFinder', 'units': False, 'peakmax': 200.0}]


class FinderSystem(CallSystem):
    def __init__(self, cfg, seed):
        super().__init__()
        self.cfg = cfg
        self.seed = seed
        self.name = cfg['cls']

    def make(self):
        import astropy.units as u
        import photutils.detection as pd
        c = self.cfg
        thr = 5.0 * u.Jy if c['units'] else 5.0
        if c['cls'] == 'StarFinder':
            yy, xx = np.mgrid[0:7, 0:7]
            kern = 3.0 * np.exp(-((xx - 3) ** 2 + (yy - 3) ** 2) / (2 * 1.3 ** 2))    # max != 1
            return pd.StarFinder(thr, kern, min_separation=3.0, peakmax=c.get('peakmax'))
        kw = {'brightest': c['brightest']} if c.get('brightest') else {}
        return getattr(pd, c['cls'])(thr, 3.0, **kw)

    def calls(self):
        return [('find',) + c for c in SF_CALLS] + [('find_stars', 'A', False, False)]

    def opname(self, op):
        return '__call__' if op[0] == 'find' else 'find_stars'

    def expected_invalid(self, op):
        # threshold and data must both have units or neither; the mask must have the shape of the data
        return bool(op[3]) != bool(self.cfg['units']) or op[2] == 'badshape'

    def config(self, obj):
        return {k: (vars(v) if type(v).__name__ == '_StarFinderKernel' else v) for k, v in vars(obj).items()}

    def do(self, obj, op):
        import astropy.units as u
        kind, which, mask, units = op
        img = _sf_scene(self.seed, which)
        m = None
        if mask:
            m = np.zeros(img.shape, bool)
            m[7:11, 7:11] = True
            if mask == 'badshape':
                m = m[:-2, :-3].copy()
        data = img * u.Jy if units else img
        return obj(data, mask=m) if kind == 'find' else obj.find_stars(data, mask=m)


# =========================================================================== Ellipse
def _galaxy(seed):
    rng = np.random.default_rng(6000 + seed)
    yy, xx = np.mgrid[0:64, 0:64]
    x0, y0, eps, pa = 32.3, 30.6, 0.35, 0.6
    dx, dy = xx - x0, yy - y0
    x = dx * np.cos(pa) + dy * np.sin(pa)
    y = -dx * np.sin(pa) + dy * np.cos(pa)
    r = np.sqrt(x ** 2 + (y / (1 - eps)) ** 2)
    return 1000.0 * np.exp(-r / 7.0) + rng.normal(0, 0.5, (64, 64))


# Call alphabet of Ellipse = (exit path of fit_image) x (per-call override of the geometry settings) + fit_isophote.
# fit_image saves geometry.linear_growth / geometry.fix, overrides them from its arguments and has FOUR ways out:
# the normal end, the early return 'Everything is fixed', the early return 'No meaningful fit was possible'
# (first isophote not fittable) and an exception from inside the fit loop.  Every override is combined with
# every way out; which way a call really takes is measured on the fresh object (counters ellipse_calls_exit_*).
ELL_PATHS = {
    'fit': {},                          # normal fit from the geometry's sma
    'fit6': {'sma0': 6.0},              # normal fit from another starting sma
    'nofit': {'sma0': 40.0},            # most of the first ellipse is off the 64x64 frame: 'No meaningful fit' -> []
    'raise': {'integrmode': 'bogus'},   # not one of the documented integration modes: raises at the first sample
}
ELL_OVERRIDES = {
    'none': {},
    'fix_center': {'fix_center': True},
    'linear': {'linear': True},
    'geometric': {'linear': False},     # a real override for the geometry constructed with linear_growth=True
    'fix_pa+eps': {'fix_pa': True, 'fix_eps': True},
    'fix_all': {'fix_center': True, 'fix_pa': True, 'fix_eps': True},        # 'Everything is fixed' -> []
    'fix_all+linear': {'fix_center': True, 'fix_pa': True, 'fix_eps': True, 'linear': True},
}
ELL_ISOPHOTE = [{'sma': 9.0}, {'sma': 0.0}, {'sma': 9.0, 'integrmode': 'bogus'}]
# geometry given to the constructor: 'default' settings (nothing fixed, geometric growth), 'preset' = centre fixed
# and linear growth set IN THE GEOMETRY (a restore to the default values instead of the saved ones is only visible
# here), 'auto' = no geometry argument (thorough tier)
ELL_GEOMETRIES = {'quick': ['default', 'preset'], 'thorough': ['default', 'preset', 'auto']}


def ell_calls():
    out = [('fit_image', p, o) for p in ELL_PATHS for o in ELL_OVERRIDES]
    return out + [('fit_isophote', tuple(sorted(kw.items()))) for kw in ELL_ISOPHOTE]


class EllipseSystem(CallSystem):
    # identical deterministic arithmetic; rtol as for the PSF fits (see PsfSystem)
    rtol = 1e-9
    atol = 1e-9

    def __init__(self, cfg, seed):
        super().__init__()
        self.cfg = cfg
        self.seed = seed
        self.name = 'Ellipse'
        self.geometry = {True: 'default', False: 'auto'}.get(cfg.get('geometry', 'default'), cfg.get('geometry', 'default'))

    def make(self):
        from photutils.isophote import Ellipse, EllipseGeometry
        img = _galaxy(self.seed)
        if self.geometry == 'default':
            return Ellipse(img, EllipseGeometry(32.0, 31.0, 8.0, 0.25, 0.7))
        if self.geometry == 'preset':
            return Ellipse(img, EllipseGeometry(32.0, 31.0, 8.0, 0.25, 0.7, linear_growth=True, fix_center=True))
        return Ellipse(img)

    def calls(self):
        return ell_calls()

    def opname(self, op):
        return op[0]

    def expected_invalid(self, op):
        # integrmode outside the documented set {'bilinear', 'nearest_neighbor', 'mean', 'median'}; with all of
        # centre, pa and eps fixed fit_image returns before the mode is ever looked at
        if op[0] == 'fit_image':
            return op[1] == 'raise' and not op[2].startswith('fix_all')
        return any(k == 'integrmode' for k, _ in op[1])

    def is_empty(self, op, obs):
        return op[0] == 'fit_image' and obs['n'] == 0

    def exit_tag(self, op, obs):
        tag = super().exit_tag(op, obs)
        if tag == 'empty-result':
            return 'everything-fixed' if op[2].startswith('fix_all') else 'no-meaningful-fit'
        return tag

    def config(self, obj):
        g = obj._geometry
        return {'geometry.' + k: getattr(g, k) for k in ('x0', 'y0', 'sma', 'eps', 'pa', 'fix', 'linear_growth', 'astep',
                                                           'centerer_threshold')}

    def do(self, obj, op):
        if op[0] == 'fit_image':
            kw = dict(ELL_PATHS[op[1]], **ELL_OVERRIDES[op[2]])
            # step: 1.5 pixel when the growth is linear for this call (argument, else the geometry's setting),
            # else the relative default 0.1 (keeps every normal fit at 9-30 isophotes)
            lin = kw.get('linear', self.geometry == 'preset')
            iso = obj.fit_image(maxsma=18.0, minsma=2.0, step=1.5 if lin else 0.1, **kw)
            t = iso.to_table() if len(iso) else None
            return {'n': len(iso), 'table': t}
        iso = obj.fit_isophote(**dict(op[1]))
        return {'vals': [iso.sma, iso.intens, iso.eps, iso.pa, iso.x0, iso.y0, iso.stop_code, iso.niter]}


# =========================================================================== LocalBackground
# 'off': the annulus has no overlap with the image (empty sample); 'mismatch': x and y of different lengths
# (raises before the aperture positions are touched); ('s', 'badshape'): mask of the wrong shape (raises AFTER
# the positions of the internal aperture were re-assigned)
LB_CALLS = [('s', False), ('two', False), ('three', False), ('s', True), ('edge', False), ('two', True),
            ('off', False), ('mismatch', False), ('s', 'badshape')]


class LocalBkgSystem(CallSystem):
    def __init__(self, cfg, seed):
        super().__init__()
        self.seed = seed
        self.name = 'LocalBackground'

    def make(self):
        from photutils.background import LocalBackground
        return LocalBackground(3.0, 6.0, _median_background())

    def calls(self):
        return [('call',) + c for c in LB_CALLS]

    def opname(self, op):
        return '__call__'

    def expected_invalid(self, op):
        return op[1] == 'mismatch' or op[2] == 'badshape'

    def is_empty(self, op, obs):
        return bool(np.all(np.isnan(obs)))       # no pixel to estimate from

    def config(self, obj):
        return {k: v for k, v in vars(obj).items() if k != '_aperture'}

    def do(self, obj, op):
        _, pos, mask = op
        rng = np.random.default_rng(7000 + self.seed)
        img = rng.normal(5.0, 1.0, (21, 23)) + np.add.outer(np.arange(21.0), np.arange(23.0)) * 0.1
        x, y = {'s': (10.3, 9.6), 'two': ([10.3, 4.0], [9.6, 15.2]), 'three': ([10.3, 4.0, 18.1], [9.6, 15.2, 3.3]),
                'edge': (1.0, 19.5), 'off': (-30.0, 50.0), 'mismatch': ([10.3, 4.0], [9.6])}[pos]
        m = None
        if mask:
            m = np.zeros(img.shape, bool)
            m[5:12, 14:17] = True
            if mask == 'badshape':
                m = m[:-1, :-2].copy()
        return obj(img, x, y, mask=m)


# =========================================================================== GriddedPSFModel
# 3 x 3 reference grid (x, y in {0, 10, 20}): a position in every row and column of cells, one on a grid node,
# one outside the grid -- a cache keyed by anything less than the full (x, y) grid position is history dependent
GP_POS = [(3.0, 4.0), (3.0, 14.0), (12.5, 7.0), (12.5, 17.0), (10.0, 10.0), (25.0, -3.0)]


class GriddedSystem(CallSystem):
    def __init__(self, cfg, seed):
        super().__init__()
        self.seed = seed
        self.name = 'GriddedPSFModel'

    def make(self):
        from astropy.nddata import NDData
        from photutils.psf import GriddedPSFModel
        rng = np.random.default_rng(8000 + self.seed)
        yy, xx = np.mgrid[0:13, 0:13]
        psfs = []
        grid = [(x, y) for y in (0, 10, 20) for x in (0, 10, 20)]
        for i, _ in enumerate(grid):
            s = 1.5 + 0.3 * i
            p = np.exp(-((xx - 6) ** 2 + (yy - 6) ** 2) / (2 * s * s)) + 0.01 * rng.random((13, 13))
            psfs.append(p / p.sum())
        nd = NDData(np.array(psfs), meta={'grid_xypos': grid, 'oversampling': 2})
        return GriddedPSFModel(nd)

    def calls(self):
        # exceptional exits: ('set_oversampling', 0) is rejected by the setter (the factor in force must survive);
        # ('eval_badshape', 2) asks for x and y arrays that cannot be broadcast (raises inside evaluate, after the
        # interpolator cache may already have been filled for that grid cell)
        return [('eval', i) for i in range(len(GP_POS))] + [('eval_copy', 1), ('set_oversampling', 1), ('set_oversampling', 2),
                                                            ('eval_deepcopy', 3), ('set_oversampling', 0),
                                                            ('eval_badshape', 2)]

    def opname(self, op):
        return op[0]

    def config(self, obj):
        return {'data': obj.data, 'grid_xypos': obj.grid_xypos, 'fill_value': obj.fill_value}

    def canon(self, st):
        # an astropy Model keeps Parameter/bounding-box helper objects in __dict__ that the digester cannot
        # name; its state is: parameter values + data/grid/oversampling (snapshot.digest of a Model) + the
        # interpolator cache (keys and spline coefficients) + the cached lazy attributes
        obj = st.obj
        d = vars(obj)
        return state_key({'model': obj, 'interp': {repr(k): v for k, v in d.get('_interpolator', {}).items()},
                          'origin': d.get('origin'), 'xyidx': d.get('_interp_xyidx'),
                          'oversampling': d.get('_oversampling')}, st.hist)

    def apply(self, st, op, report):
        op = tuple(op)
        if op[0] == 'set_oversampling':
            r = observe(lambda: setattr(st.obj, 'oversampling', op[1]))
            st.hist.append(op)
            f = self.fresh_set(op[1])
            if isinstance(f, Raised):        # documented validation (factor must be > 0): nothing may change
                self.counters['validation_error_calls'] += 1
                self.counters['calls_exit_raised'] = self.counters.get('calls_exit_raised', 0) + 1
                c = compare(r, f)
                if c:
                    report('setter-' + c[0], 'GriddedPSFModel.oversampling:invalid', repr(r), repr(f), c[1])
                    return False
                return True
            if isinstance(r, Raised):
                report('setter-raises', 'GriddedPSFModel.oversampling', repr(r), 'no exception')
                return False
            st.aux['os'] = op[1]
            return True
        os_ = st.aux.get('os', 2)
        dirty_before = self.dirty(st.obj)
        obs = observe(lambda: self.do(st.obj, op + (os_,)))
        st.hist.append(op)
        exp = self.fresh(op + (os_,))
        self.counters['calls'] += 1
        tally_fresh(self, exp, op[0] == 'eval_badshape', op)
        ck = 'calls_exit_' + (self.exit_tag(op, exp) or 'normal')
        self.counters[ck] = self.counters.get(ck, 0) + 1
        c = compare(obs, exp)       # bit-exact: same spline coefficients, same arithmetic
        if c:
            report('call-' + c[0], self.site(op, dirty_before), short(obs, 300), short(exp, 300), c[1])
        return True

    def fresh_set(self, value):
        k = ('set', value)
        if k not in self._fresh:
            obj = self.make()
            self._fresh[k] = observe(lambda: setattr(obj, 'oversampling', value))
        return self._fresh[k]

    def do(self, obj, op):
        kind, i, os_ = op
        if os_ != 2:
            obj.oversampling = os_
        x0, y0 = GP_POS[i]
        yy, xx = np.mgrid[0:9, 0:9]
        xx = xx + int(x0) - 4.0
        yy = yy + int(y0) - 4.0
        if kind == 'eval_badshape':
            yy = yy[:-1, :-2]
        m = obj
        if kind == 'eval_copy':
            m = obj.copy()
        elif kind == 'eval_deepcopy':
            m = obj.deepcopy()
        return m.evaluate(xx, yy, 3.0, x0, y0)


# =========================================================================== plan / run / replay
SYSTEMS = {'bkg': BkgSystem, 'aperture': ApSystem, 'profile': ProfSystem, 'psf': PsfSystem, 'finder': FinderSystem,
           'ellipse': EllipseSystem, 'localbkg': LocalBkgSystem, 'gridded': GriddedSystem}


PSF_CALL_DEPTH = {'quick': 2, 'thorough': 3}
PSF_RESULT_AFTER = {'quick': 1, 'thorough': 2}      # result requests are enabled while the history holds <= this many calls


def make_system(kind, cfg, seed, tier='quick'):
    if kind == 'aperture':
        return ApSystem(cfg['cls'], seed, ctor=cfg.get('ctor', 'list'))
    if kind == 'psf':
        return PsfSystem(cfg, seed, call_depth=PSF_CALL_DEPTH[tier], result_after_calls=PSF_RESULT_AFTER[tier])
    return SYSTEMS[kind](cfg, seed)



def depth_of(kind, cfg, tier):
    """depth bound in requests (measured cost in the module report; Background2D runs to its fixpoint)"""
    th = tier == 'thorough'
    return {'bkg': BKG_DEPTH,
            # constructor given an ndarray: one request less (on a tree that copies the positions it reaches
            # exactly the states of the list constructor, which are explored to the full depth)
            'aperture': (4 if th else 2) if (cfg or {}).get('ctor') == 'ndarray' else (5 if th else 3),
            'profile': 6 if th else 4,
            # __call__ requests per history + the result-consuming requests that may follow the first call
            'psf': PSF_CALL_DEPTH[tier] + PSF_MAX_RESULT_OPS,
            'finder': 4 if th else 3,
            'ellipse': 2,          # a fit costs 0.3-10 s; the thorough tier widens the call alphabet instead
            'localbkg': 5 if th else 3,
            'gridded': 5 if th else 3}[kind]


def all_systems(tier):
    out = [('bkg', c) for c in bkg_configs(tier)]
    out += [('aperture', {'cls': c}) for c in AP_CLASSES]
    out += [('aperture', {'cls': c, 'ctor': 'ndarray'}) for c in AP_CLASSES]
    out += [('profile', c) for c in PROF_CONFIGS]
    out += [('psf', c) for c in psf_configs(tier)]
    out += [('finder', c) for c in SF_CONFIGS]
    out += [('ellipse', {'geometry': g}) for g in ELL_GEOMETRIES[tier]]
    out += [('localbkg', {}), ('gridded', {})]
    return out


# rough relative cost of one unit, used only to start the slow units first
_COST = {'psf': 100, 'ellipse': 90, 'profile': 50, 'aperture': 40, 'bkg': 5, 'finder': 3, 'localbkg': 2, 'gridded': 2}


def plan(tier, seed):
    units = []
    for kind, cfg in all_systems(tier):
        depth = depth_of(kind, cfg, tier)
        if kind == 'bkg':
            units.append({'kind': kind, 'cfg': cfg, 'depth': depth, 'first': None})
            continue
        sysm = make_system(kind, cfg, seed, tier)
        if kind in ('psf', 'ellipse', 'profile', 'aperture'):
            n = len(_static_ops(sysm))
            for i in range(n):
                units.append({'kind': kind, 'cfg': cfg, 'depth': depth, 'first': [i]})
        else:
            units.append({'kind': kind, 'cfg': cfg, 'depth': depth, 'first': None})
    units.sort(key=lambda u: -_COST[u['kind']])
    return units


def _static_ops(sysm):
    """op menu of the initial state without constructing the real object where possible"""
    if isinstance(sysm, CallSystem):
        return sysm.calls()
    return sysm.ops(None)


def run_unit(unit, tier, seed):
    acc = Acc()
    kind, cfg = unit['kind'], unit['cfg']
    sysm = make_system(kind, cfg, seed, tier)
    extra = {'sys': kind, 'cfg': cfg}
    first = unit['first']
    if kind == 'bkg':
        probe = observe(sysm.make)
        if isinstance(probe, Raised):      # documented constructor validation: not a history question
            acc.skip(f'Background2D constructor rejects the configuration ({probe.type})')
            return acc
    seen = explore(sysm, unit['depth'], acc, first_ops=first, extra=extra,
                   root_check=(first is None or first[0] == 0))
    if kind == 'bkg':
        longest = max(len(h) for h in seen.values())
        if longest >= unit['depth']:      # some state was not expanded: not a fixpoint
            acc.capped = True
            acc.notes.append(f'Background2D {cfg}: depth {unit["depth"]} reached before the fixpoint')
        acc.counters['bkg_fixpoints'] += 1
        acc.counters[f'bkg_fixpoint_longest_history_{longest}'] += 1
        if sysm.selective():
            acc.counters['bkg_configs_selective_filter_partial'] += 1
    for k, v in getattr(sysm, 'counters', {}).items():
        acc.counters[f'{kind}_{k}'] += v
    nval = sysm.counters.get('validation_error_calls', 0)
    if nval:
        acc.skipped['request is a documented validation error on a fresh object too (compared by exception type)'] += nval
    nunx = sysm.counters.get('unexpected_fresh_raises', 0)
    if nunx:
        # not a history question (C09 is silent about it) but the comparison was vacuous: say so
        acc.skipped['request raises on a FRESH object although the alphabet expects it to be valid'] += nunx
        acc.notes += sorted(getattr(sysm, 'fresh_raise_notes', ()))[:5]
    _shrink_violations(sysm, acc, extra)
    return acc


def _run_hist(sysm, hist, extra):
    """Execute ONE history (no explorer): violations of its last request + invariant sweep of the state."""
    acc = Acc()
    if hist:
        st, usable = build(sysm, hist, acc, extra)
    else:
        st, usable = sysm.initial(), True
    if usable:
        sysm.invariant(st, _mk_report(acc, sysm, hist, extra))
    return acc


def _shrink_violations(sysm, acc, extra):
    """The units are sharded by first request, so the first history reported for a key may carry an
    irrelevant leading request.  For the first violation of every key: greedily delete requests while the
    same key is still reported by a plain re-execution; the shrunk case is put in front."""
    firsts = {}
    for v in acc.violations:
        firsts.setdefault(v['key'], v)
    shrunk = []
    for key, v in firsts.items():
        hist = _tup(v['case']['history'])
        best = None
        changed = True
        while changed and len(hist) > 1:
            changed = False
            for i in range(len(hist)):
                cand = hist[:i] + hist[i + 1:]
                try:
                    a2 = _run_hist(sysm, cand, extra)
                except Exception:        # a shrunk prefix may be unusable: keep the longer history
                    continue
                m = [w for w in a2.violations if w['key'] == key]
                if m:
                    hist, best, changed = cand, m[0], True
                    break
        if best is not None:
            shrunk.append(best)
    if shrunk:
        acc.violations = shrunk + acc.violations

def _tup(x):
    return tuple(_tup(v) for v in x) if isinstance(x, (list, tuple)) else x


def replay(case, seed):
    sysm = make_system(case['sys'], case['cfg'], seed)
    extra = {k: v for k, v in case.items() if k != 'history'}
    return _run_hist(sysm, _tup(case['history']), extra)


def describe(tier, seed):
    return {
        'systems': {
            'Background2D': {'configs': len(bkg_configs(tier)), 'frames': BKG_FRAMES[tier],
                             'axes': {k: len(v) for k, v in BKG_AXES.items()},
                             'reads': BKG_READS, 'bound': 'fixpoint of the reachable cache states (depth cap %d)' % BKG_DEPTH},
            'apertures': {'classes': list(AP_CLASSES), 'positions': 3, 'values_per_attribute': 2, 'reads': AP_READS,
                          'positions_representations': AP_REPS,
                          'constructor_representations': {r: depth_of('aperture', {'ctor': r}, tier) for r in AP_REPS},
                          'caller_in_place_writes_into_positions_container': AP_CALLER_WRITES,
                          'rejected_assignments': ['positions = three numbers', 'first shape attribute = -1'],
                          'depth': depth_of('aperture', None, tier)},
            'profiles': {'configs': PROF_CONFIGS, 'mutators': ['normalize(max)', 'normalize(sum)', 'unnormalize()',
                                                               'normalize(bogus) -> ValueError'],
                         'depth': depth_of('profile', None, tier)},
            'psf': {'configs': psf_configs(tier), 'calls': PSF_CALLS, 'iterative_calls': ITER_CALLS,
                    'free_shape_parameter_calls': FREE_CALLS,
                    'result_requests': PSF_RESULT_OPS, 'result_requests_per_history': PSF_MAX_RESULT_OPS,
                    'result_requests_enabled_while_calls_in_history_at_most': PSF_RESULT_AFTER[tier],
                    'result_sweep_in_every_state': PSF_SWEEP, 'sky_of_localbkg_configs': PSF_SKY,
                    'calls_per_history': PSF_CALL_DEPTH[tier],
                    'exceptional_calls': ['Z: finder detects nothing -> None',
                                          'off / off+gid: source without overlap -> ValueError before any fit',
                                          'cover x {xyf, xyf+gid}: last source completely masked -> ValueError inside '
                                          'the fit loop'],
                    'depth': depth_of('psf', None, tier)},
            'finders': {'configs': SF_CONFIGS, 'calls': SF_CALLS + [('find_stars', 'A', False, False)],
                        'exceptional_calls': ['Z: nothing above threshold -> None', 'H: detections all rejected -> None',
                                              'unit mismatch -> ValueError', 'badshape mask -> ValueError'],
                        'depth': depth_of('finder', None, tier)},
            'ellipse': {'geometries': ELL_GEOMETRIES[tier], 'fit_image_exit_paths': ELL_PATHS,
                        'fit_image_overrides': ELL_OVERRIDES, 'fit_isophote': ELL_ISOPHOTE,
                        'calls': len(ell_calls()), 'depth': depth_of('ellipse', None, tier)},
            'localbkg': {'calls': LB_CALLS, 'depth': depth_of('localbkg', None, tier)},
            'gridded': {'positions': GP_POS, 'depth': depth_of('gridded', None, tier)},
        }}
