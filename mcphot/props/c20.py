"""C20 -- isophote fitting recovers the geometry of elliptical light distributions.

Shape (C): a finite lattice of noise-free galaxies x initial geometries x fit
options, enumerated completely as a union of full Cartesian products ("blocks",
see ``BLOCKS``).  Every lattice point builds a fresh image, a fresh
``EllipseGeometry`` and a fresh ``Ellipse`` and runs the real
``Ellipse.fit_image`` once.  The oracle is the analytic galaxy itself (centre,
ellipticity, position angle and radial law are the *inputs* of the renderer
below, which shares no code with photutils) plus the documented construction
of the semi-major-axis sequence.

A second, cheap space decides the ``EllipseGeometry.to_polar`` twin
(scalar / vectorised) on ALL integer points of a 9x9 window x 24 geometries.

Sizes / measured cost (user+sys): quick 344 lattice points = 28 of the block 'dtype' (see below; + 24 float64 twins, 75 CPU-s) + 316 lattice points (220 + 64 'start' / 'growth-via-geometry'
on the 81x101 frame, 7 of them not run: inadmissible start; + 32 of the block 'area' on the 131x151
frame, 2.4 CPU-s each) + 7 776 to_polar calls, ~6.1 CPU-min (measured 5m58 ... 6m14 user+sys at --nproc 4 on a loaded
machine; the 57 new fits: 56 CPU-s in-process);
thorough 3 632 lattice points (240 'dtype' + 224 twins, ~20 CPU-min estimated from the quick block, + 3 392: 2 416 + 384 'start' + 256 'growth-via-geometry' + 336 'area') + the
same to_polar space, ~84 CPU-min (the 588 fits of the two new blocks measured: 13.8 CPU-min; 1.35 CPU-s per small-frame fit, extrapolated from a 41-unit spread
and the 1 764-fit calibration run = 2 494 CPU-s; the 336 'area' fits measured: 13 CPU-min).

The blocks 'start' and 'growth-via-geometry' enumerate WHERE the sma sequence starts and HOW its growth
rule is given: fit_image(sma0=None | value) x EllipseGeometry.sma (equal to / above / below the start, on
and off the growth grid, beyond maxsma, below minsma) x step x linear x {minsma} x {maxsma}, and the
growth mode taken from EllipseGeometry(linear_growth=) with fit_image's ``linear`` left at None.  A given
sma0 overrides the geometry's sma completely; the returned list must be ONE growth sequence through the start.

The block 'area' exists because integrmode 'mean' / 'median' replaces every sector
holding <= 6 pixels by a bilinear sample: with step 0.1 that is every isophote
below sma ~ 26, so on the small frame the area integrators' own pixel scan is
almost never the source of a judged sample.  ``area_integrated`` (input-only rule)
names the isophotes where it is, and they have their own calibrated tolerance.

The block 'dtype' enumerates HOW THE IMAGE IS STORED: dtype {f8, f4, >f8, i2, u2, u1, i4 (+ >i2 thorough)} x integrmode
{bilinear, nearest_neighbor, mean, median} (the only block with nearest_neighbor) on the bright galaxy of the large
frame.  Integer images hold the galaxy in whole counts with the peak at 0.9 of the dtype's range, so that the sector
sums of the judged isophotes exceed what the dtype holds (input-only rule sector_sum_beyond_dtype).  Every fit is judged
against the truth like any other and, unless float64, against the fit of the SAME stored values as a native float64
array (clause representation).  Quick 28 lattice points (+ 24 float64 twins), measured 75 CPU-s at --nproc 4;
thorough 240 (+ 224 twins; 16 of the 256 are points of the block 'area').

Oracle clauses (violation keys are ``clause|site``):
  raises, empty-list      fit_image must return isophotes for a start inside the basin
  sorted                  strictly increasing sma
  sma-range               every sma within [minsma, maxsma]
  sma-sequence            the documented sequence sma0 (1+step)^k / sma0 + k step is fitted (well-sampled range only);
                          sma0 = fit_image's keyword when given, else the geometry's sma
  sma-start               the list holds an isophote at that start sma
  sma-growth              consecutive returned sma (> 0) are exactly one growth step apart (every isophote: structural);
                          sites <linear | geometric>:<sma0=None | sma0-kwarg:geometry.sma{==,<,>}sma0>
  fixed                   fix_center / fix_pa / fix_eps (kwargs or EllipseGeometry) keep the initial value on EVERY isophote
  accuracy                centre, eps, PA (mod pi), intensity of every isophote in the well-sampled range (an
                          input-only rule, no stop code) within max(3 x reported error, 10 x calibrated deviation);
                          sites <parameter>:<bil | area | area-integrated> (class of the isophote, input-only rule)
  model, model-raises     build_ellipse_model inside the annulus spanned by the well-sampled isophotes
  representation          image of dtype D vs the same stored values as float64: same sma list, centre / eps / PA / intensity
                          equal (1e-9 relative for integer and byte-swapped pixels -- bit-identical on the pinned tree --,
                          1e-5 or 3 x reported error for float32 pixels); sites <integrmode>:<integer | float32 | big-endian>[:sma-list | :raises]
  image-modified          image digest before / after
  to_polar-scalar-vs-array, to_polar-reference, to_polar-raises
"""
import itertools
import math

import numpy as np

from ..runner import Acc
from ..snapshot import digest

PROPERTY = 'C20'
LEVEL = 'exploration'
RULE = ('union of full Cartesian products (blocks) over {eps, PA, centre fraction, radial law, scale, initial geometry, '
        'growth, integrmode, fix flags, minsma/maxsma, frame, fit_image sma0 keyword, EllipseGeometry.sma, growth mode via '
        'kwargs / geometry}; every lattice point is one real Ellipse.fit_image call on a '
        'fresh image/geometry/Ellipse; lattice points are distinct by construction (duplicates between blocks are '
        'removed by the case key); a fit case is non-trivial when at least one returned isophote lies in the '
        'well-sampled range computed from the INPUT geometry and was compared with the truth; the block "area" '
        '(integrmode mean/median x eps x PA x centre {pixel centre, generic} x scale on the 131x151 frame, sma0 30, '
        'sma 25-50) exists because the area integrators fall back to bilinear sampling in every sector with <= 6 '
        'pixels, i.e. on all isophotes below sma ~ 26 at step 0.1: its fits are non-trivial only when isophotes '
        'classified area-integrated (>= half of the sectors >= 8 px, from the input sma/eps/step) were compared with '
        'the truth, under a tolerance calibrated for that class; the block "start" is the product fit_image(sma0 = None | '
        'value) x EllipseGeometry.sma (equal / above / below the start, on / off the growth grid, beyond maxsma, below minsma) '
        'x step x linear x range {minsma 5, 0} x {maxsma 30, None}, the block "growth-via-geometry" gives the growth mode as '
        'EllipseGeometry(linear_growth=) with linear=None; a lattice point whose start sma (sma0 if given, else '
        'geometry.sma) is not strictly between minsma and maxsma, below 4 px or with its annuli not inside the frame violates the documented precondition '
        'of sma0 and is counted as skipped, not run; on every fit the returned sma list must be one growth sequence through '
        'the start (clauses sma-start, sma-growth), whatever the geometry.sma; the block "dtype" is the product image '
        'dtype {f8, f4, >f8, i2, u2, u1, i4; thorough also >i2 and x eps {0.2, 0.5} x PA {30, 120} x centre {generic, pixel centre}} '
        'x integrmode {bilinear, nearest_neighbor, mean, median} on the large frame (exponential law x 2.5; quick sma 25-40, '
        'thorough 25-50): integer images hold the galaxy in whole counts with the peak at 0.9 of the largest value of the '
        'dtype, each fit is judged against the truth and (dtype other than f8) against the fit of the same stored values as '
        'native float64 (clause representation); an integer-image fit with integrmode mean / median is non-trivial only when '
        'an area-integrated isophote was judged whose 7-pixel sector sum exceeds the range of the dtype (input-only); to_polar: all 81 integer '
        'points of a 9x9 window x 24 geometries x 4 call forms, non-trivial when the point is not the centre')
ASSUMPTIONS = ['the analytic renderer below (pixel-centre sampling of I(r_ell)) defines the truth; numpy trig is trusted',
               'scipy.optimize.leastsq / LSQUnivariateSpline are trusted (used inside photutils)',
               'the continuum between lattice points is not covered; frames are 81x101 with sma0 = 10 and 131x151 with '
               'sma0 = 30 (block area); other starts (fit_image sma0 7 / 10 / 14, geometry.sma 3 ... 40) only in the blocks '
               'start / growth-via-geometry (eps 0.5, PA 30, exponential law, bilinear)',
               'Ellipse(image) without a geometry (default geometry at the frame centre) and sma0 = 0 (treated as None by '
               'fit_image) are not enumerated',
               'tolerances are calibrated on the pinned tree (x10 margin) per ellipticity / integration class; '
               'area-integrated isophotes per ellipticity / integrmode / centre class, with a x5 margin on the centre of '
               'pixel-centred galaxies (no seed-dependent real enters their geometry; the calibration set is the '
               'enumerated set)',
               'every EllipseGeometry of the lattice keeps the default astep = 0.1 (annulus 0.1 sma wide; 0.1 px with linear '
               'growth, so linear-growth fits never reach the sector scan of the area integrators); geometries built with '
               'their own astep are not enumerated (linear_growth: block growth-via-geometry, same astep)',
               'image dtypes are enumerated only in the block dtype (large frame, sma0 30, exponential law x 2.5, free fit, '
               'geometric step 0.1); every other block uses float64 C-ordered arrays; Fortran-ordered / strided / masked '
               'images, int64 / uint32 / float16 and integer galaxies fainter than 0.08 of the dtype range are not enumerated',
               'integrmode nearest_neighbor is enumerated only in the block dtype; its tolerances are calibrated on the tree '
               'with the repair C20-nearest-neighbor-floor (52eeda2; before it the integrator read the floor pixel: centre '
               'bias +0.5 px, keys accuracy|x0:nn / y0:nn), centre margin 4 instead of 10 (see MARGIN_NN_CENTRE); '
               'build_ellipse_model is judged for float64 images and integrmode bilinear / mean / median only',
               'at eps 0.8 fewer than half of the sectors of any isophote up to sma 50 hold > 6 pixels: no isophote of '
               'the lattice is classified area-integrated there (they are judged in the general area class)']

# --------------------------------------------------------------------------
# the lattice
# --------------------------------------------------------------------------
# frames: (ny, nx) non-square on purpose (x/y swaps do not cancel); centre0 (x, y) off the frame centre on purpose;
# sma0 = semi-major axis of the initial geometry.  'large' exists for the area integrators (integrmode mean / median):
# with the default step 0.1 a sector of the isophote at sma holds about (0.1 sma)^2 pixels (3 x 0.1 sma beyond sma 30)
# and the integrators take the bilinear fallback for every sector with <= 6 pixels, i.e. for every isophote below
# sma ~ 26 -- the whole 'std' frame (see sector_fraction / area_integrated).
FRAMES = {'std': {'shape': (81, 101), 'centre0': (48.0, 41.0), 'sma0': 10.0},
          'large': {'shape': (131, 151), 'centre0': (78.0, 63.0), 'sma0': 30.0}}


def frame_of(case):
    return FRAMES[case.get('frame', 'std')]      # replay files written before the axis existed have no 'frame'


EPS = [0.2, 0.5, 0.8, 0.05]            # simplest first
PA_DEG = [30, 60, 90, 120, 150, 175, 0]
CEN = ['frac', 'int']
LAW = ['exp', 'gauss', 'sersic4']
INIT = ['truth', 'shape', 'centre', 'eps']
GROWTH = ['geom0.1', 'lin1.0']
MODE = ['bilinear', 'mean', 'median']
FIX = ['none', 'centre', 'pa', 'eps', 'centre+pa']
RANGE = ['5-30', 'default']
RANGE_EDGE = ['9.5-30', '5-10.5']    # minsma within one step below sma0; maxsma within one step above sma0
RANGE_LARGE = '25-50'                # frame 'large' (sma0 = 30): sma 27.3, 30, 33, 36.3, 39.9, 43.9, 48.3 with step 0.1
SIZE = [1.0, 1.5, 2.5]               # multiplies the scale length of the radial law
AREA_MODE = ['mean', 'median']
AREA_EPS = [0.2, 0.5, 0.05]          # eps 0.8: fewer than half of the sectors hold > 6 pixels up to sma 50 (sector_fraction)
FIXVIA = ['kwargs', 'geometry']      # fix_* given to fit_image(), or to the EllipseGeometry constructor
# -- where the sma sequence starts: fit_image(sma0=...) x EllipseGeometry.sma -------------------------------------
# fit_image(sma0=None) starts at the sma of the geometry handed to Ellipse(); a given sma0 overrides it, and then the
# geometry's own sma must not matter at all (documented: "the process then resumes from the first fitted ellipse (at
# sma0) inwards").  SMA0 None = keyword not passed; GEOMSMA None = the frame's sma0 (10).  The geometry's sma is taken
# equal to / above / below the start, on and off the growth grid through the start, beyond maxsma, below minsma:
SMA0 = [None, 10.0, 14.0, 7.0]
GEOMSMA = [10.0, 18.0,      # 18 = 10 + 8 x 1 = 10 + 4 x 2 = 14 + 4 x 1 = 14 + 2 x 2: on every linear grid of the block
           40.0,            # beyond maxsma = 30 (and beyond the well-sampled range of the frame)
           3.0,             # below minsma = 5
           14.4,            # = 10 x 1.2^2: on the geometric grid (step 0.2) through 10
           6.5]             # generic, below every start
GROWTH_START = ['geom0.2', 'lin2.0', 'geom0.1', 'lin1.0']
RANGE_PRODUCT = ['5-30', 'default', '0-30', '5-none']     # {minsma 5, 0} x {maxsma 30, None}; 'default' = 0-none
GROWVIA = ['kwargs', 'geometry']     # fit_image(linear=...), or EllipseGeometry(linear_growth=...) with linear not passed
# -- how the image is stored: dtype x integration mode (block 'dtype') -----------------------------------------------
# The integrators read single pixels (numpy scalars of the image's dtype) and do Python arithmetic with them, so the
# image dtype is a code path of its own in every integration mode (NumPy >= 2: a Python number is "weak", the scalar's
# dtype wins: float32 pixels are interpolated / summed in float32, and a sum started from an int 0 would stay in a
# narrow integer type and wrap).  Integer images hold the galaxy in whole counts, scaled so that its peak is
# COUNT_FILL of the largest value of the dtype ("counts fit the dtype"): the fitted sectors (>= 7 px) then sum to more
# than the dtype holds, as on any well-exposed raw frame.  '>i2' is what a FITS BITPIX 16 file delivers.
DTYPE = ['f8', 'f4', '>f8', 'i2', 'u2', 'u1', 'i4', '>i2']
INT_MAX = {'i2': 32767, '>i2': 32767, 'u2': 65535, 'u1': 255, 'i4': 2 ** 31 - 1}
COUNT_FILL = 0.9
MODE_ALL = ['bilinear', 'nearest_neighbor', 'mean', 'median']
RANGE_LARGE_SHORT = '25-40'          # frame 'large': sma 27.3, 30, 33, 36.3, 39.9 (the first five of RANGE_LARGE; quick tier)

DEFAULT = {'eps': 0.5, 'pa_deg': 30, 'cen': 'frac', 'law': 'exp', 'init': 'shape', 'growth': 'geom0.1',
           'mode': 'bilinear', 'fix': 'none', 'range': '5-30', 'fixvia': 'kwargs',
           'size': 1.0, 'frame': 'std', 'sma0': None, 'geomsma': None, 'growvia': 'kwargs', 'dtype': 'f8'}

# each block: the axes that are varied (full product); every other axis takes DEFAULT or the block's override
BLOCKS = {
    'quick': [
        ('geometry', {'eps': EPS, 'pa_deg': PA_DEG, 'init': ['truth', 'shape', 'centre']}, {}),
        ('modes', {'eps': [0.2, 0.8], 'pa_deg': [30, 120], 'growth': GROWTH, 'mode': MODE, 'range': RANGE}, {}),
        ('fix', {'eps': [0.2, 0.8], 'pa_deg': [30, 175], 'fix': FIX[1:], 'init': INIT[1:]}, {}),
        ('fix-via-geometry', {'fix': FIX[1:], 'init': INIT[1:]}, {'fixvia': 'geometry'}),
        ('range-edge', {'eps': [0.2, 0.8], 'growth': GROWTH, 'range': RANGE_EDGE}, {}),
        ('law', {'eps': [0.2, 0.8], 'pa_deg': [60, 150], 'law': LAW, 'cen': CEN}, {'range': 'default'}),
        # isophotes that really use the area integrators: 6 per fit (sma 30 ... 48.3) at eps 0.2, 4 at eps 0.5
        ('area', {'eps': [0.2, 0.5], 'pa_deg': [30, 120], 'cen': ['int', 'frac'], 'mode': AREA_MODE, 'size': [1.0, 2.5]},
         {'frame': 'large', 'range': RANGE_LARGE}),
        # start of the sma sequence: sma0 keyword x geometry.sma x growth x range (admissible starts only, see admissible())
        ('start', {'sma0': SMA0[:3], 'geomsma': GEOMSMA[:4], 'growth': GROWTH_START[:2], 'range': RANGE_PRODUCT[:2]}, {}),
        # growth mode taken from the geometry (fit_image's linear left at None) x start given either way
        ('growth-via-geometry', {'growth': GROWTH_START, 'sma0': [None, 14.0], 'range': RANGE_PRODUCT[:2]},
         {'growvia': 'geometry'}),
        # image dtype x integration mode (all four documented modes) on the bright galaxy of the large frame
        ('dtype', {'mode': MODE_ALL, 'dtype': DTYPE[:7]},
         {'frame': 'large', 'range': RANGE_LARGE_SHORT, 'eps': 0.2, 'size': 2.5}),
    ],
    'thorough': [
        ('geometry', {'eps': EPS, 'pa_deg': PA_DEG, 'cen': CEN, 'law': LAW, 'init': ['truth', 'shape', 'centre']},
         {'range': 'default'}),
        ('geometry-bounded', {'eps': EPS, 'pa_deg': PA_DEG, 'init': ['truth', 'shape', 'centre']}, {}),
        ('modes', {'eps': EPS, 'pa_deg': PA_DEG, 'growth': GROWTH, 'mode': MODE, 'range': RANGE}, {}),
        ('fix', {'eps': EPS, 'pa_deg': PA_DEG, 'fix': FIX[1:], 'init': INIT[1:], 'growth': GROWTH, 'fixvia': FIXVIA}, {}),
        ('fix-truth', {'eps': EPS, 'pa_deg': PA_DEG, 'fix': FIX[1:], 'init': ['truth']}, {}),
        ('size', {'eps': EPS, 'pa_deg': PA_DEG, 'law': LAW, 'size': [1.5]}, {'range': 'default'}),
        ('range-edge', {'eps': [0.2, 0.8], 'growth': GROWTH, 'range': RANGE_EDGE}, {}),
        ('law', {'eps': [0.2, 0.8], 'pa_deg': [60, 150], 'law': LAW, 'cen': CEN}, {'range': 'default'}),
        ('area', {'eps': AREA_EPS, 'pa_deg': PA_DEG, 'cen': ['int', 'frac'], 'mode': AREA_MODE, 'size': [1.0, 2.5],
                  'init': ['shape', 'centre']}, {'frame': 'large', 'range': RANGE_LARGE}),
        ('start', {'sma0': SMA0, 'geomsma': GEOMSMA, 'growth': GROWTH_START, 'range': RANGE_PRODUCT}, {}),
        ('growth-via-geometry', {'growth': GROWTH_START, 'sma0': SMA0, 'geomsma': GEOMSMA[:4], 'range': RANGE_PRODUCT},
         {'growvia': 'geometry'}),
        ('dtype', {'mode': MODE_ALL, 'dtype': DTYPE, 'eps': [0.2, 0.5], 'pa_deg': [30, 120], 'cen': ['frac', 'int']},
         {'frame': 'large', 'range': RANGE_LARGE, 'size': 2.5}),
    ],
}


def enumerate_cases(tier):
    """-> list of (block name, case dict); complete, deterministic, duplicate free."""
    out, seen = [], set()
    for name, axes, override in BLOCKS[tier]:
        names = list(axes)
        for combo in itertools.product(*[axes[a] for a in names]):
            c = dict(DEFAULT)
            c.update(override)
            c.update(dict(zip(names, combo)))
            k = tuple(sorted(c.items()))
            if k in seen:
                continue
            seen.add(k)
            out.append((name, c))
    return out


# --------------------------------------------------------------------------
# truth: analytic galaxy
# --------------------------------------------------------------------------
LAW_PAR = {'exp': 8.0, 'gauss': 12.0, 'sersic4': 10.0}
B4 = 7.669


def radial(law, r, size=1.0):
    s = LAW_PAR[law] * size
    if law == 'exp':
        return np.exp(-r / s)
    if law == 'gauss':
        return np.exp(-0.5 * (r / s) ** 2)
    return np.exp(-B4 * ((r / s) ** 0.25 - 1.0))


def generic(seed):
    """The seed-dependent generic reals: centre fraction and amplitude."""
    rng = np.random.default_rng(1000 + int(seed))
    j = rng.uniform(-0.05, 0.05, size=2)
    return {'frac': (0.3 + j[0], -0.4 + j[1]), 'amp': 1000.0 * (1.0 + 0.2 * rng.uniform(-1, 1))}


def truth_geometry(case, seed):
    g = generic(seed)
    fx, fy = g['frac'] if case['cen'] == 'frac' else (0.0, 0.0)
    cx, cy = frame_of(case)['centre0']
    dt = case.get('dtype', 'f8')
    # integer images: peak = COUNT_FILL of the dtype's range (input-only; the seed's amplitude would not fit 8 / 16 bits)
    amp = COUNT_FILL * INT_MAX[dt] if dt in INT_MAX else g['amp']
    return {'x0': cx + fx, 'y0': cy + fy, 'eps': float(case['eps']),
            'pa': math.radians(case['pa_deg']), 'amp': amp}


def dtype_kind(case):
    """Named predicate on the case: representation class of the image (replay files written before the axis: float64)."""
    dt = case.get('dtype', 'f8')
    return 'float64' if dt == 'f8' else 'integer' if dt in INT_MAX else 'float32' if dt == 'f4' else 'big-endian'


def rell(x, y, t):
    """Elliptical radius (= semi-major axis of the ellipse through (x, y))."""
    dx, dy = x - t['x0'], y - t['y0']
    c, s = math.cos(t['pa']), math.sin(t['pa'])
    u = dx * c + dy * s
    v = -dx * s + dy * c
    return np.sqrt(u ** 2 + (v / (1.0 - t['eps'])) ** 2)


def ell_radius(shape, t):
    yy, xx = np.mgrid[0:shape[0], 0:shape[1]].astype(float)
    return rell(xx, yy, t)


def make_image(case, seed, as_float64=False):
    """-> (image in the case's dtype, truth).  Integer dtypes store the galaxy rounded to whole counts, float32 the
    galaxy rounded to float32, '>f8' the float64 values byte-swapped.  as_float64: the SAME stored values as a native
    float64 array (exact: every value of these dtypes is a float64), the reference of the clause 'representation'."""
    t = truth_geometry(case, seed)
    vals = t['amp'] * radial(case['law'], ell_radius(frame_of(case)['shape'], t), case['size'])
    dt = case.get('dtype', 'f8')
    if dt == 'f8':
        return vals, t
    if dt in INT_MAX:
        vals = np.rint(vals)
        if not (vals.min() >= 0 and vals.max() <= INT_MAX[dt]):
            raise AssertionError('harness: counts do not fit the dtype')
    img = vals.astype(np.dtype(dt))
    back = img.astype(np.float64)
    if dt in INT_MAX and not np.array_equal(back, vals):
        raise AssertionError('harness: integer image does not hold the rounded counts')
    return (back if as_float64 else img), t


def initial_geometry(case, t):
    x0, y0, eps, pa = t['x0'], t['y0'], t['eps'], t['pa']
    init = case['init']
    if init in ('shape', 'eps'):
        eps = eps - 0.1 if eps - 0.1 >= 0.05 else eps + 0.1
    if init == 'shape':
        pa = pa + math.radians(6.0)
    if init == 'centre':
        x0, y0 = x0 + 1.0, y0 - 0.7
    # documented range of the position angle is 0 < PA <= pi (PA = 0 "should be avoided")
    pa = pa % math.pi
    if pa == 0.0:
        pa = math.pi
    return {'x0': x0, 'y0': y0, 'sma': geometry_sma(case), 'eps': eps, 'pa': pa}


def geometry_sma(case):
    """sma of the EllipseGeometry handed to Ellipse() (replay files written before the axis existed have no key)."""
    g = case.get('geomsma')
    return float(g) if g is not None else frame_of(case)['sma0']


def start_sma(case):
    """Documented start of the sma sequence: fit_image's sma0 when given, else the geometry's sma."""
    s0 = case.get('sma0')
    return float(s0) if s0 is not None else geometry_sma(case)


def parse_range(case):
    """-> (minsma, maxsma) as passed to fit_image, or None for the defaults (minsma 0, maxsma None)."""
    if case['range'] == 'default':
        return None
    mn, mx = case['range'].split('-')
    return float(mn), (None if mx == 'none' else float(mx))


def admissible(case, t):
    """Documented precondition on the start (input-only): sma0 'must not be the minimum or maximum semimajor axis
    length, but something in between' and its isophote must have 'a clearly defined geometry' (here: inside_frame(); the
    minor-axis condition of well_sampled() is not asked of the start: the eps 0.8 galaxies are started at sma 10, b = 2).
    Returns None or the reason the lattice point is not run."""
    s = start_sma(case)
    mn, mx = parse_range(case) or (0.0, None)
    if not (s > mn and (mx is None or s < mx)):
        return 'start sma not strictly between minsma and maxsma (documented precondition of sma0)'
    if not inside_frame(s, case, t):
        return 'start sma below 4 px or its annuli not inside the frame (no clearly defined geometry to start from)'
    return None


def fit_kwargs(case):
    kw = {'integrmode': case['mode']}
    g = case['growth']                  # 'geom<step>' or 'lin<step>'
    if g.startswith('geom'):
        kw.update(step=float(g[4:]), linear=False)
    else:
        kw.update(step=float(g[3:]), linear=True)
    rg = parse_range(case)
    if rg is not None:
        kw.update(minsma=rg[0], maxsma=rg[1])
    if case.get('sma0') is not None:
        kw.update(sma0=float(case['sma0']))
    if case['fixvia'] == 'kwargs':
        kw.update(fix_flags(case))
    return kw


GEOMETRY_ASTEP = 0.1      # EllipseGeometry default; every geometry of the lattice is built without ``astep``


def annulus_width(sma, case):
    """Width of the integration annulus on the major axis.  fit_image(step=, linear=) only sets how sma grows; the
    annulus sampled at each sma is the EllipseGeometry's own ``astep`` (relative; in pixels with linear growth), which
    the lattice leaves at its default: 0.1 sma for geometric growth (= step 0.1) and 0.1 px for linear growth -- so
    the linear-growth fits of the lattice never reach the area integrators' sector scan."""
    return GEOMETRY_ASTEP if fit_kwargs(case)['linear'] else sma * GEOMETRY_ASTEP


def fix_flags(case):
    f = case['fix']
    return {'fix_center': 'centre' in f, 'fix_pa': 'pa' in f, 'fix_eps': f == 'eps'}


# --------------------------------------------------------------------------
# running one fit and measuring
# --------------------------------------------------------------------------
def evaluate(case, seed, with_model=True, as_float64=False):
    """Run the real code once; return plain measurements (no judgement)."""
    import warnings
    from astropy import log
    from photutils.isophote import Ellipse, EllipseGeometry, build_ellipse_model
    log.setLevel('ERROR')
    img, t = make_image(case, seed, as_float64=as_float64)
    before = digest(img)
    g0 = initial_geometry(case, t)
    kw = fit_kwargs(case)
    m = {'truth': t, 'g0': g0, 'kw': kw, 'exc': None}
    try:
        with warnings.catch_warnings():
            warnings.simplefilter('ignore')
            gkw = fix_flags(case) if case['fixvia'] == 'geometry' else {}
            ckw = dict(kw)
            if case.get('growvia', 'kwargs') == 'geometry':      # growth mode from the geometry: linear stays None
                gkw['linear_growth'] = ckw.pop('linear')
            geom = EllipseGeometry(g0['x0'], g0['y0'], g0['sma'], g0['eps'], g0['pa'], **gkw)
            iso = Ellipse(img, geom).fit_image(**ckw)
    except Exception as e:  # the property says a list is returned
        m['exc'] = repr(e)
        m['image_untouched'] = digest(img) == before
        return m
    m['image_untouched'] = digest(img) == before
    m['type'] = type(iso).__name__
    rows = []
    for i in iso:
        rows.append({'sma': float(i.sma), 'stop': int(i.stop_code), 'niter': int(i.niter),
                     'x0': float(i.x0), 'y0': float(i.y0), 'eps': float(i.eps), 'pa': float(i.pa),
                     'intens': float(i.intens),
                     'x0_err': _f(i.x0_err), 'y0_err': _f(i.y0_err), 'eps_err': _f(i.ellip_err),
                     'pa_err': _f(i.pa_err), 'int_err': _f(i.int_err),
                     'ndata': int(i.ndata), 'nflag': int(i.nflag)})
    m['rows'] = rows
    m['model'] = None
    if with_model and len(rows) >= 8:
        try:
            with warnings.catch_warnings():
                warnings.simplefilter('ignore')
                mod = build_ellipse_model(img.shape, iso)
            m['model'] = {'exc': None, 'array': mod}
        except Exception as e:
            m['model'] = {'exc': repr(e)}
        m['image_untouched'] = m['image_untouched'] and digest(img) == before
    m['image'] = img
    return m


def _f(x):
    try:
        x = float(x)
    except Exception:
        return 0.0
    return x if math.isfinite(x) else 0.0


# --------------------------------------------------------------------------
# well-sampledness (evaluated on the INPUT geometry only)
# --------------------------------------------------------------------------
SMA_MIN = {'exp': 4.0, 'gauss': 4.0, 'sersic4': 4.0}
B_MIN = 2.5            # minor semi-axis in pixels
EDGE = 2.0             # pixels kept free between the (outer annulus edge of the) ellipse and the frame


def half_widths(sma, eps, pa):
    b = sma * (1.0 - eps)
    return (math.hypot(sma * math.cos(pa), b * math.sin(pa)),
            math.hypot(sma * math.sin(pa), b * math.cos(pa)))


def outer_sma(sma, case):
    """Outer edge of the integration annulus of the isophote at ``sma`` and of
    the gradient annulus (documented: astep relative / absolute)."""
    kw = fit_kwargs(case)
    if not kw['linear']:
        return sma * (1.0 + kw['step']) * (1.0 + kw['step'] / 2.0)
    return (sma + kw['step']) + kw['step'] / 2.0


def inside_frame(sma, case, t):
    """The isophote at ``sma`` lies on the frame with its integration and gradient annuli (EDGE px to spare) and is
    not in the innermost pixels (sma >= SMA_MIN)."""
    if sma < SMA_MIN[case['law']]:
        return False
    wx, wy = half_widths(outer_sma(sma, case), t['eps'], t['pa'])
    ny, nx = frame_of(case)['shape']
    return (t['x0'] - wx >= EDGE and t['x0'] + wx <= nx - 1 - EDGE
            and t['y0'] - wy >= EDGE and t['y0'] + wy <= ny - 1 - EDGE)


def well_sampled(sma, case, t):
    return sma * (1.0 - t['eps']) >= B_MIN and inside_frame(sma, case, t)


# --------------------------------------------------------------------------
# which isophotes really use the area integrators (evaluated on the INPUT geometry only)
# --------------------------------------------------------------------------
# Documented / visible rule of the integrators: integrmode 'mean' / 'median' samples an isophote in elliptical sectors
# of the annulus sma (1 -+ astep/2) (linear growth: sma -+ astep/2; astep is the EllipseGeometry's, see
# annulus_width); a sector whose pixel count is <= 6 is replaced by
# the bilinear sample at its centre (and the whole isophote when the first sector's area is < 1).  The sector at polar
# angle phi has radial extent dr = w rho(phi) (w = annulus width on the major axis, rho = r(phi) / sma) and angular
# width clip(w min(w, 3) / (dr r), 0.05, 0.2), hence area ~ w min(w, 3) pixels where the clip is inactive (all around
# a round isophote) and much less towards the minor axis of a flattened one.  sector_fraction = share of the sectors
# of one isophote whose nominal area is >= SECTOR_PIX (8: the pixel count of a sector fluctuates by 1-2 around its
# area; measured on the pinned tree with counters in the integrators, mean mode, eps 0.2: 0.70 / 0.96 / 0.99 of the
# sectors take the area branch at nominal area 6.7 / 8.1 / 9.4; eps 0.8, sma 31 ... 46: 0.23 ... 0.41 measured,
# 0.23 ... 0.41 from this formula with threshold 7).
SECTOR_PIX = 8.0
AREA_FRACTION_MIN = 0.5


def sector_fraction(sma, eps, case, thr=SECTOR_PIX):
    w = annulus_width(sma, case)
    q = 1.0 - eps
    phi = (np.arange(3600) + 0.5) * (2 * math.pi / 3600)
    rho = q / np.sqrt((q * np.cos(phi)) ** 2 + np.sin(phi) ** 2)
    r, dr = sma * rho, w * rho
    dphi = np.clip(w * min(w, 3.0) / (dr * (r - dr / 2)), 0.05, 0.2)
    area = r * dr * dphi
    return float(np.sum((area >= thr) / dphi) / np.sum(1.0 / dphi))      # sectors are spaced by dphi: density 1 / dphi


def area_integrated(sma, case, t):
    """True when the isophote at ``sma`` is sampled by the area integrator in at least half of its sectors."""
    return case['mode'] in AREA_MODE and sma > 0 and sector_fraction(sma, t['eps'], case) >= AREA_FRACTION_MIN


def expected_smas(case):
    """The documented sequence through the start s0 (fit_image's sma0 when given, else the geometry's sma):
    s0 (1+step)^k outwards while < maxsma, s0 / (1+step)^k inwards while > max(minsma, 0.5) (linear: +- step).
    A value within 1e-12 (relative) of minsma / maxsma is a tie (the text says "until the semimajor axis reaches
    maxsma / minsma"): not demanded here, allowed by the clause sma-range."""
    kw = fit_kwargs(case)
    step, lin = kw['step'], kw['linear']
    mx = kw.get('maxsma')
    mn = kw.get('minsma', 0.0)
    out = []
    sma0 = start_sma(case)
    s = sma0
    while s < (mx * (1.0 - 1e-12) if mx else 400.0):
        out.append(s)
        s = s + step if lin else s * (1.0 + step)
    s = sma0 - step if lin else sma0 / (1.0 + step)
    while s > max(mn * (1.0 + 1e-12), 0.5):
        out.append(s)
        s = s - step if lin else s / (1.0 + step)
    return sorted(out)


# the implementation accumulates the sma by repeated + step / * (1 + step) in doubles (a few ulp per isophote, < 1e-13
# relative over 100 isophotes); two different sequences of the lattice differ by >= 1e-2 relative somewhere
SMA_RTOL = 1e-9


def start_site(case):
    """Named predicate on the case: how the start of the sequence was given."""
    if case.get('sma0') is None:
        return 'sma0=None'
    g, s0 = geometry_sma(case), start_sma(case)
    return 'sma0-kwarg:geometry.sma' + ('==' if g == s0 else '>' if g > s0 else '<') + 'sma0'


def growth_breaks(pos, case):
    """Consecutive pairs of the returned positive smas that are not one growth step apart."""
    kw = fit_kwargs(case)
    step, lin = kw['step'], kw['linear']
    if lin:
        return [(a, b) for a, b in zip(pos, pos[1:]) if not abs(b - a - step) <= SMA_RTOL * max(abs(b), step)]
    return [(a, b) for a, b in zip(pos, pos[1:]) if not (a > 0 and abs(b / a - (1.0 + step)) <= SMA_RTOL)]


MODEL_SLACK = 0.5   # pixels, see model_excess
MODEL_RTOL = 0.02   # relative excess above which a model pixel counts as deviating


def model_excess(mod, case, t, rlo, rhi):
    """Worst relative excess of the model over the truth inside the elliptical
    annulus rlo <= r_ell <= rhi (true geometry), after allowing a positional
    slack of MODEL_SLACK pixel: a model pixel is compared with the interval
    spanned by the analytic galaxy on the circle of radius MODEL_SLACK around
    the pixel centre (the galaxy is monotone in r_ell, so the extremes over the
    disk are on its boundary or at the pixel itself).  The slack is half a
    pixel because build_ellipse_model deposits every sampled point onto the
    2x2 cell found by int() truncation: positions are not defined better.
    -> (excess, (j, i) of the worst pixel, number of pixels compared, number of pixels with excess > MODEL_RTOL)"""
    ny, nx = frame_of(case)['shape']
    yy, xx = np.mgrid[0:ny, 0:nx].astype(float)
    r0 = rell(xx, yy, t)
    rmin, rmax = r0.copy(), r0.copy()
    for k in range(24):
        th = 2 * math.pi * k / 24
        r = rell(xx + MODEL_SLACK * math.cos(th), yy + MODEL_SLACK * math.sin(th), t)
        rmin = np.minimum(rmin, r)
        rmax = np.maximum(rmax, r)
    hi = t['amp'] * radial(case['law'], rmin, case['size'])
    lo = t['amp'] * radial(case['law'], rmax, case['size'])
    img = t['amp'] * radial(case['law'], r0, case['size'])
    region = (r0 >= rlo) & (r0 <= rhi)
    if not region.any():
        return 0.0, None, 0, 0
    ex = np.maximum(np.maximum(mod - hi, lo - mod), 0.0) / img
    ex = np.where(region, ex, -1.0)
    j, i = np.unravel_index(np.argmax(ex), ex.shape)
    return float(ex[j, i]), (int(j), int(i)), int(region.sum()), int((ex > MODEL_RTOL).sum())


def pa_diff(a, b):
    return abs(((a - b + math.pi / 2) % math.pi) - math.pi / 2)


# --------------------------------------------------------------------------
# tolerances
# --------------------------------------------------------------------------
# CALIBRATION (pinned tree 0220e3a, seed 0, the whole thorough lattice: 1764 fits at calibration time, 35 173
# isophotes inside the well-sampled range, stop codes 0 (34 186) and 2 (987) -- both are equally accurate, so the
# rule does not look at the stop code at all).  Largest deviation from the truth seen per ellipticity and
# integration class (bil = bilinear, area = mean/median), maximum over the radial laws, initial geometries, PAs,
# centres, growth modes, ranges and fix flags (fixed parameters held at the truth):
#                 centre [px]  eps      pa [rad]  intens (relative)
CAL = {
    (0.05, 'bil'): (1.1e-2, 5.9e-3, 6.1e-2, 1.2e-2),
    (0.05, 'area'): (1.1e-1, 3.7e-3, 4.0e-2, 1.1e-2),
    (0.2, 'bil'): (1.7e-2, 1.3e-2, 2.6e-2, 8.9e-3),
    (0.2, 'area'): (9.3e-2, 5.8e-3, 1.6e-2, 1.7e-2),
    (0.5, 'bil'): (2.5e-2, 2.5e-2, 6.6e-3, 1.9e-2),
    (0.5, 'area'): (1.5e-1, 9.1e-3, 5.8e-3, 3.5e-2),
    (0.8, 'bil'): (6.8e-2, 1.1e-2, 6.7e-3, 7.0e-2),
    (0.8, 'area'): (1.6e-1, 7.8e-3, 3.9e-3, 4.3e-2),
    # integrmode 'nearest_neighbor' (block 'dtype' only: large frame, sma 27.3 ... 48.3, exponential law x 2.5).  Up to
    # d3130d4 the integrator took the pixel int(x), int(y) -- the floor, not the nearest pixel -- so every sample was
    # displaced by (-0.5, -0.5) px on average and every fitted centre was off by +0.5 px in x and y (measured 0.50 ...
    # 0.56 px; found by this block, repaired by proposed_fixes/C20-nearest-neighbor-floor.diff = 52eeda2).  Calibrated
    # on the repaired tree: 48 fits per eps (PA 30 / 120, centre frac / int, init shape / centre, seeds 0, 1, 2):
    (0.2, 'nn'): (8.1e-2, 2.5e-3, 1.5e-2, 4.5e-3),
    (0.5, 'nn'): (1.1e-1, 2.7e-3, 5.4e-3, 8.7e-3),
}
# Centre of the nearest_neighbor class: margin 4, not 10.  A nearest-pixel sample is the image value at a point within
# half a pixel of the sampling position, so half a pixel is the resolution of the method itself; a centre tolerance of
# 10 x 0.08 ... 0.11 = 0.8 ... 1.1 px would accept a whole-pixel shift.  4 x the calibrated maximum (0.32 / 0.44 px) stays
# below that resolution and 4 x above everything the repaired tree produces over the 96 calibration fits (three seeds);
# the deviations are pixel-sampling scatter of ~200 samples per isophote (largest deviation / reported error: 2.4).
MARGIN_NN_CENTRE = 4.0
# These deviations are the discretisation error of sampling a pixel-centre rendered galaxy by bilinear
# interpolation (curvature of I across one pixel: it grows with 1/(r0 (1-eps)) and is largest for the cuspy
# Sersic law), not noise; the errors photutils reports are of the same order.  Absolute tolerance = 10 x the
# calibrated maximum (the area class only saw the exponential law, so it also takes the bilinear maximum).
# Validated afterwards: quick lattice silent for seeds 0, 1, 2 (centre fraction +-0.05 px, amplitude +-20 %) and the
# thorough blocks 'size' and 'range-edge' plus a 41-unit spread of all other blocks silent for seed 0.
MARGIN = 10.0
TOL = {}
for (_e, _c), _v in CAL.items():
    _w = _v if _c in ('bil', 'nn') else tuple(max(a, b) for a, b in zip(_v, CAL[(_e, 'bil')]))
    _mc = MARGIN_NN_CENTRE if _c == 'nn' else MARGIN
    TOL[(_e, _c)] = {'x0': _mc * _w[0], 'y0': _mc * _w[0], 'eps': MARGIN * _w[1], 'pa': MARGIN * _w[2],
                     'intens': MARGIN * _w[3]}
# INTEGER / float32 images hold the galaxy rounded to whole counts / to float32: the stored image differs from the
# analytic one by <= 0.5 count.  With the peak at 0.9 of the dtype's range and the faintest judged isophote (sma 48.3,
# 2.4 scale lengths) at 0.082 of the peak that is <= 2.7 % of a pixel for uint8 and <= 2.1e-4 for the 16 / 32 bit types.
# Measured on the pinned tree (block 'dtype', eps 0.2): the truth deviations of uint8 fits are <= 0.04 px (bilinear
# centre; float64: 0.0005), 0.044 px (mean), 0.072 px (median) -- all below the float64 calibration maxima above, so
# the same tolerances apply to every dtype (the 3 x reported error part of the bound grows with the rounding scatter).
# Clause 'representation' (the stored numbers, not their dtype, determine the result): the fit of the image in dtype D
# against the fit of the same stored values as native float64.  Integer and byte-swapped pixels: every arithmetic step
# of a correct integrator happens in float64 on the same numbers -> the pinned tree is bit-identical (all enumerated
# cases); 1e-9 leaves room for a re-ordered sum.  float32 pixels are interpolated / summed in float32 by numpy's
# scalar rules (7 ... 30 pixels per sector: relative error <= 30 x 6e-8 = 2e-6 per sample); the fit maps that to at most
# 5.6e-7 (relative; pa) on the pinned tree when both fits keep the same iterate; 1e-5 = 5 x the per-sample bound.
# When the perturbation makes the fitter keep another of its (equally good) last iterates -- 2 of the 32 thorough float32
# fits, mean, pixel-centred galaxy, eps 0.2: pa differs by up to 1.2e-3 rad = 0.45 x its reported error, centre by 0.01 px
# = 0.38 x -- the two answers are two converged solutions: accepted within 3 x the reported error of the float64 twin.
REPR_RTOL = {'integer': 1e-9, 'big-endian': 1e-9, 'float32': 1e-5}
# AREA-INTEGRATED isophotes (area_integrated(): integrmode mean / median and at least half of the sectors hold >= 8
# pixels, i.e. the sample really comes from the sector scan of the area integrators, not from their bilinear
# fallback) are calibrated separately, per ellipticity x integrmode x centre class, on the complete thorough block
# 'area' (pinned tree 29d58d3, seed 0: 336 fits, 2 016 area-integrated isophotes, sma 30 ... 48.3, stop codes 0 and 2;
# every quick 'area' case is one of them).  Largest deviation from the truth:
#                          centre [px]  eps      pa [rad]  intens (relative)     max centre deviation / reported error
CAL_AI = {
    (0.05, 'mean', 'int'): (6.5e-2, 5.0e-3, 3.2e-2, 1.8e-2),                    # 2.4
    (0.05, 'mean', 'frac'): (5.5e-2, 3.8e-3, 3.0e-2, 1.4e-2),                   # 2.5
    (0.05, 'median', 'int'): (7.9e-2, 6.4e-3, 5.6e-2, 2.8e-2),                  # 1.8
    (0.05, 'median', 'frac'): (8.9e-2, 6.1e-3, 4.7e-2, 1.7e-2),                 # 2.3
    (0.2, 'mean', 'int'): (3.5e-2, 3.6e-3, 1.3e-2, 1.8e-2),                     # 1.7
    (0.2, 'mean', 'frac'): (7.1e-2, 3.0e-3, 6.7e-3, 1.8e-2),                    # 2.6
    (0.2, 'median', 'int'): (1.0e-1, 6.1e-3, 1.8e-2, 2.3e-2),                   # 2.4
    (0.2, 'median', 'frac'): (1.3e-1, 6.3e-3, 2.0e-2, 2.0e-2),                  # 2.5
    (0.5, 'mean', 'int'): (3.9e-2, 3.7e-3, 4.6e-3, 1.8e-2),                     # 1.7
    (0.5, 'mean', 'frac'): (7.6e-2, 3.8e-3, 4.9e-3, 2.0e-2),                    # 2.9
    (0.5, 'median', 'int'): (1.4e-1, 7.8e-3, 8.1e-3, 3.2e-2),                   # 2.7
    (0.5, 'median', 'frac'): (1.6e-1, 9.0e-3, 6.6e-3, 3.8e-2),                  # 3.2
}
# Here the deviation is the pixel-sampling scatter of the sector means / medians (the pixels whose centres fall into a
# sector change from sector to sector), and -- unlike in the bilinear class -- the errors photutils reports for these
# isophotes (0.03 ... 0.06 px on the centre) are of the same size: the property's own bound, 3 x reported error, is
# the effective limit (0.1 ... 0.18 px) and the absolute tolerance only backs it up.  Absolute tolerance = 10 x the
# calibrated maximum, EXCEPT the centre of the integer-centre classes: 5 x.  Why a smaller margin is sound there: the
# margin exists to cover what the calibration run did not see -- other seeds and other lattice points.  With the
# galaxy centred on a pixel centre no seed-dependent real enters the geometry (the seed only scales the amplitude,
# which the fit is invariant to up to rounding; verified: seeds 0, 1, 2 silent), and the calibration set IS the
# enumerated set of both tiers.  The pixel grid is then point-symmetric about the centre, so the scatter of opposite
# sectors cancels in the first harmonics and the centre deviation of the mean integrator stays <= 0.039 px (median:
# <= 0.14 px, its limit stays wide); 5 x that
# (0.18 / 0.20 px at eps 0.2 / 0.5) still exceeds every clean-tree value by a factor 5 and the largest 3 x reported
# error seen, while a centre bias of a quarter pixel -- less than the loss of one pixel row or column of a sector
# produces -- is outside it.  (With the uniform 10 x the limit would be 0.35 ... 0.39 px.)
MARGIN_AI_CENTRE_INT = 5.0
TOL_AI = {}
for (_e, _m, _c), _v in CAL_AI.items():
    _mc = MARGIN_AI_CENTRE_INT if _c == 'int' else MARGIN
    TOL_AI[(_e, _m, _c)] = {'x0': _mc * _v[0], 'y0': _mc * _v[0], 'eps': MARGIN * _v[1], 'pa': MARGIN * _v[2],
                            'intens': MARGIN * _v[3]}
# build_ellipse_model: with the half-pixel positional slack of model_excess the relative excess is exactly 0 in
# 1 203 of the 1 204 seed-0 calibration models whose PA list has no wrap; the single non-zero value is 1.8e-3
# (eps 0.5, median, PA 120), hence MODEL_RTOL = 10 x 1.8e-3 rounded up = 0.02 per pixel.  The renderer of
# build_ellipse_model can leave isolated single-pixel artefacts where the galaxy changes by a factor ~2 per pixel
# (eps 0.8, Sersic 4): over seeds 1 and 2 (374 more models) exactly one model has one deviating pixel out of 1 208
# (0.083 %, excess 0.32).  The clause therefore bounds the FRACTION of deviating pixels of the region:
# 10 x 0.083 % rounded up.  Lists with a PA wrap (the defect repaired by proposed_fixes/C20-model-pa-wrap.diff) have 4 % ... 62 %.
MODEL_FRAC_TOL = 0.01
# a fixed PA is compared modulo pi: photutils re-parametrises an ellipse whose ellipticity crossed zero as
# (-eps, pa +- pi/2); two crossings return the same orientation as pa, pa - pi or pa + 1 ulp (seen at eps 0.05)
FIXED_PA_ATOL = 1e-12


def integr_class(case):
    return 'bil' if case['mode'] == 'bilinear' else 'nn' if case['mode'] == 'nearest_neighbor' else 'area'


def sector_sum_beyond_dtype(sma, case, t):
    """Input-only: integer image, and a sector of the isophote at ``sma`` holding the fallback threshold of 7 pixels at
    the isophote's intensity sums to more than the dtype can hold (a running sum kept in the pixel dtype would wrap)."""
    dt = case.get('dtype', 'f8')
    return dt in INT_MAX and 7 * t['amp'] * float(radial(case['law'], sma, case['size'])) > INT_MAX[dt]


def compare_representation(acc, case, m, ref):
    """Clause 'representation': fit of the image in the case's dtype vs fit of the same stored values as float64."""
    kind = dtype_kind(case)
    vcase = dict(case, kind='fit')
    site = f'{case["mode"]}:{kind}'
    rtol = REPR_RTOL[kind]
    if ref['exc'] or m['exc']:
        if bool(ref['exc']) != bool(m['exc']):
            acc.violation('representation', site + ':raises', vcase, m['exc'] or 'an IsophoteList',
                          ref['exc'] or 'an IsophoteList (float64 image of the same values)')
        return
    a, b = m['rows'], ref['rows']
    acc.counters['fits_compared_with_float64_twin'] += 1
    if len(a) != len(b) or any(abs(x['sma'] - y['sma']) > SMA_RTOL * max(y['sma'], 1.0) for x, y in zip(a, b)):
        acc.violation('representation', site + ':sma-list', vcase, [round(r['sma'], 4) for r in a],
                      [round(r['sma'], 4) for r in b], f'dtype {case["dtype"]} vs float64 image of the same stored values')
        return
    worst = None
    errkey = {'x0': 'x0_err', 'y0': 'y0_err', 'eps': 'eps_err', 'pa': 'pa_err', 'intens': 'int_err'}
    for x, y in zip(a, b):
        for p in ('x0', 'y0', 'eps', 'pa', 'intens'):
            d = abs(x[p] - y[p]) / max(abs(y[p]), 1.0)
            # float32 pixels: the fitter returns the iterate with the smallest largest-harmonic amplitude; on a noise-free
            # image the last iterates are equally good to ~1e-6 and a 1e-7 perturbation of the samples can select another
            # one.  Both are converged solutions of the same isophote, a fraction of the reported error apart: accept
            # the property's own bound, 3 x the twin's reported error (measured maximum on the pinned tree: 0.45 x)
            ok = d <= rtol or (kind == 'float32' and abs(x[p] - y[p]) <= 3.0 * abs(y[errkey[p]]))
            if not ok and (worst is None or not d <= worst[0]):
                worst = (d, p, x, y)
    acc.counters['isophotes_compared_with_float64_twin'] += len(a)
    if worst:
        d, p, x, y = worst
        acc.violation('representation', site, vcase, f'{p} = {x[p]!r} at sma {x["sma"]:.4f} (stop_code {x["stop"]})',
                      f'{y[p]!r} (stop_code {y["stop"]}) within {rtol:g} relative',
                      f'image dtype {case["dtype"]} vs the same stored values as float64; difference / max(|value|, 1) = {d:.3g}')


def fixed_set(case):
    return set() if case['fix'] == 'none' else set(case['fix'].split('+'))


PERTURBED = {'truth': set(), 'shape': {'eps', 'pa'}, 'centre': {'centre'}, 'eps': {'eps'}}


def fixed_at_truth(case):
    """True when no parameter is held fixed at a value different from the truth
    (otherwise the free parameters cannot be expected to reach the truth)."""
    return not (fixed_set(case) & PERTURBED[case['init']])


def deviations(row, case, t):
    it = t['amp'] * float(radial(case['law'], row['sma'], case['size']))
    d = {'x0': abs(row['x0'] - t['x0']), 'y0': abs(row['y0'] - t['y0']), 'eps': abs(row['eps'] - t['eps']),
         'pa': pa_diff(row['pa'], t['pa']), 'intens': abs(row['intens'] / it - 1.0)}
    e = {'x0': row['x0_err'], 'y0': row['y0_err'], 'eps': row['eps_err'], 'pa': row['pa_err'],
         'intens': abs(row['int_err'] / it)}
    return d, e


def judge(acc, case, m, seed):
    """Apply the oracle to the measurements of one fit."""
    t, kw, g0 = m['truth'], m['kw'], m['g0']
    vcase = dict(case, kind='fit')
    fat = fixed_at_truth(case)
    cls = integr_class(case)
    kind = dtype_kind(case)
    ksuf = '' if kind == 'float64' else ':' + kind + '-image'
    sample = vcase if ((case['pa_deg'] == 120 and case['eps'] == 0.8)
                       or (case.get('sma0') == 14.0 and case.get('geomsma') == 18.0)
                       or (case.get('dtype') == 'u2' and case['pa_deg'] == 30 and case['eps'] == 0.2)) else None
    if m['exc']:
        acc.case(nontrivial=False, sample=sample)
        acc.violation('raises', 'fit_image:' + m['exc'].split('(')[0], vcase, m['exc'], 'an IsophoteList')
        return
    if not m['image_untouched']:
        acc.violation('image-modified', 'fit_image/build_ellipse_model', vcase, 'image digest changed', 'bit-identical image')
    rows = m['rows']
    if not rows:
        acc.case(nontrivial=False, sample=sample)
        if not fat:
            acc.skip('empty list while a fixed parameter is held away from the truth (outside the basin of convergence)')
        else:
            acc.violation('empty-list', f'{cls}:fix={case["fix"]}{ksuf}', vcase, 'IsophoteList([])',
                          'isophotes for an initial geometry inside the basin of convergence')
        return
    sma = [r['sma'] for r in rows]
    acc.outcome(repr([(round(r['sma'], 6), r['stop'], round(r['eps'], 3), round(r['pa'], 2)) for r in rows]))
    # -- ordering and range ------------------------------------------------
    if any(b <= a for a, b in zip(sma, sma[1:])):
        acc.violation('sorted', 'fit_image', vcase, [round(s, 4) for s in sma], 'strictly increasing sma')
    mn, mx = kw.get('minsma', 0.0), kw.get('maxsma')
    out = [s for s in sma if s < mn or (mx is not None and s > mx)]
    if out:
        acc.violation('sma-range', 'below-minsma' if min(out) < mn else 'above-maxsma', vcase,
                      [round(s, 4) for s in out], f'all sma within [{mn}, {mx}]')
    # documented construction of the sma sequence, demanded only inside the well-sampled range
    want = [s for s in expected_smas(case) if well_sampled(s, case, t)]
    missing = [s for s in want if not any(abs(s - q) <= SMA_RTOL * s for q in sma)]
    if missing:
        acc.violation('sma-sequence', f'{case["growth"]}:{case["range"]}', vcase, [round(s, 4) for s in missing],
                      'every sma0*(1+step)^k (or sma0+k*step) of the well-sampled range is fitted')
    # the list is ONE growth sequence through the documented start (sma0 if given, else geometry.sma): it contains the
    # start, and consecutive isophotes are exactly one step apart ("increased by a factor of (1 + step) ... then resumes
    # from the first fitted ellipse (at sma0) inwards, in steps of 1 / (1 + step)"; linear: +- step).  Structural, so
    # demanded of every returned isophote; the isophote at sma 0 that minsma = 0 adds is not part of the sequence.
    pos = [s for s in sma if s > 0]
    s0 = start_sma(case)
    ssite = start_site(case)
    if pos and not any(abs(s - s0) <= SMA_RTOL * s0 for s in pos):
        acc.violation('sma-start', ssite, vcase, [round(s, 4) for s in pos],
                      f'an isophote at the start sma {s0} (fit_image sma0={case.get("sma0")}, geometry.sma={g0["sma"]})')
    breaks = growth_breaks(pos, case)
    if breaks:
        acc.violation('sma-growth', f'{"linear" if kw["linear"] else "geometric"}:{ssite}', vcase,
                      [[round(a, 4), round(b, 4)] for a, b in breaks],
                      f'consecutive sma one growth step apart ({case["growth"]}) on the sequence through {s0}',
                      'returned sma: ' + ' '.join(f'{s:.4f}' for s in sma))
    # -- fixed parameters honoured exactly ------------------------------------
    fx = fixed_set(case)
    for r in rows:
        bad = None
        if 'centre' in fx and (r['x0'] != g0['x0'] or r['y0'] != g0['y0']):
            bad = ('centre', (r['x0'], r['y0']), (g0['x0'], g0['y0']))
        elif 'pa' in fx and r['sma'] > 0 and pa_diff(r['pa'], g0['pa']) > FIXED_PA_ATOL:
            bad = ('pa', r['pa'], g0['pa'])
        elif 'eps' in fx and r['sma'] > 0 and r['eps'] != g0['eps']:
            bad = ('eps', r['eps'], g0['eps'])
        if bad:
            acc.violation('fixed', f'fix={case["fix"]}:{bad[0]}', vcase, bad[1], bad[2],
                          f'isophote sma={r["sma"]:.4f} stop_code={r["stop"]}: fixed parameter differs from the initial value')
            break
    # -- accuracy on the well-sampled isophotes ---------------------------------
    ws = [r for r in rows if r['sma'] > 0 and well_sampled(r['sma'], case, t)]
    njudged = nai = nwrap = 0
    if not fat:
        acc.skip('accuracy/model not judged: a fixed parameter is held away from the truth')
    else:
        worst = {}
        for r in ws:
            d, e = deviations(r, case, t)
            njudged += 1
            # class of the isophote (input-only rule): area-integrated isophotes have their own calibration
            ai = area_integrated(r['sma'], case, t) and (case['eps'], case['mode'], case['cen']) in TOL_AI
            nai += ai
            nwrap += bool(ai and sector_sum_beyond_dtype(r['sma'], case, t))
            tol = TOL_AI[(case['eps'], case['mode'], case['cen'])] if ai else TOL[(case['eps'], cls)]
            icls = 'area-integrated' if ai else cls
            for p in d:
                lim = max(3.0 * e[p], tol[p])
                if not d[p] <= lim:      # also catches NaN
                    if (p, icls) not in worst or d[p] / lim > worst[(p, icls)][0]:
                        worst[(p, icls)] = (d[p] / lim if lim > 0 and d[p] == d[p] else float('inf'), r, d[p], e[p], lim, tol[p])
        for (p, icls), (_, r, dv, er, lim, tp) in worst.items():
            acc.violation('accuracy', f'{p}:{icls}', vcase, f'|{p} - truth| = {dv:.4g} (reported error {er:.3g})',
                          f'<= max(3*error, {tp:.3g}) = {lim:.3g}',
                          f'isophote sma={r["sma"]:.4f} stop_code={r["stop"]} niter={r["niter"]} fitted '
                          f'x0={r["x0"]:.4f} y0={r["y0"]:.4f} eps={r["eps"]:.4f} pa={r["pa"]:.4f} intens={r["intens"]:.5g}; '
                          f'truth x0={t["x0"]:.4f} y0={t["y0"]:.4f} eps={t["eps"]} pa={t["pa"]:.4f}')
    # a fit of the large frame exists for the area integrators: non-trivial only when such isophotes were judged
    # (an integer image there: only when the sectors of such an isophote sum to more than the dtype holds)
    acc.case(nontrivial=((nwrap > 0) if kind == 'integer' else (nai > 0))
             if (case.get('frame', 'std') == 'large' and case['mode'] in AREA_MODE) else (njudged > 0),
             sample=sample or (vcase if (case.get('frame') == 'large' and case['pa_deg'] == 120 and case['size'] == 2.5) else None))
    acc.counters['isophotes_returned'] += len(rows)
    acc.counters['isophotes_judged'] += njudged
    acc.counters['isophotes_judged_area_integrated'] += nai
    acc.counters['isophotes_judged_area_integrated_sector_sum_beyond_integer_dtype'] += nwrap
    if kind != 'float64':
        acc.counters['fits_of_' + kind + '_images'] += 1
    if nai:
        acc.counters['fits_with_area_integrated_isophotes'] += 1
    # -- model -------------------------------------------------------------------
    mod = m.get('model')
    if mod is None:
        return
    if mod['exc']:
        acc.violation('model-raises', mod['exc'].split('(')[0], vcase, mod['exc'], 'a model image')
        return
    if fat and len(ws) >= 2:
        rlo, rhi = ws[0]['sma'], ws[-1]['sma']
        ex, where, npix, nbad = model_excess(mod["array"], case, t, rlo, rhi)
        acc.counters['model_pixels_compared'] += npix
        acc.counters['model_pixels_deviating'] += nbad
        if not nbad <= MODEL_FRAC_TOL * npix:
            pas = [r['pa'] for r in rows if r['sma'] > 0]
            jump = any(abs(b - a) > math.pi / 2 for a, b in zip(pas, pas[1:]))
            site = 'pa-wraps-between-isophotes' if jump else f'eps={case["eps"]}'
            acc.violation('model', site, vcase,
                          f'{nbad} of {npix} pixels deviate (worst relative excess {ex:.3g} at (y, x) = {where})',
                          f'at most {MODEL_FRAC_TOL:.0%} of the pixels of the elliptical annulus {rlo:.2f} <= r <= {rhi:.2f} '
                          f'deviate by more than {MODEL_RTOL}',
                          'a pixel deviates when the model is outside the range the galaxy takes within 0.5 px of the '
                          'pixel centre by more than the relative tolerance; fitted pa list: '
                          + ' '.join(f'{p:.3f}' for p in pas))


# --------------------------------------------------------------------------
# to_polar: scalar / vectorised twins
# --------------------------------------------------------------------------
TP_CENTRES = [(4.0, 4.0), (4.3, 3.6), (3.5, 4.0)]
TP_PA = [0.0, 0.5, math.pi / 2, 2.0, math.pi, -0.7, -math.pi / 2, 3.0]
TP_FORMS = ['int', 'float', 'np.float64', 'array']
SEAM = 1e-9


def circ(a, b):
    return abs(((a - b + math.pi) % (2 * math.pi)) - math.pi)


def same_angle(a, b, tol):
    """Equal within tol, or both within SEAM of the 0 / 2 pi seam and equal on the circle."""
    if abs(a - b) <= tol:
        return True
    near = lambda v: min(abs(v), abs(v - 2 * math.pi)) <= SEAM   # noqa: E731
    return near(a) and near(b) and circ(a, b) <= tol


def to_polar_geometry(acc, gi):
    from photutils.isophote import EllipseGeometry
    (x0, y0), pa = TP_CENTRES[gi // len(TP_PA)], TP_PA[gi % len(TP_PA)]
    geom = EllipseGeometry(x0, y0, 10.0, 0.3, pa)
    ys, xs = np.mgrid[0:9, 0:9]
    vcase = {'kind': 'to_polar', 'geometry': gi, 'x0': x0, 'y0': y0, 'pa': pa}
    try:
        ra, aa = geom.to_polar(xs.astype(float), ys.astype(float))
        ri, ai = geom.to_polar(xs, ys)          # integer dtype arrays
    except Exception as e:
        acc.case(nontrivial=True)
        acc.violation('to_polar-raises', 'array', vcase, repr(e), None)
        return
    ra, aa = np.asarray(ra).reshape(9, 9), np.asarray(aa).reshape(9, 9)
    ri, ai = np.asarray(ri).reshape(9, 9), np.asarray(ai).reshape(9, 9)
    worst = 0.0
    for j in range(9):
        for i in range(9):
            centre = (i == x0 and j == y0)
            # independent reference: documented convention 0 <= phi < 2 pi measured from the major axis
            rr = math.hypot(i - x0, j - y0)
            ar = (1.0 - (pa if pa >= 0 else pa + 2 * math.pi)) % (2 * math.pi) if centre else \
                (math.atan2(j - y0, i - x0) - pa) % (2 * math.pi)
            for form in TP_FORMS:
                acc.case(nontrivial=not centre,
                         sample=dict(vcase, x=i, y=j, form=form) if (gi, j, i, form) == (9, 2, 7, 'array') else None)
                try:
                    if form == 'int':
                        r, a = geom.to_polar(int(i), int(j))
                    elif form == 'float':
                        r, a = geom.to_polar(float(i), float(j))
                    elif form == 'np.float64':
                        r, a = geom.to_polar(np.float64(i), np.float64(j))
                    else:
                        r, a = ri[j, i], ai[j, i]
                    r, a = float(np.asarray(r).ravel()[0]), float(np.asarray(a).ravel()[0])
                except Exception as e:
                    acc.violation('to_polar-raises', form, dict(vcase, x=i, y=j), repr(e), None)
                    continue
                acc.outcome(round(a, 6))
                site = ('array' if form == 'array' else 'scalar') + (':pa<0' if pa < 0 else ':pa>=0')
                # (1) the property: scalar and array forms agree.  Both twins do the same arithmetic in
                # the same order (math.* vs numpy.*), 1e-12 is ~1000 ulp of 2 pi.
                if abs(r - ra[j, i]) > 1e-12 or not same_angle(a, float(aa[j, i]), 1e-12):
                    acc.violation('to_polar-scalar-vs-array', site, dict(vcase, x=i, y=j, form=form), (r, a),
                                  (float(ra[j, i]), float(aa[j, i])),
                                  f'observed = call form {form}, expected = vectorised call on the float 9x9 grid; point is '
                                  + ('the centre' if centre else 'in quadrant ' + quadrant(i - x0, j - y0)))
                # (2) documented meaning (radius, polar angle from the major axis in [0, 2 pi)); asin(|dy|/r)
                # loses at most ~1e-8 only when |dx| << |dy|, which integer points with these centres exclude
                # (dx is 0 or >= 0.3): 1e-9, measured worst on the pinned tree 1.8e-15.
                worst = max(worst, circ(a, ar))
                if abs(r - rr) > 1e-9 or circ(a, ar) > 1e-9 or not (-1e-12 <= a < 2 * math.pi + 1e-12):
                    acc.violation('to_polar-reference', site, dict(vcase, x=i, y=j, form=form), (r, a), (rr, ar),
                                  f'call form {form}; expected = hypot / atan2 reference, angle in [0, 2 pi); point is '
                                  + ('the centre' if centre else 'in quadrant ' + quadrant(i - x0, j - y0)))
    acc.counters['to_polar_worst_ref_dev_e18'] = max(acc.counters['to_polar_worst_ref_dev_e18'], int(worst * 1e18))


def quadrant(dx, dy):
    return ('x+' if dx >= 0 else 'x-') + ('y+' if dy >= 0 else 'y-')


# --------------------------------------------------------------------------
# engine interface
# --------------------------------------------------------------------------
def plan(tier, seed):
    n = len(enumerate_cases(tier))
    units = [{'kind': 'to_polar'}]
    units += [{'kind': 'fit', 'index': k} for k in range(n)]
    return units


def run_unit(unit, tier, seed):
    acc = Acc()
    if unit['kind'] == 'to_polar':
        for gi in range(len(TP_CENTRES) * len(TP_PA)):
            to_polar_geometry(acc, gi)
        return acc
    block, case = enumerate_cases(tier)[unit['index']]
    if run_case(acc, case, seed):
        acc.counters['fits:' + block] += 1
    return acc


def run_case(acc, case, seed):
    """One lattice point: not run when the start violates the documented precondition (input-only rule)."""
    why = admissible(case, truth_geometry(case, seed))
    if why:
        acc.skip(why)
        return False
    native = dtype_kind(case) == 'float64'
    # build_ellipse_model takes the isophote list only: judged for float64 images (the lists of the other dtypes are
    # compared with their float64 twin) and the three integration modes it was calibrated for
    m = evaluate(case, seed, with_model=native and case['mode'] != 'nearest_neighbor')
    judge(acc, case, m, seed)
    if not native:
        compare_representation(acc, case, m, evaluate(case, seed, with_model=False, as_float64=True))
    if case.get('sma0') is not None:
        acc.counters['fits_with_sma0_keyword'] += 1
        if geometry_sma(case) != start_sma(case):
            acc.counters['fits_with_sma0_keyword_differing_from_geometry_sma'] += 1
    return True


def replay(case, seed):
    acc = Acc()
    case = dict(case)
    if case.pop('kind', 'fit') == 'to_polar':
        to_polar_geometry(acc, case['geometry'])
        return acc
    run_case(acc, case, seed)
    return acc


def describe(tier, seed):
    blocks = []
    seen = set()
    for name, axes, override in BLOCKS[tier]:
        n = 1
        for v in axes.values():
            n *= len(v)
        blocks.append({'block': name, 'axes': {k: list(v) for k, v in axes.items()}, 'fixed': override, 'product': n})
    # area-integrated isophotes per fit of the block 'area', from the integrator's threshold rule on the INPUT sma
    ai = {}
    for name, case in enumerate_cases(tier):
        if name == 'area':
            t = truth_geometry(case, seed)
            smas = [s for s in expected_smas(case) if well_sampled(s, case, t)]
            k = f'eps={case["eps"]}'
            ai.setdefault(k, {'fits': 0, 'isophotes expected per fit': len(smas),
                              'area-integrated per fit': sum(1 for s in smas if area_integrated(s, case, t)),
                              'sma: share of sectors with >= 8 px': {f'{s:.1f}': round(sector_fraction(s, t['eps'], case), 2)
                                                                     for s in smas}})
            ai[k]['fits'] += 1
    return {'alphabet': {'frames': {k: {'(ny, nx)': list(v['shape']), 'centre0 (x, y)': list(v['centre0']), 'sma0': v['sma0']}
                                    for k, v in FRAMES.items()},
                         'defaults': DEFAULT, 'blocks': blocks,
                         'block area: isophotes that really use the area integrators': ai,
                         'distinct_fits': len(enumerate_cases(tier)),
                         'law parameters (scale in px)': LAW_PAR,
                         'start of the sma sequence': {
                             'fit_image sma0 (None = keyword not passed)': SMA0, 'EllipseGeometry.sma': GEOMSMA,
                             'growth': GROWTH_START, 'range (minsma-maxsma; default = 0-none)': RANGE_PRODUCT,
                             'growth mode given via': GROWVIA,
                             'lattice points not run (start violates the documented precondition of sma0)':
                                 sum(1 for _, c in enumerate_cases(tier) if admissible(c, truth_geometry(c, seed)))},
                         'image dtype (block dtype)': {
                             'dtypes': DTYPE if tier == 'thorough' else DTYPE[:7], 'integrmode': MODE_ALL,
                             'integer images: peak count (= 0.9 x largest value of the dtype)':
                                 {k: COUNT_FILL * v for k, v in INT_MAX.items()},
                             'reference': 'fit of the same stored values as native float64',
                             'relative tolerance of the clause representation': REPR_RTOL},
                         'init': {'truth': 'exact', 'shape': 'eps-0.1 (eps+0.1 at eps=0.05) and PA+6deg',
                                  'centre': 'x+1.0, y-0.7', 'eps': 'eps-0.1 only'},
                         'to_polar': {'centres': TP_CENTRES, 'pa': TP_PA, 'window': '9x9 integer points',
                                      'forms': TP_FORMS + ['integer-dtype array vs float array']}},
            'bound': {'admissible start': 'minsma < start < maxsma, start >= 4 px and its annuli >= 2 px inside the frame; start = sma0 keyword if given, else '
                                          'geometry.sma',
                      'sma-growth / sma-start tolerance (relative)': SMA_RTOL,
                      'well_sampled': f'sma >= {SMA_MIN}, sma*(1-eps) >= {B_MIN}, bounding box of the outer annulus edge '
                                      f'>= {EDGE} px inside the frame (all from the input geometry)',
                      'area_integrated': f'integrmode mean/median and >= {AREA_FRACTION_MIN:.0%} of the sectors of the isophote have '
                                         f'nominal area >= {SECTOR_PIX:g} px (integrator rule: sectors with <= 6 pixels fall back '
                                         'to bilinear sampling); from the input sma, eps, step only',
                      'centre tolerance of area-integrated isophotes [px] (max with 3 x reported error)':
                          {f'eps={k[0]} {k[1]} centre={k[2]}': round(v['x0'], 3) for k, v in TOL_AI.items()},
                      'generic reals from seed': generic(seed)}}
