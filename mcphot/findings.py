"""Known findings: /verif/known_findings.json, committed, never written at run time.

Entries:
  {"property": "C13", "status": "open", "key": "prf-sum|GaussianPRF rotated", "what": "..."}
  {"property": "C05", "status": "fixed", "commit": "<sha>", "key": "...", "what": "..."}

Only ``open`` entries suppress anything, and only violations whose key
(``clause|site``, computed by the property module from the failing case) equals
the entry's key (fnmatch patterns allowed).  A ``fixed`` entry suppresses
nothing: if the violation comes back it is reported as VIOLATION.
"""
import fnmatch
import json
import os

PATH = os.path.join(os.path.dirname(os.path.dirname(os.path.abspath(__file__))), 'known_findings.json')


def load(prop):
    if not os.path.exists(PATH):
        return []
    with open(PATH) as fh:
        doc = json.load(fh)
    return [f for f in doc.get('findings', []) if f.get('property') == prop and f.get('status') == 'open']


def match(known, key):
    for f in known:
        if f['key'] == key or fnmatch.fnmatchcase(key, f['key']):
            return f
    return None
