"""Rebuild photutils/geometry/*.so from the generated *.c when stale.

No Cython exists in this sandbox, so a .pyx edit cannot be translated; the
generated .c files are present (gitignored) and are recompiled with gcc when
they are newer than their .so (or the .so is missing).  Returns the list of
extensions whose .pyx is newer than its .c (tested as compiled: "stale")."""
import glob
import os
import subprocess
import sys
import sysconfig


def ensure(verbose=False):
    repo = os.environ.get('VERIF_REPO', '/repo')
    geo = os.path.join(repo, 'photutils', 'geometry')
    suffix = sysconfig.get_config_var('EXT_SUFFIX')
    stale = []
    for c in sorted(glob.glob(os.path.join(geo, '*.c'))):
        base = c[:-2]
        so = base + suffix
        pyx = base + '.pyx'
        if os.path.exists(pyx) and os.path.getmtime(pyx) > os.path.getmtime(c) + 1:
            # cannot regenerate the .c; only flag it if the content really differs from HEAD
            r = subprocess.run(['git', '-C', repo, 'diff', '--quiet', 'HEAD', '--', os.path.relpath(pyx, repo)])
            if r.returncode != 0:
                stale.append(os.path.basename(pyx))
        if (not os.path.exists(so)) or os.path.getmtime(c) > os.path.getmtime(so):
            import numpy
            cmd = ['gcc', '-O2', '-shared', '-fPIC', '-w',
                   '-I' + sysconfig.get_paths()['include'], '-I' + numpy.get_include(),
                   c, '-o', so + '.tmp', '-lm']
            r = subprocess.run(cmd, capture_output=True, text=True)
            if r.returncode != 0:
                print('HARNESS-ERROR cannot rebuild', c, r.stderr[-2000:])
                sys.exit(2)
            os.replace(so + '.tmp', so)
            if verbose:
                print('rebuilt', so)
    return stale


if __name__ == '__main__':
    print('stale:', ensure(verbose=True))
