"""Evidence files: /verif/evidence/<id>.json, rewritten on every run and
validated against EVIDENCE.schema.json (by the tooling interpreter python3-vt,
which has jsonschema; /venv does not)."""
import json
import os
import shutil
import subprocess
import sys

VERIF = os.path.dirname(os.path.dirname(os.path.abspath(__file__)))

_VALIDATE = r'''
import json, sys, jsonschema
doc = json.load(open(sys.argv[1])); sch = json.load(open(sys.argv[2]))
jsonschema.validate(doc, sch)
'''


def schema_path():
    for p in ('/root/.vp/EVIDENCE.schema.json', os.path.join(VERIF, 'schemas', 'EVIDENCE.schema.json')):
        if os.path.exists(p):
            return p
    return None


def write(prop, doc):
    out = os.environ.get('VERIF_OUT', VERIF)
    os.makedirs(os.path.join(out, 'evidence'), exist_ok=True)
    path = os.path.join(out, 'evidence', f'{prop}.json')
    tmp = path + '.tmp'
    with open(tmp, 'w') as fh:
        json.dump(doc, fh, indent=1, sort_keys=True, default=str)
    vt = shutil.which('python3-vt') or '/opt/veriftools/pyvenv/bin/python'
    sch = schema_path()
    if sch and os.path.exists(vt):
        env = {k: v for k, v in os.environ.items() if k != 'PYTHONPATH'}
        r = subprocess.run([vt, '-c', _VALIDATE, tmp, sch], capture_output=True, text=True, env=env)
        if r.returncode != 0:
            print('HARNESS-ERROR evidence does not validate:', r.stderr[-800:])
            os.replace(tmp, path + '.invalid')
            sys.exit(2)
    os.replace(tmp, path)
    return path
