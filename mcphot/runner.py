"""Tier/seed handling, sharding over worker processes, aggregation, violation
grouping, known-finding matching, fresh-interpreter confirmation, evidence.

A property module (mcphot/props/cNN.py) provides

    PROPERTY = 'C05'
    LEVEL    = 'model_checking' | 'exploration' | ...
    RULE     = 'how cases are enumerated and what makes one non-trivial'
    def plan(tier, seed)            -> list of units (small picklable dicts)
    def run_unit(unit, tier, seed)  -> Acc
    def replay(case, seed)          -> Acc   (re-executes ONE case, no explorer)
    ASSUMPTIONS = [...]             (optional)
    def describe(tier, seed)        -> dict  (optional: alphabet / bound for the evidence)
"""
import collections
import hashlib
import importlib
import json
import multiprocessing as mp
import os
import subprocess
import sys
import time
import traceback

from . import evidence as ev
from . import findings as fd
from .snapshot import jsonable, short

VERIF = os.path.dirname(os.path.dirname(os.path.abspath(__file__)))
MAX_SAMPLES = 6
MAX_REPORTED = 40       # distinct violation keys written out per run
MAX_CONFIRM = 6         # of those, re-executed twice in a fresh interpreter


class Acc:
    """Accumulator a unit fills while it explores."""

    def __init__(self):
        self.evaluations = 0
        self.nontrivial = 0
        self.keys = set()            # optional dedup keys of non-trivial cases
        self.violations = []         # dicts
        self.samples = []
        self.states = 0
        self.transitions = 0
        self.traces = 0
        self.state_keys = None       # optional set of state hashes (merged across units)
        self.skipped = collections.Counter()
        self.counters = collections.Counter()
        self.outcomes = set()        # distinct observed outcomes (vacuity guard)
        self.capped = False
        self.notes = []

    # -- cases ------------------------------------------------------------
    def case(self, nontrivial=True, key=None, sample=None):
        self.evaluations += 1
        if nontrivial:
            if key is None:
                self.nontrivial += 1
            else:
                self.keys.add(key)
        if sample is not None and len(self.samples) < MAX_SAMPLES:
            self.samples.append(jsonable(sample))

    def skip(self, reason):
        self.skipped[reason] += 1

    def outcome(self, o):
        if len(self.outcomes) < 5000:
            self.outcomes.add(o if isinstance(o, (str, int, bytes)) else hashlib.blake2b(repr(o).encode(), digest_size=8).hexdigest())

    def violation(self, clause, site, case, observed=None, expected=None, detail=''):
        """``clause`` names the part of the property's oracle that failed,
        ``site`` the call site / predicate on the case that identifies *which*
        defect this is (used for grouping and known-finding matching)."""
        if len(self.violations) < 400:
            self.violations.append({
                'clause': clause, 'site': site, 'key': f'{clause}|{site}',
                'case': jsonable(case), 'observed': short(observed, 400),
                'expected': short(expected, 400), 'detail': str(detail)[:600]})
        self.counters['violating_cases'] += 1

    def merge(self, other):
        self.evaluations += other.evaluations
        self.nontrivial += other.nontrivial
        self.keys |= other.keys
        self.violations += other.violations
        for s in other.samples:
            if len(self.samples) < MAX_SAMPLES:
                self.samples.append(s)
        self.states += other.states
        self.transitions += other.transitions
        self.traces += other.traces
        if other.state_keys is not None:
            if self.state_keys is None:
                self.state_keys = set()
            self.state_keys |= other.state_keys
        self.skipped.update(other.skipped)
        self.counters.update(other.counters)
        self.outcomes |= other.outcomes
        self.capped = self.capped or other.capped
        self.notes += other.notes


def load(prop):
    return importlib.import_module(f'mcphot.props.{prop.lower()}')


def _run_one(args):
    prop, idx, unit, tier, seed = args
    t0 = time.time()
    try:
        mod = load(prop)
        import warnings
        with warnings.catch_warnings():
            warnings.simplefilter('ignore')
            acc = mod.run_unit(unit, tier, seed)
        return idx, acc, None, time.time() - t0
    except BaseException:  # harness error: never a property verdict
        return idx, None, traceback.format_exc(), time.time() - t0


def repo_state():
    repo = os.environ.get('VERIF_REPO', '/repo')
    try:
        head = subprocess.run(['git', '-C', repo, 'rev-parse', 'HEAD'], capture_output=True, text=True).stdout.strip()
        dirty = bool(subprocess.run(['git', '-C', repo, 'status', '--porcelain', '--untracked-files=no'],
                                    capture_output=True, text=True).stdout.strip())
    except Exception:
        head, dirty = '?', None
    return {'repo': repo, 'head': head, 'dirty': dirty}


def assert_tree():
    import photutils
    repo = os.path.realpath(os.environ.get('VERIF_REPO', '/repo'))
    f = os.path.realpath(photutils.__file__)
    if not f.startswith(repo + os.sep):
        print(f'HARNESS-ERROR photutils imported from {f}, expected under {repo}')
        sys.exit(2)


def run(prop, tier, seed, nproc=None, only_units=None):
    t0 = time.time()
    from . import buildext
    stale = buildext.ensure()
    assert_tree()
    mod = load(prop)
    units = mod.plan(tier, seed)
    if only_units is not None:
        units = [units[i] for i in only_units]
    nproc = nproc or int(os.environ.get('VERIF_NPROC', '0')) or min(16, os.cpu_count() or 1)
    total = Acc()
    errors = []
    jobs = [(prop, i, u, tier, seed) for i, u in enumerate(units)]
    results = {}
    if nproc == 1 or len(jobs) <= 1:
        for j in jobs:
            i, acc, err, dt = _run_one(j)
            results[i] = (acc, err, dt)
    else:
        ctx = mp.get_context('fork')
        with ctx.Pool(min(nproc, len(jobs)), maxtasksperchild=None) as pool:
            for i, acc, err, dt in pool.imap_unordered(_run_one, jobs, chunksize=1):
                results[i] = (acc, err, dt)
    unit_times = []
    for i in sorted(results):          # deterministic merge order
        acc, err, dt = results[i]
        unit_times.append(round(dt, 2))
        if err:
            errors.append((i, units[i], err))
        else:
            total.merge(acc)
    if errors:
        for i, u, err in errors[:3]:
            print(f'HARNESS-ERROR unit {i} {short(u)}\n{err}')
        sys.exit(2)
    return finish(prop, mod, tier, seed, total, t0, len(units), unit_times, stale)


def finish(prop, mod, tier, seed, total, t0, nunits, unit_times, stale):
    # ---- group violations ------------------------------------------------
    groups = collections.OrderedDict()
    for v in total.violations:
        groups.setdefault(v['key'], []).append(v)
    known = fd.load(prop)
    new_keys, known_hit = [], collections.OrderedDict()
    for key, vs in groups.items():
        f = fd.match(known, key)
        if f is not None:
            known_hit.setdefault(f['key'], (f, 0))
            known_hit[f['key']] = (f, known_hit[f['key']][1] + len(vs))
        else:
            new_keys.append(key)
    for f, n in known_hit.values():
        print(f'KNOWN-FINDING: property={prop} {f["what"]} [key={f["key"]}; {n} recorded cases this run]')
    reported = []
    unconfirmed = []
    for n, key in enumerate(new_keys[:MAX_REPORTED]):
        v = groups[key][0]
        path = write_replay(prop, v, seed)
        if n < MAX_CONFIRM:
            status = confirm(prop, path, key)
            if status == 'nondeterministic':
                # observed while exploring, but the single case does not reproduce from a fresh process: either the
                # harness is nondeterministic, or the outcome depends on cases executed earlier in the same worker
                # (state kept outside the objects).  Never reported as a verdict on its own.
                print(f'UNCONFIRMED replay of {path} is not reproducible in a fresh interpreter (key {key})')
                unconfirmed.append(key)
                continue
        print(f'VIOLATION property={prop} replay={path}')
        print(f'  clause={v["clause"]} site={v["site"]} cases={len(groups[key])}')
        print(f'  case={short(v["case"], 300)}')
        print(f'  observed={v["observed"]}\n  expected={v["expected"]}\n  {v["detail"]}')
        reported.append(key)
    if len(new_keys) > MAX_REPORTED:
        print(f'  … {len(new_keys) - MAX_REPORTED} further distinct violation keys not written out')
    nontrivial = total.nontrivial + len(total.keys)
    states = len(total.state_keys) if total.state_keys is not None else total.states
    wall = time.time() - t0
    cov = {
        'evaluations': int(total.evaluations),
        'distinct_nontrivial': int(nontrivial),
        'rule': getattr(mod, 'RULE', ''),
        'samples': total.samples[:MAX_SAMPLES] or ['<none>'],
        'exhaustive': (not total.capped),
        'units': nunits,
        'skipped': dict(total.skipped),
        'counters': dict(total.counters),
        'distinct_outcomes': len(total.outcomes),
        'known_findings_hit': [f['key'] for f, _ in known_hit.values()],
        'violation_keys': new_keys[:MAX_REPORTED],
        'unconfirmed_violation_keys': unconfirmed,
        'tree': repo_state(),
        'stale_extension': bool(stale),
        'slowest_units_s': sorted(unit_times)[-3:],
    }
    if total.notes:
        cov['notes'] = total.notes[:20]
    if hasattr(mod, 'describe'):
        try:
            cov.update(mod.describe(tier, seed))
        except Exception as e:  # pragma: no cover
            cov['describe_error'] = repr(e)
    if states or total.transitions:
        cov['states'] = int(states)
        cov['transitions'] = int(total.transitions)
        cov['traces_validated_against_impl'] = int(total.traces)
    doc = {
        'property_id': prop, 'tier': tier, 'seed': int(seed), 'level': mod.LEVEL,
        'coverage': cov,
        'assumptions': list(getattr(mod, 'ASSUMPTIONS', [])),
        'wall_s': round(wall, 2),
        'violations': len(new_keys),
    }
    ev.write(prop, doc)
    print(f'{prop} tier={tier} seed={seed} evaluations={total.evaluations} nontrivial={nontrivial} '
          f'states={states} transitions={total.transitions} outcomes={len(total.outcomes)} '
          f'skipped={sum(total.skipped.values())} known={len(known_hit)} violations={len(new_keys)} '
          f'wall={wall:.1f}s' + (' CAPPED' if total.capped else ''))
    if reported:
        return 1
    if unconfirmed or new_keys:
        # violations were observed but none could be confirmed from a fresh interpreter: harness error, not a verdict
        print(f'HARNESS-ERROR {len(unconfirmed)} violation key(s) observed but not reproducible from a fresh interpreter')
        return 2
    return 0


def write_replay(prop, v, seed):
    body = {'property': prop, 'key': v['key'], 'clause': v['clause'], 'site': v['site'],
            'seed': int(seed), 'case': v['case'], 'observed': v['observed'],
            'expected': v['expected'], 'detail': v['detail'],
            'how': f'./check {prop} --replay <this file>   (runs only this case, no explorer)'}
    sha = hashlib.sha1(json.dumps([v['key'], v['case']], sort_keys=True).encode()).hexdigest()[:12]
    d = os.path.join(os.environ.get('VERIF_OUT', VERIF), 'replays', prop)
    os.makedirs(d, exist_ok=True)
    path = os.path.join(d, f'{sha}.json')
    with open(path, 'w') as fh:
        json.dump(body, fh, indent=1, sort_keys=True)
    return path


def confirm(prop, path, key):
    """Re-execute the replay twice in a fresh interpreter."""
    outs = []
    for _ in range(2):
        r = subprocess.run([os.path.join(VERIF, 'check'), prop, '--replay', path, '--machine'],
                           capture_output=True, text=True)
        line = [ln for ln in r.stdout.splitlines() if ln.startswith('REPLAY-RESULT ')]
        outs.append((r.returncode, line[-1] if line else r.stdout[-300:] + r.stderr[-300:]))
    if outs[0] != outs[1] or outs[0][0] != 1:
        print('  replay runs:', outs)
        return 'nondeterministic'
    return 'ok'


def replay(prop, path, machine=False):
    from . import buildext
    buildext.ensure()
    assert_tree()
    mod = load(prop)
    body = json.load(open(path))
    import warnings
    with warnings.catch_warnings():
        warnings.simplefilter('ignore')
        acc = mod.replay(body['case'], body.get('seed', 0))
    want = body.get('key')
    vs = [v for v in acc.violations if want is None or v['key'] == want] or acc.violations
    if machine:
        sig = hashlib.sha1(json.dumps([(v['key'], v['observed']) for v in vs], sort_keys=True).encode()).hexdigest()
        print(f'REPLAY-RESULT {len(vs)} {sig}')
    else:
        print(f'replay {path}: {len(vs)} violation(s)')
        for v in vs[:5]:
            print(f'  key={v["key"]}\n  case={short(v["case"], 400)}\n  observed={v["observed"]}\n  expected={v["expected"]}\n  {v["detail"]}')
    if vs:
        if not machine:
            print(f'VIOLATION property={prop} replay={path}')
        return 1
    return 0
