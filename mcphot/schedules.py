"""Shape (B): schedule enumeration under a controlled executor.

``photutils.segmentation.deblend`` uses a process pool through exactly two
module-level names, ``ProcessPoolExecutor`` and ``as_completed``.  The only
nondeterminism the parent process can observe is the order in which
``as_completed`` yields the futures.  This module provides

``controlled(module, perm)``
    context manager that rebinds the two names to an *in-process recording
    executor*: ``submit`` pickles ``(fn, args, kwargs)`` (what the real pool
    does on the way to the worker) and returns a stub future; the stub
    ``as_completed`` executes the tasks lazily and yields the futures in the
    prescribed completion order ``perm`` (a permutation of the submission
    indices); every result goes through a pickle round trip on the way back.
    Enumerating all ``N!`` permutations is a superset of what any ``nproc``
    can produce.  The stub exposes *nothing* but the API the model covers
    (constructor keywords ``max_workers``/``mp_context``, the context manager,
    ``submit``, ``as_completed(fs)``, ``Future.result()`` and
    ``Future.exception()``): any other
    attribute access raises :class:`ModelMismatch`, which the harness treats
    as "the model no longer describes the code" (exit 2), never as a verdict.

``free_running(module)``
    the same recording, wrapped around the REAL ``ProcessPoolExecutor`` (spawn
    workers) and the real ``as_completed``: used by the conformance pass to
    show that the stub's event alphabet is the one the code really uses and
    that the result of a real run equals the serial result.

Both record an *event log* (``Session.events``) and the sequence of *merge
states* -- the set of submission indices whose result the parent has consumed
so far -- observed at every ``Future.result()`` call.
"""
import contextlib
import itertools
import multiprocessing
import pickle


class ModelMismatch(RuntimeError):
    """The code under test used the executor API outside the modelled subset."""


_FUTURE_API = ('result', 'exception')
_EXECUTOR_API = ('submit', '__enter__', '__exit__')


class Session:
    """Recording shared by the executor, its futures and as_completed."""

    def __init__(self, perm=None):
        self.perm = None if perm is None else tuple(perm)
        self.events = []           # the API trace
        self.tasks = []            # pickled (fn, args, kwargs) in submission order
        self.futures = []          # stub / proxy futures in submission order
        self.consumed = []         # submission indices in the order result() was first called
        self.states = [frozenset()]  # merge states: frozenset(consumed) after each result()
        self.completion = []       # order in which as_completed yielded
        self.executors = 0
        self.entered = False
        self.exited = False
        self.as_completed_calls = 0

    def note_result(self, idx):
        self.events.append(('result', idx))
        if idx not in self.consumed:
            self.consumed.append(idx)
            self.states.append(frozenset(self.consumed))

    # --- a normal form of the event log that does not depend on the order ----
    def shape(self):
        """Event log with the submission indices of yield/result events
        replaced by their rank of first appearance: two runs that use the API
        in the same way have equal shapes whatever the completion order."""
        rank = {}
        out = []
        for e in self.events:
            if e[0] in ('yield', 'result', 'exception', 'forced'):
                r = rank.setdefault(e[1], len(rank))
                out.append((e[0], r))
            else:
                out.append(e)
        return out


def _ctor_event(args, kwargs):
    if args:
        raise ModelMismatch(f'ProcessPoolExecutor called with positional arguments {args!r}')
    unknown = sorted(set(kwargs) - {'max_workers', 'mp_context'})
    if unknown:
        raise ModelMismatch(f'ProcessPoolExecutor called with unmodelled keywords {unknown}')
    ctx = kwargs.get('mp_context')
    method = None if ctx is None else ctx.get_start_method()
    return ('ctor', kwargs.get('max_workers'), method)


class _Guarded:
    """Base class: any attribute outside the modelled API is a ModelMismatch."""

    _api = ()
    _what = ''

    def __getattr__(self, name):
        # only called for attributes that are not found normally
        if name.startswith('__') and name.endswith('__'):
            raise AttributeError(name)
        raise ModelMismatch(f'code under test used {self._what}.{name}, which the schedule model does not cover '
                            f'(modelled: {", ".join(self._api)})')


class StubFuture(_Guarded):
    _api = _FUTURE_API
    _what = 'Future'

    def __init__(self, session, idx):
        object.__setattr__(self, '_s', session)
        object.__setattr__(self, '_idx', idx)
        object.__setattr__(self, '_done', False)
        object.__setattr__(self, '_blob', None)
        object.__setattr__(self, '_exc', None)

    def _run(self):
        """Execute the task now: unpickle the call, run it, pickle the outcome."""
        if self._done:
            return
        fn, args, kwargs = pickle.loads(self._s.tasks[self._idx])
        try:
            res = fn(*args, **kwargs)
            object.__setattr__(self, '_blob', pickle.dumps(res, protocol=pickle.HIGHEST_PROTOCOL))
        except Exception as e:  # the real pool ships the exception back and result() re-raises it
            object.__setattr__(self, '_exc', pickle.dumps(e))
        object.__setattr__(self, '_done', True)

    def result(self, timeout=None):
        if timeout is not None:
            raise ModelMismatch('Future.result(timeout=...) is not modelled')
        if not self._done:
            # legal with a real pool (it would block until the worker is done)
            self._s.events.append(('forced', self._idx))
            self._run()
        self._s.note_result(self._idx)
        if self._exc is not None:
            raise pickle.loads(self._exc)
        return pickle.loads(self._blob)

    def exception(self, timeout=None):
        """Blocks like result() but does not consume the result."""
        if timeout is not None:
            raise ModelMismatch('Future.exception(timeout=...) is not modelled')
        if not self._done:
            self._s.events.append(('forced', self._idx))
            self._run()
        self._s.events.append(('exception', self._idx))
        return None if self._exc is None else pickle.loads(self._exc)


class StubExecutor(_Guarded):
    _api = _EXECUTOR_API
    _what = 'ProcessPoolExecutor'

    def __init__(self, session, args, kwargs):
        object.__setattr__(self, '_s', session)
        session.executors += 1
        if session.executors > 1:
            raise ModelMismatch('more than one executor created in one call')
        session.events.append(_ctor_event(args, kwargs))

    def __enter__(self):
        self._s.entered = True
        self._s.events.append(('enter',))
        return self

    def __exit__(self, *exc):
        self._s.exited = True
        self._s.events.append(('exit',))
        return False

    def submit(self, fn, /, *args, **kwargs):
        s = self._s
        if not s.entered or s.exited:
            raise ModelMismatch('submit outside the executor context manager')
        # arguments cross a process boundary in the real pool
        s.tasks.append(pickle.dumps((fn, args, kwargs), protocol=pickle.HIGHEST_PROTOCOL))
        fut = StubFuture(s, len(s.futures))
        s.futures.append(fut)
        s.events.append(('submit', fut._idx))
        return fut


def _stub_as_completed(session):
    def as_completed(fs, timeout=None):
        if timeout is not None:
            raise ModelMismatch('as_completed(timeout=...) is not modelled')
        session.as_completed_calls += 1
        if session.as_completed_calls > 1:
            raise ModelMismatch('as_completed called more than once')
        fs = list(fs)
        if len({id(f) for f in fs}) != len(fs) or {id(f) for f in fs} != {id(f) for f in session.futures}:
            raise ModelMismatch('as_completed was not given exactly the submitted futures')
        session.events.append(('as_completed', len(fs)))
        perm = session.perm if session.perm is not None else tuple(range(len(fs)))
        if sorted(perm) != list(range(len(session.futures))):
            raise ModelMismatch(f'prescribed order {perm} is not a permutation of the {len(session.futures)} tasks')

        def gen():
            for idx in perm:
                fut = session.futures[idx]
                fut._run()
                session.completion.append(idx)
                session.events.append(('yield', idx))
                yield fut
        return gen()
    return as_completed


@contextlib.contextmanager
def controlled(module, perm):
    """Rebind ``module.ProcessPoolExecutor`` / ``module.as_completed`` to the
    in-process stub with completion order ``perm``; yields the Session."""
    for name in ('ProcessPoolExecutor', 'as_completed'):
        if not hasattr(module, name):
            raise ModelMismatch(f'{module.__name__} has no module-level name {name}: the pool is used differently')
    session = Session(perm)
    saved = (module.ProcessPoolExecutor, module.as_completed)
    module.ProcessPoolExecutor = lambda *a, **k: StubExecutor(session, a, k)
    module.as_completed = _stub_as_completed(session)
    try:
        yield session
    finally:
        module.ProcessPoolExecutor, module.as_completed = saved


# ---------------------------------------------------------------------------
# free running: the real pool behind the same recording
class ProxyFuture(_Guarded):
    _api = _FUTURE_API
    _what = 'Future'

    def __init__(self, session, idx, real):
        object.__setattr__(self, '_s', session)
        object.__setattr__(self, '_idx', idx)
        object.__setattr__(self, '_real', real)

    def result(self, timeout=None):
        if timeout is not None:
            raise ModelMismatch('Future.result(timeout=...) is not modelled')
        if not self._real.done():
            self._s.events.append(('forced', self._idx))
        res = self._real.result()
        self._s.note_result(self._idx)
        return res

    def exception(self, timeout=None):
        if timeout is not None:
            raise ModelMismatch('Future.exception(timeout=...) is not modelled')
        if not self._real.done():
            self._s.events.append(('forced', self._idx))
        self._s.events.append(('exception', self._idx))
        return self._real.exception()


class ProxyExecutor(_Guarded):
    _api = _EXECUTOR_API
    _what = 'ProcessPoolExecutor'

    def __init__(self, session, real_cls, args, kwargs):
        object.__setattr__(self, '_s', session)
        session.executors += 1
        if session.executors > 1:
            raise ModelMismatch('more than one executor created in one call')
        session.events.append(_ctor_event(args, kwargs))
        object.__setattr__(self, '_real', real_cls(*args, **kwargs))

    def __enter__(self):
        self._real.__enter__()
        self._s.entered = True
        self._s.events.append(('enter',))
        return self

    def __exit__(self, *exc):
        self._s.exited = True
        self._s.events.append(('exit',))
        return self._real.__exit__(*exc)

    def submit(self, fn, /, *args, **kwargs):
        s = self._s
        real = self._real.submit(fn, *args, **kwargs)
        fut = ProxyFuture(s, len(s.futures), real)
        s.futures.append(fut)
        s.events.append(('submit', fut._idx))
        return fut


@contextlib.contextmanager
def free_running(module):
    """Rebind the two names to recording proxies around the REAL
    ``concurrent.futures.ProcessPoolExecutor`` / ``as_completed``."""
    import concurrent.futures as cf
    session = Session(None)
    saved = (module.ProcessPoolExecutor, module.as_completed)

    def as_completed(fs, timeout=None):
        if timeout is not None:
            raise ModelMismatch('as_completed(timeout=...) is not modelled')
        session.as_completed_calls += 1
        fs = list(fs)
        if {id(f) for f in fs} != {id(f) for f in session.futures}:
            raise ModelMismatch('as_completed was not given exactly the submitted futures')
        session.events.append(('as_completed', len(fs)))
        back = {id(f._real): f for f in fs}

        def gen():
            for real in cf.as_completed([f._real for f in fs]):
                fut = back[id(real)]
                session.completion.append(fut._idx)
                session.events.append(('yield', fut._idx))
                yield fut
        return gen()

    module.ProcessPoolExecutor = lambda *a, **k: ProxyExecutor(session, cf.ProcessPoolExecutor, a, k)
    module.as_completed = as_completed
    # the engine's fork-pool workers are daemonic and daemonic processes may not
    # start children; the flag is only consulted by Process.start().
    cfg = multiprocessing.current_process()._config
    was_daemon = cfg.get('daemon')
    cfg['daemon'] = False
    try:
        yield session
    finally:
        if was_daemon is not None:
            cfg['daemon'] = was_daemon
        module.ProcessPoolExecutor, module.as_completed = saved


# ---------------------------------------------------------------------------
def permutations(n):
    """All n! completion orders, identity first, in lexicographic order."""
    return itertools.permutations(range(n))


def fifo_feasible(perm, workers):
    """True if completion order ``perm`` can occur with ``workers`` processes
    that start tasks in submission order: when the k-th future completes,
    at most k + workers tasks have been started."""
    return all(idx < k + workers for k, idx in enumerate(perm))
