"""Deep, bit-exact snapshots / digests / comparisons of the values photutils
hands around (ndarray, MaskedArray, Quantity, NDData, Table, astropy Model,
apertures, SegmentationImage, BoundingBox, SkyCoord, plain containers).

``digest(obj)``   canonical hashable form used (a) as the state key of the
                  history explorer and (b) as the before/after snapshot of C10.
                  A value of an unknown type yields a *unique* token, so two
                  states containing it are never merged (over-fine, never
                  unsound).
``diff(a, b)``    None if equal (NaN-aware, bit-exact by default, or within
                  rtol/atol), else a short human-readable description of the
                  first difference.
"""
import hashlib
import itertools
import numbers

import numpy as np

_unique = itertools.count()


class Unmergeable:
    """Token for values the digester does not understand."""

    def __init__(self, why):
        self.why = why
        self.n = next(_unique)

    def __repr__(self):
        return f'<unmergeable {self.why} #{self.n}>'

    def __hash__(self):
        return hash(('unmergeable', self.n))

    def __eq__(self, other):
        return self is other


def _arr_digest(a):
    a = np.asarray(a)
    if a.dtype == object:
        return ('objarr', a.shape, tuple(digest(x) for x in a.ravel().tolist()))
    b = np.ascontiguousarray(a)
    h = hashlib.blake2b(b.tobytes(), digest_size=12).hexdigest()
    return ('arr', a.dtype.str, a.shape, h)


def digest(obj, _depth=0, _seen=None):
    """Canonical, hashable digest of ``obj`` (see module docstring)."""
    if _depth > 12:
        return Unmergeable('too deep')
    if _seen is None:
        _seen = {}
    if obj is None or isinstance(obj, (bool, str, bytes)):
        return ('v', type(obj).__name__, obj)
    if isinstance(obj, (numbers.Integral,)) and not isinstance(obj, np.generic):
        return ('v', 'int', int(obj))
    if isinstance(obj, float):
        return ('v', 'float', repr(obj))
    if isinstance(obj, complex):
        return ('v', 'complex', repr(obj))
    # break cycles for container / object types
    oid = id(obj)
    if oid in _seen:
        return ('cycle', _seen[oid])
    d = _depth + 1

    import astropy.units as u
    from astropy.table import Table, Row
    from astropy.nddata import NDData

    if isinstance(obj, u.Quantity):
        return ('quantity', str(obj.unit), _arr_digest(obj.value))
    if isinstance(obj, np.ma.MaskedArray):
        return ('masked', _arr_digest(obj.data), _arr_digest(np.ma.getmaskarray(obj)),
                repr(obj.fill_value), obj.mask is np.ma.nomask)
    if isinstance(obj, np.ndarray):
        return _arr_digest(obj)
    if isinstance(obj, np.generic):
        return ('npscalar', obj.dtype.str, obj.tobytes().hex())
    if isinstance(obj, u.UnitBase):
        return ('unit', str(obj))
    if isinstance(obj, slice):
        return ('slice', digest(obj.start), digest(obj.stop), digest(obj.step))
    _seen[oid] = len(_seen)
    try:
        if isinstance(obj, (list, tuple)):
            return (type(obj).__name__,) + tuple(digest(x, d, _seen) for x in obj)
        if isinstance(obj, (set, frozenset)):
            return ('set',) + tuple(sorted((repr(digest(x, d, _seen)) for x in obj)))
        if isinstance(obj, dict):
            items = [(repr(k), digest(v, d, _seen)) for k, v in obj.items()]
            return ('dict', type(obj).__name__) + tuple(sorted(items, key=lambda t: t[0]))
        if isinstance(obj, Table):
            cols = tuple((n, digest(obj[n].data if not isinstance(obj[n], u.Quantity)
                                    else u.Quantity(obj[n]), d, _seen))
                         for n in obj.colnames)
            meta = digest({k: v for k, v in obj.meta.items() if k not in ('date',)},
                          d, _seen)
            return ('table', type(obj).__name__, cols, meta)
        if isinstance(obj, Row):
            return ('row', obj.index, digest(obj.table, d, _seen))
        if isinstance(obj, NDData):
            return ('nddata', type(obj).__name__, digest(obj.data, d, _seen),
                    digest(obj.mask, d, _seen), digest(obj.unit, d, _seen),
                    digest(getattr(obj.uncertainty, 'array', None), d, _seen),
                    type(obj.uncertainty).__name__)
        try:
            from astropy.modeling import Model
        except Exception:  # pragma: no cover
            Model = ()
        if isinstance(obj, Model):
            parts = [type(obj).__name__]
            for name in obj.param_names:
                p = getattr(obj, name)
                parts.append((name, digest(p.quantity if p.unit is not None else p.value, d, _seen),
                              bool(p.fixed), repr(p.bounds), repr(p.tied)))
            for k in ('data', 'grid_xypos', 'oversampling', 'origin', 'fill_value',
                      'meta', '_grid_xpos', '_grid_ypos', '_xidx', '_yidx'):
                if k in vars(obj) or (k[0] != '_' and hasattr(type(obj), k) is False and hasattr(obj, k)):
                    try:
                        parts.append((k, digest(getattr(obj, k), d, _seen)))
                    except Exception:
                        pass
            if hasattr(obj, 'left') and hasattr(obj, 'right'):
                parts.append((digest(obj.left, d, _seen), obj.op, digest(obj.right, d, _seen)))
            return ('model',) + tuple(parts)
        try:
            from astropy.coordinates import SkyCoord
            if isinstance(obj, SkyCoord):
                return ('skycoord', obj.frame.name, _arr_digest(obj.spherical.lon.deg),
                        _arr_digest(obj.spherical.lat.deg))
        except Exception:  # pragma: no cover
            pass
        tname = type(obj).__module__ + '.' + type(obj).__qualname__
        if tname.startswith('shapely.'):
            return ('shapely', obj.wkt)
        if tname.startswith('astropy.wcs'):
            return ('wcs', repr(obj.to_header()) if hasattr(obj, 'to_header') else tname)
        if tname.startswith(('photutils.', 'mcphot.')) or tname.startswith('astropy.stats'):
            dd = getattr(obj, '__dict__', None)
            if dd is None:
                slots = getattr(type(obj), '__slots__', ())
                dd = {s: getattr(obj, s, None) for s in slots}
            return ('obj', tname, digest(dict(dd), d, _seen))
        if callable(obj):
            return ('callable', getattr(obj, '__module__', '?'), getattr(obj, '__qualname__', repr(type(obj))))
        if tname.startswith(('scipy.interpolate', 'astropy.')):
            # opaque helper objects: identity-free digest by type only is
            # unsound for merging, so keep them unmergeable
            return Unmergeable(tname)
        return Unmergeable(tname)
    finally:
        _seen.pop(oid, None)


def key(obj):
    """Fixed-size hash of ``digest(obj)`` (state keys of the explorer)."""
    return hashlib.blake2b(repr(digest(obj)).encode(), digest_size=12).hexdigest()


def short(x, n=200):
    s = repr(x)
    s = ' '.join(s.split())
    return s if len(s) <= n else s[:n] + '…'


def _is_num(x):
    return isinstance(x, (numbers.Number, np.generic)) and not isinstance(x, (bool, np.bool_))


def diff(a, b, rtol=0.0, atol=0.0, path='', check_type=True, equal_nan=True):
    """Return None when ``a`` and ``b`` are equal, else a description."""
    import astropy.units as u
    from astropy.table import Table

    def fail(msg):
        return f'{path or "<value>"}: {msg}'

    if a is None or b is None:
        if a is None and b is None:
            return None
        return fail(f'{short(a)} != {short(b)}')
    if isinstance(a, u.Quantity) or isinstance(b, u.Quantity):
        if not (isinstance(a, u.Quantity) and isinstance(b, u.Quantity)):
            return fail(f'unit presence differs: {type(a).__name__} vs {type(b).__name__}')
        if a.unit != b.unit:
            return fail(f'unit {a.unit} != {b.unit}')
        return diff(np.asarray(a.value), np.asarray(b.value), rtol, atol, path, check_type, equal_nan)
    if isinstance(a, Table) or isinstance(b, Table):
        if not (isinstance(a, Table) and isinstance(b, Table)):
            return fail('table vs non-table')
        if a.colnames != b.colnames:
            return fail(f'colnames {a.colnames} != {b.colnames}')
        for n in a.colnames:
            ca = a[n]
            cb = b[n]
            ca = u.Quantity(ca) if isinstance(ca, u.Quantity) else np.asarray(ca)
            cb = u.Quantity(cb) if isinstance(cb, u.Quantity) else np.asarray(cb)
            r = diff(ca, cb, rtol, atol, f'{path}[{n!r}]', check_type, equal_nan)
            if r:
                return r
        return None
    if isinstance(a, np.ma.MaskedArray) or isinstance(b, np.ma.MaskedArray):
        ma, mb = np.ma.getmaskarray(np.ma.asanyarray(a)), np.ma.getmaskarray(np.ma.asanyarray(b))
        if ma.shape != mb.shape:
            return fail(f'shape {ma.shape} != {mb.shape}')
        if not np.array_equal(ma, mb):
            return fail('masks differ')
        da = np.where(ma, 0, np.ma.getdata(a))
        db = np.where(mb, 0, np.ma.getdata(b))
        return diff(da, db, rtol, atol, path, check_type, equal_nan)
    if isinstance(a, (list, tuple)) and isinstance(b, (list, tuple)):
        if len(a) != len(b):
            return fail(f'length {len(a)} != {len(b)}')
        for i, (x, y) in enumerate(zip(a, b)):
            r = diff(x, y, rtol, atol, f'{path}[{i}]', check_type, equal_nan)
            if r:
                return r
        return None
    if isinstance(a, dict) and isinstance(b, dict):
        if sorted(map(repr, a)) != sorted(map(repr, b)):
            return fail(f'keys {sorted(map(repr, a))} != {sorted(map(repr, b))}')
        for k in a:
            r = diff(a[k], b[k], rtol, atol, f'{path}[{k!r}]', check_type, equal_nan)
            if r:
                return r
        return None
    if isinstance(a, (np.ndarray, np.generic)) or isinstance(b, (np.ndarray, np.generic)) \
            or (_is_num(a) and _is_num(b)):
        aa, bb = np.asarray(a), np.asarray(b)
        if aa.shape != bb.shape:
            return fail(f'shape {aa.shape} != {bb.shape}')
        if aa.dtype == object or bb.dtype == object:
            for i, (x, y) in enumerate(zip(aa.ravel().tolist(), bb.ravel().tolist())):
                r = diff(x, y, rtol, atol, f'{path}[{i}]', check_type, equal_nan)
                if r:
                    return r
            return None
        if aa.dtype.kind in 'US' or bb.dtype.kind in 'US':
            return None if np.array_equal(aa, bb) else fail(f'{short(aa)} != {short(bb)}')
        if check_type and (aa.dtype.kind in 'biu') != (bb.dtype.kind in 'biu'):
            return fail(f'dtype kind {aa.dtype} vs {bb.dtype}')
        if rtol == 0 and atol == 0:
            try:
                ok = np.array_equal(aa, bb, equal_nan=equal_nan)
            except TypeError:
                ok = np.array_equal(aa, bb)
        else:
            with np.errstate(all='ignore'):
                ok = bool(np.all(np.isclose(aa, bb, rtol=rtol, atol=atol, equal_nan=equal_nan)))
        if ok:
            return None
        with np.errstate(all='ignore'):
            try:
                bad = ~np.isclose(aa, bb, rtol=rtol, atol=atol, equal_nan=equal_nan)
                idx = tuple(int(i) for i in np.argwhere(bad)[0]) if aa.ndim else ()
                x = aa[idx] if aa.ndim else aa[()]
                y = bb[idx] if bb.ndim else bb[()]
                return fail(f'at {idx}: {x!r} != {y!r} ({int(bad.sum())} of {bad.size} differ)')
            except Exception:
                return fail(f'{short(aa)} != {short(bb)}')
    # fall back on digests (apertures, bounding boxes, models, SkyCoord ...)
    da, db = digest(a), digest(b)
    if da == db:
        return None
    try:
        from astropy.coordinates import SkyCoord
        if isinstance(a, SkyCoord) and isinstance(b, SkyCoord):
            sep = np.max(np.atleast_1d(a.separation(b).arcsec))
            return None if sep <= max(atol, 1e-9) else fail(f'skycoord sep {sep} arcsec')
    except Exception:
        pass
    if rtol or atol:
        # tolerant comparison of objects through their public attribute dicts
        va, vb = getattr(a, '__dict__', None), getattr(b, '__dict__', None)
        if va is not None and vb is not None and type(a) is type(b):
            return diff({k: v for k, v in va.items()}, {k: v for k, v in vb.items()},
                        rtol, atol, path, check_type, equal_nan)
    return fail(f'{short(a)} != {short(b)}')


def jsonable(x, _depth=0):
    """Best-effort conversion to JSON-serialisable plain data (for replay
    files / evidence samples)."""
    import astropy.units as u
    if _depth > 8:
        return short(x)
    if x is None or isinstance(x, (bool, str)):
        return x
    if isinstance(x, (np.bool_,)):
        return bool(x)
    if isinstance(x, numbers.Integral):
        return int(x)
    if isinstance(x, numbers.Real):
        x = float(x)
        if x != x:
            return 'nan'
        if x in (float('inf'), float('-inf')):
            return 'inf' if x > 0 else '-inf'
        return x
    if isinstance(x, u.Quantity):
        return {'value': jsonable(x.value, _depth + 1), 'unit': str(x.unit)}
    if isinstance(x, np.ma.MaskedArray):
        return {'data': jsonable(np.ma.getdata(x), _depth + 1),
                'mask': jsonable(np.ma.getmaskarray(x), _depth + 1)}
    if isinstance(x, np.ndarray):
        if x.size > 400:
            return {'shape': list(x.shape), 'dtype': x.dtype.str, 'head': jsonable(x.ravel()[:20], _depth + 1)}
        return [jsonable(v, _depth + 1) for v in x.tolist()]
    if isinstance(x, (list, tuple, set, frozenset)):
        return [jsonable(v, _depth + 1) for v in x]
    if isinstance(x, dict):
        return {str(k): jsonable(v, _depth + 1) for k, v in x.items()}
    return short(x)
