import argparse
import os
import sys


def main():
    ap = argparse.ArgumentParser(prog='check')
    ap.add_argument('property')
    ap.add_argument('--tier', default=os.environ.get('VERIF_TIER', 'quick'), choices=['quick', 'thorough'])
    ap.add_argument('--seed', type=int, default=int(os.environ.get('VERIF_SEED', '0') or 0))
    ap.add_argument('--replay')
    ap.add_argument('--machine', action='store_true')
    ap.add_argument('--nproc', type=int, default=None)
    ap.add_argument('--units', default=None, help='comma separated unit indices (debug)')
    a = ap.parse_args()
    from . import runner
    prop = a.property.upper()
    if a.replay:
        sys.exit(runner.replay(prop, a.replay, a.machine))
    only = [int(x) for x in a.units.split(',')] if a.units else None
    sys.exit(runner.run(prop, a.tier, a.seed, a.nproc, only))


if __name__ == '__main__':
    main()
