"""Scene lattice and the set-partition (refinement) oracle for C06.

Plain numpy / Python only: no photutils, no scipy.ndimage, no skimage.

A *frame* is a sequence of tile contents; tile k of a grid of TILE-shaped tiles
(2 tiles per row, raster order) holds either ONE parent (a parent type) or a
*group* of TWO parents (a group type, see GROUP) whose minimal bounding boxes
are not disjoint.  Nothing touches the tile border, so parents of different
tiles never touch and have disjoint bounding boxes; the geometric relation of
two parents (bounding boxes disjoint / mutually interlocking / one containing
the other / segments sharing a border) is therefore an enumerated property of
the frame.  The parents of a frame are numbered in tile order, inside a group
in the order stated there.  The input label array is built here (parent ->
label by the *numbering*), not by ``detect_sources``.
"""
import numpy as np

TILE = (18, 26)
THRESH = 1.0
NCOLS = 2

# (amplitude, x0, y0, sigma) inside a tile
GAUSS = {
    'S': [(50, 12.0, 8.0, 2.0)],                                            # isolated single
    'B2': [(50, 9.0, 8.0, 1.8), (40, 15.5, 8.0, 1.8)],                      # 2-blend
    'B3r': [(50, 6.0, 8.0, 1.6), (45, 12.0, 8.0, 1.6), (40, 18.0, 8.0, 1.6)],   # 3-blend in a row
    'B3t': [(50, 9.0, 6.5, 1.6), (45, 15.5, 6.5, 1.6), (40, 12.0, 11.5, 1.6)],  # 3-blend triangle
    'F': [(100, 9.0, 8.0, 2.0), (12, 17.0, 8.0, 1.5)],                      # faint companion (flux fraction between 0.001 and 0.3)
    'B3f': [(9, 5.0, 4.0, 1.3), (60, 9.5, 9.0, 1.7), (50, 15.5, 9.0, 1.7)],     # faint FIRST marker (raster order): pruned at contrast 0.3
}
PIXEL_TYPES = ('P', 'T', 'Y', 'D')

# "spike" parents: a smooth blend plus a small bright component (hot pixel / cosmic-ray hit / noise spike) INSIDE the
# parent's segment.  At the threshold levels where the real peaks are separate components the spike is a component of
# its own; it has fewer than npixels = 5 pixels, so the multi-threshold step discards it and the surviving marker
# numbers (raster order of the components) have a hole exactly where the spike sat.  With npixels = 1 the spike is a
# legitimate marker (a third, tiny child, or a marker pruned by the contrast criterion).
#   base blend, spike pixels (rows, cols), spike value, place of the spike among the marker components in raster order
SPIKE = {
    'H2a': ('B2', (slice(4, 5), slice(12, 13)), 30.0, 'first'),     # hot pixel above the peaks: markers {2, 3}
    'H2z': ('B2', (slice(12, 13), slice(12, 13)), 30.0, 'last'),    # hot pixel below the peaks: markers {1, 2} (hole at the end)
    'H2m': ('B2d', (slice(6, 7), slice(15, 16)), 30.0, 'middle'),   # diagonal 2-blend, hot pixel between the peaks: markers {1, 3}
    'H2q': ('B2', (slice(3, 5), slice(12, 14)), 30.0, 'first'),     # 2x2 spike (npixels - 1 pixels) above the peaks
    'H2x': ('B2', (slice(4, 5), slice(12, 13)), 70.0, 'first'),     # hot pixel above the peaks that is the source maximum
    'H3a': ('B3t', (slice(3, 4), slice(12, 13)), 30.0, 'first'),    # 3-blend: the hole is made at the first separating level and
                                                                    # a later level (third peak separates) renumbers the markers
}
GAUSS_EXTRA = {
    'B2d': [(50, 8.5, 6.0, 1.7), (42, 14.0, 10.5, 1.7)],                    # diagonal 2-blend (base of H2m only)
}
NOISE_TYPES = ('N2',)      # 2-blend + a seed-generic sparse positive noise image inside the segment (sub-npixels components
#                            at generic places and levels)
SPIKE_TYPES = tuple(SPIKE) + NOISE_TYPES
# NOTE: new types are appended: TYPE_INDEX feeds the per-tile generator, existing scenes must keep their numbers
TYPES = tuple(GAUSS) + PIXEL_TYPES + SPIKE_TYPES

# "group" tiles: TWO parents in one tile whose minimal bounding boxes (the cutouts deblend_sources works on) are NOT
# disjoint -- the cutout of one parent contains pixels that belong to the other one.  Elongated / non-convex sources
# next to each other are ordinary (diagonal streaks, an arc around a compact source, a chain of sources that detection
# cut into two segments).  Components are (amplitude, x0, y0, sigma_long, sigma_short, angle/deg of the long axis from +x
# towards +y); parent p of a group is the set (image of its components > THRESH) -- for 'cut' groups the set
# (image of all components > THRESH) is divided along the straight line (x - xc) + slope * (y - yc) = 0 into the
# parent left of it (first) and right of it (second), which then SHARE A BORDER.  The stated relation is verified by
# selftest/test_c06_schedules.py with bbox_relations() for several seeds and at the corners of the generic ranges.
GROUP = {
    # two parallel diagonal streaks (each a 2-blend along its long axis), separated by background:
    # each bounding box contains pixels of the other parent (mutual interlock)
    'X2': {'relation': 'interlock',
           'parents': [[(50, 5.2, 5.2, 1.8, 0.9, 45.0), (42, 10.7, 10.7, 1.8, 0.9, 45.0)],
                       [(46, 14.7, 5.2, 1.8, 0.9, 45.0), (38, 20.2, 10.7, 1.8, 0.9, 45.0)]]},
    # an L-shaped 2-blend (one peak per arm) and a compact 2-blend in the empty quadrant of its bounding box: the box of
    # the first parent contains the second parent completely, the box of the second contains nothing of the first (nested)
    'L2': {'relation': 'nested',
           'parents': [[(50, 12.0, 3.8, 3.4, 1.0, 0.0), (42, 4.2, 10.0, 2.3, 1.0, 90.0)],
                       [(40, 12.4, 11.8, 1.2, 1.2, 0.0), (34, 17.4, 11.8, 1.2, 1.2, 0.0)]]},
    # a chain of four peaks that the label array cuts along an oblique line between the second and the third peak into two
    # 2-blends: the parents share a border (8- and 4-adjacent pixels) AND each bounding box contains pixels of the other
    'A2': {'relation': 'abut',
           'cut': (12.5, 8.0, 1.0),
           'parents': [[(50, 5.0, 8.0, 1.3, 1.3, 0.0), (44, 9.8, 8.0, 1.3, 1.3, 0.0)],
                       [(47, 15.2, 8.0, 1.3, 1.3, 0.0), (40, 20.0, 8.0, 1.3, 1.3, 0.0)]]},
}
GROUP_TYPES = tuple(GROUP)
# NOTE: TYPE_INDEX feeds the per-tile generator: group types come after all parent types, new parent types would have to
# be given explicit numbers so that existing scenes keep theirs
TYPE_INDEX = {t: i for i, t in enumerate(TYPES + GROUP_TYPES)}


def _gauss_tile(tp, rng):
    yy, xx = np.mgrid[0:TILE[0], 0:TILE[1]].astype(float)
    dx, dy = rng.uniform(-0.3, 0.3, size=2)       # generic sub-pixel offset (seed)
    img = np.zeros(TILE)
    for (a, x0, y0, s) in (GAUSS[tp] if tp in GAUSS else GAUSS_EXTRA[tp]):
        a = a * rng.uniform(0.97, 1.03)           # generic amplitude (seed)
        img += a * np.exp(-((xx - x0 - dx) ** 2 + (yy - y0 - dy) ** 2) / (2 * s * s))
    return img, img > THRESH


def _pixel_tile(tp, rng):
    img = np.zeros(TILE)
    c = float(np.round(rng.uniform(4.5, 5.5), 3))
    if tp == 'P':        # plateau: min == max inside the segment
        img[5:9, 8:14] = c
    elif tp == 'T':      # two flat squares joined by a lower one-pixel bridge (ties everywhere)
        img[5:8, 6:9] = c
        img[5:8, 12:15] = c
        img[6, 9:12] = c - 2.0
    elif tp == 'Y':      # three pixels, two peaks: deblendable only with npixels = 1
        img[7, 10:13] = (c + 4.0, c - 2.0, c + 3.0)
    elif tp == 'D':      # two-peak block with a diagonal-only appendage (not 4-connected)
        yy, xx = np.mgrid[0:TILE[0], 0:TILE[1]].astype(float)
        g = 30 * np.exp(-((xx - 7.3) ** 2 + (yy - 6.6) ** 2) / 4.5) + 24 * np.exp(-((xx - 12.4) ** 2 + (yy - 6.8) ** 2) / 4.5)
        img[4:10, 5:15] = (g + c)[4:10, 5:15]
        img[10, 15] = c - 1.0
        img[11, 16] = c - 2.0
    else:  # pragma: no cover
        raise KeyError(tp)
    return img, img > THRESH


def _spike_tile(tp, rng):
    if tp in NOISE_TYPES:
        img, seg = _gauss_tile('B2', rng)
        hot = rng.random(TILE) < 0.12                 # generic noise image (seed): sparse, positive, heavy
        amp = rng.uniform(4.0, 30.0, size=TILE)
        return img + np.where(hot & seg, amp, 0.0), seg
    base, where, value, _ = SPIKE[tp]
    img, seg = _gauss_tile(base, rng)
    img = img.copy()
    img[where] = value * rng.uniform(0.97, 1.03)      # generic spike height (seed)
    return img, img > THRESH


def tile(tp, rng):
    img, seg = (_gauss_tile if tp in GAUSS else _spike_tile if tp in SPIKE_TYPES else _pixel_tile)(tp, rng)
    if seg[0].any() or seg[-1].any() or seg[:, 0].any() or seg[:, -1].any() or not seg.any():
        raise AssertionError(f'parent type {tp} touches its tile border')
    return img, seg


def _egauss(xx, yy, a, x0, y0, sl, ss, deg):
    c, s = np.cos(np.deg2rad(deg)), np.sin(np.deg2rad(deg))
    u = (xx - x0) * c + (yy - y0) * s
    v = -(xx - x0) * s + (yy - y0) * c
    return a * np.exp(-(u * u / (2 * sl * sl) + v * v / (2 * ss * ss)))


def group_tile(tp, rng):
    """-> (image of the tile, [mask of parent 0, mask of parent 1]); the masks are
    disjoint, non-empty and do not touch the tile border."""
    g = GROUP[tp]
    yy, xx = np.mgrid[0:TILE[0], 0:TILE[1]].astype(float)
    dx, dy = rng.uniform(-0.3, 0.3, size=2)       # generic sub-pixel offset of the whole group (seed)
    imgs = []
    for comps in g['parents']:
        im = np.zeros(TILE)
        for (a, x0, y0, sl, ss, deg) in comps:
            a = a * rng.uniform(0.97, 1.03)       # generic amplitude (seed)
            im += _egauss(xx, yy, a, x0 + dx, y0 + dy, sl, ss, deg)
        imgs.append(im)
    img = imgs[0] + imgs[1]
    if 'cut' in g:
        xc, yc, slope = g['cut']
        left = (xx - xc - dx) + slope * (yy - yc - dy) < 0
        body = img > THRESH
        masks = [body & left, body & ~left]
    else:
        masks = [im > THRESH for im in imgs]
    both = masks[0] | masks[1]
    if (masks[0] & masks[1]).any() or not masks[0].any() or not masks[1].any():
        raise AssertionError(f'group type {tp}: parents overlap or are empty')
    if both[0].any() or both[-1].any() or both[:, 0].any() or both[:, -1].any():
        raise AssertionError(f'group type {tp} touches its tile border')
    return img, masks


def parent_types(frame):
    """One name per PARENT of the frame, in parent order: the parent type, or
    'G/0', 'G/1' for the two parents of group type G."""
    out = []
    for tp in frame:
        out += [f'{tp}/0', f'{tp}/1'] if tp in GROUP else [tp]
    return out


def nparents(frame):
    return len(parent_types(frame))


def bbox_relations(seg):
    """Geometric relations between the segments of a label array, from the
    pixels: -> {'box_contains': set of ordered pairs (b, a), a != b, such that the
    minimal bounding box of label b contains at least one pixel of label a;
    'adjacent': set of unordered pairs (a, b), a < b, that have 8-adjacent pixels}."""
    seg = np.asarray(seg)
    labs = [int(x) for x in np.unique(seg[seg != 0])]
    box = set()
    for b in labs:
        ys, xs = np.nonzero(seg == b)
        cut = seg[ys.min():ys.max() + 1, xs.min():xs.max() + 1]
        box |= {(b, int(a)) for a in np.unique(cut) if a != 0 and a != b}
    adj = set()
    pad = np.pad(seg, 1)
    h, w = seg.shape
    for dy, dx in ((0, 1), (1, -1), (1, 0), (1, 1)):
        p = pad[1:1 + h, 1:1 + w]
        q = pad[1 + dy:1 + dy + h, 1 + dx:1 + dx + w]
        m = (p != 0) & (q != 0) & (p != q)
        adj |= {(int(min(a, b)), int(max(a, b))) for a, b in zip(p[m], q[m])}
    return {'box_contains': box, 'adjacent': adj}


def numbering(name, n):
    """parent index -> label."""
    if name == 'consec':
        return [k + 1 for k in range(n)]
    if name == 'gaps':
        return [3 * k + 2 for k in range(n)]
    if name == 'reversed':
        return [n - k for k in range(n)]
    if name == 'gaprev':
        return [3 * (n - k) + 1 for k in range(n)]
    raise KeyError(name)


def build(frame, numbering_name, variant, seed):
    """-> data (float ndarray), label array (int ndarray), labels per tile.

    variant: 'pos'     data as rendered (every segment minimum > 0)
             'nonpos'  data - 1.5 (every segment minimum <= 0: 'exponential' falls back to 'linear'); in a group tile
                       each parent's pixels are shifted so that its minimum is -0.5
             'mixed'   data - 1.5 for the parents of odd index only (whole tile; inside a group tile: that parent's pixels)
    (the Quantity representation is applied by the caller)."""
    n = len(frame)                      # tiles
    nrows = (n + NCOLS - 1) // NCOLS
    ncols = min(n, NCOLS)
    shape = (nrows * TILE[0], ncols * TILE[1])
    data = np.zeros(shape)
    seg = np.zeros(shape, dtype=np.int64)
    labs = numbering(numbering_name, nparents(frame))
    pk = 0                              # parent index ('mixed': the parents of odd index are non-positive)
    for k, tp in enumerate(frame):
        rng = np.random.default_rng([int(seed), 7919, k] + [TYPE_INDEX[t] for t in frame])
        r, c = divmod(k, NCOLS)
        sl = (slice(r * TILE[0], (r + 1) * TILE[0]), slice(c * TILE[1], (c + 1) * TILE[1]))
        if tp in GROUP:
            img, masks = group_tile(tp, rng)
            data[sl] = img
            for m in masks:
                if variant == 'nonpos' or (variant == 'mixed' and pk % 2 == 1):
                    # the tail of the other parent lifts the faintest pixels: shift this parent's pixels so that its
                    # minimum is -0.5 (what "tile - 1.5" gives for a parent alone in its tile)
                    data[sl][m] -= img[m].min() + 0.5
                seg[sl][m] = labs[pk]
                pk += 1
            continue
        img, m = tile(tp, rng)
        if variant == 'nonpos' or (variant == 'mixed' and pk % 2 == 1):
            img = img - 1.5
        data[sl] = img
        seg[sl][m] = labs[pk]
        pk += 1
    return data, seg, labs


def connected(mask, conn):
    """Is the True set of ``mask`` one connected component (flood fill)?"""
    pts = {(int(y), int(x)) for y, x in zip(*np.nonzero(mask))}
    if not pts:
        return True
    nb = [(-1, 0), (1, 0), (0, -1), (0, 1)]
    if conn == 8:
        nb += [(-1, -1), (-1, 1), (1, -1), (1, 1)]
    start = next(iter(pts))
    seen = {start}
    stack = [start]
    while stack:
        y, x = stack.pop()
        for dy, dx in nb:
            q = (y + dy, x + dx)
            if q in pts and q not in seen:
                seen.add(q)
                stack.append(q)
    return len(seen) == len(pts)


def components(mask, conn):
    """Connected components of the True set, in raster order of their first
    pixel (flood fill).  -> list of sorted lists of (y, x)."""
    pts = {(int(y), int(x)) for y, x in zip(*np.nonzero(mask))}
    nb = [(-1, 0), (1, 0), (0, -1), (0, 1)]
    if conn == 8:
        nb += [(-1, -1), (-1, 1), (1, -1), (1, 1)]
    out = []
    for start in sorted(pts):
        if start not in pts:
            continue
        pts.discard(start)
        comp = [start]
        stack = [start]
        while stack:
            y, x = stack.pop()
            for dy, dx in nb:
                q = (y + dy, x + dx)
                if q in pts:
                    pts.discard(q)
                    comp.append(q)
                    stack.append(q)
        out.append(sorted(comp))
    return out


def marker_pattern(img, seg, level, npixels, conn):
    """Sizes pattern of the components of (img > level) & seg in raster order:
    a string of 'M' (>= npixels: survives as a marker) and 's' (discarded)."""
    return ''.join('M' if len(c) >= npixels else 's' for c in components((img > level) & seg, conn))


# ---------------------------------------------------------------------------
def refinement(seg0, out, inv_map, fwd_map, deb_labels, out_labels, *, requested, npixels, contrast, relabel):
    """Set-partition oracle.  Returns (list of (clause, detail, observed, expected), info dict).

    seg0        input label array (as it was BEFORE the call)
    out         output label array
    inv_map     output.deblended_labels_inverse_map   {parent: children}
    fwd_map     output.deblended_labels_map           {child: parent}
    deb_labels  output.deblended_labels
    out_labels  output.labels
    requested   set of input labels the caller asked to deblend
    """
    bad = []
    info = {'deblended': [], 'children': []}
    out = np.asarray(out)
    if out.shape != seg0.shape:
        return [('shape', '', out.shape, seg0.shape)], info
    if not np.issubdtype(out.dtype, np.integer):
        bad.append(('dtype', '', str(out.dtype), 'integer'))
    if not np.array_equal(out != 0, seg0 != 0):
        bad.append(('nonzero-set', '', int(np.count_nonzero((out != 0) != (seg0 != 0))), 0))
        return bad, info
    inv = {int(k): sorted(int(x) for x in np.atleast_1d(v)) for k, v in inv_map.items()}
    if contrast == 1:
        if not np.array_equal(out, seg0):
            bad.append(('contrast1-unchanged', 'data', None, None))
        if inv:
            bad.append(('contrast1-unchanged', 'map', inv, {}))
        return bad, info
    in_labels = [int(x) for x in np.unique(seg0[seg0 != 0])]
    want_inv = {}
    for lab in in_labels:
        pm = seg0 == lab
        ch = [int(x) for x in np.unique(out[pm])]
        if len(ch) == 1:
            c = ch[0]
            # pixels untouched: the output label found there covers exactly the segment
            if int(np.count_nonzero(out == c)) != int(np.count_nonzero(pm)):
                bad.append(('untouched-pixels', f'label {lab}', int(np.count_nonzero(out == c)), int(np.count_nonzero(pm))))
            if not relabel and c != lab:
                bad.append(('untouched-label', f'label {lab}', c, lab))
        else:
            info['deblended'].append(lab)
            info['children'].append(len(ch))
            want_inv[lab] = ch
            if lab not in requested:
                bad.append(('split-unrequested', f'label {lab}', ch, [lab]))
            for c in ch:
                cm = out == c
                if not pm[cm].all():
                    bad.append(('child-leaks', f'parent {lab} child {c}', int(np.count_nonzero(cm & ~pm)), 0))
                    break
                if int(np.count_nonzero(cm)) < npixels:
                    bad.append(('child-too-small', f'parent {lab} child {c}', int(np.count_nonzero(cm)), npixels))
                    break
    if relabel:
        labs = [int(x) for x in np.unique(out[out != 0])]
        if labs != list(range(1, len(labs) + 1)):
            bad.append(('labels-1..N', 'array', labs, list(range(1, len(labs) + 1))))
    arr_labels = [int(x) for x in np.unique(out[out != 0])]
    if [int(x) for x in np.asarray(out_labels).tolist()] != arr_labels:
        bad.append(('labels-attribute', '', [int(x) for x in np.asarray(out_labels).tolist()], arr_labels))
    # the reported parent -> children map equals the one recomputed from the pixels
    if inv != want_inv:
        bad.append(('map-vs-pixels', 'inverse_map', inv, want_inv))
    want_fwd = {c: p for p, cs in want_inv.items() for c in cs}
    fwd = {int(k): int(v) for k, v in fwd_map.items()}
    if fwd != want_fwd:
        bad.append(('map-vs-pixels', 'labels_map', fwd, want_fwd))
    want_deb = sorted(want_fwd)
    got_deb = [int(x) for x in np.asarray(deb_labels).tolist()]
    if got_deb != want_deb:
        bad.append(('map-vs-pixels', 'deblended_labels', got_deb, want_deb))
    return bad, info
