"""Boring reference models for C14 (peak / star finders).

Nothing here calls photutils, scipy.ndimage or astropy.convolution.

ref_peaks      the documented find_peaks selection on a small image, pixel by pixel
com            centre of mass of a cut-out (the documented centroid_com)
conv_zero      zero-padded 2-D convolution by explicit shifted sums
disc_offsets   integer offsets (dy, dx) with dx^2 + dy^2 <= r^2
box_cutouts    kernel-sized boxes centred on integer positions (zero beyond the image)
simple_measurements   the documented "simple" columns of DAOStarFinder / IRAFStarFinder rows
grid_assign    which position of a regular grid of supplied positions a reported centroid belongs to
"""
import math

import numpy as np


def footprint_offsets(fp):
    """Offsets (dy, dx) of the True cells of ``fp`` relative to its centre cell
    (index size//2 on each axis; the footprint is NOT flipped: 'True values
    describe the local region within which to search for peaks at every point')."""
    fp = np.asarray(fp).astype(bool)
    cy, cx = fp.shape[0] // 2, fp.shape[1] // 2
    return [(j - cy, i - cx) for j in range(fp.shape[0]) for i in range(fp.shape[1]) if fp[j, i]]


def neighbour_table(shape, offsets):
    """For every pixel (flat index, C order) the flat indices of its in-image
    footprint neighbours (the pixel itself included when (0, 0) is an offset)."""
    ny, nx = shape
    tab = []
    for y in range(ny):
        for x in range(nx):
            lst = []
            for dy, dx in offsets:
                p, q = y + dy, x + dx
                if 0 <= p < ny and 0 <= q < nx:
                    lst.append(p * nx + q)
            tab.append(lst)
    return tab


def ref_peaks(vals, shape, nbrs, thr, border=None, mask=None):
    """The documented selection.

    vals   flat list of floats (NaN allowed), C order
    nbrs   neighbour_table(shape, offsets)
    thr    scalar or flat list
    border None or (by, bx)
    mask   None or flat list of bools

    A pixel is a peak  <=>  it is not NaN, not masked, not inside the excluded
    border, value > threshold (strict) and value >= every non-NaN in-image pixel
    of its footprint neighbourhood.  Masked neighbours DO take part in the
    maximum (the mask only removes peaks: 'Exclude peaks that are masked');
    NaN neighbours do not (NaN is no value).  Pixels outside the image do not
    exist, hence never compete.

    Returns a list of (x, y, value) in raster order.
    """
    ny, nx = shape
    out = []
    scalar = not isinstance(thr, (list, tuple))
    for p, v in enumerate(vals):
        if v != v:
            continue
        if mask is not None and mask[p]:
            continue
        y, x = divmod(p, nx)
        if border is not None:
            by, bx = border
            if y < by or y >= ny - by or x < bx or x >= nx - bx:
                continue
        t = thr if scalar else thr[p]
        if not v > t:
            continue
        ok = True
        for q in nbrs[p]:
            w = vals[q]
            if w == w and w > v:
                ok = False
                break
        if ok:
            out.append((x, y, v))
    return out


def com(cut, excl):
    """Centre of mass (x, y) of the 2-D list/array ``cut`` with the cells where
    ``excl`` is True (and the non-finite cells) given weight zero; (nan, nan)
    when the total weight is zero -- the documented centroid_com."""
    tot = sx = sy = 0.0
    for j, row in enumerate(cut):
        for i, v in enumerate(row):
            if excl[j][i] or not math.isfinite(v):
                continue
            tot += v
            sx += v * i
            sy += v * j
    if tot == 0:
        return (math.nan, math.nan)
    return (sx / tot, sy / tot)


def conv_zero(data, kernel):
    """out[y, x] = sum_{j,i} kernel[j, i] * data[y - (j - cy), x - (i - cx)]
    with data := 0 outside the image (true convolution, odd kernel)."""
    data = np.asarray(data, float)
    kernel = np.asarray(kernel, float)
    ky, kx = kernel.shape
    cy, cx = ky // 2, kx // 2
    ny, nx = data.shape
    pad = np.zeros((ny + 2 * cy, nx + 2 * cx))
    pad[cy:cy + ny, cx:cx + nx] = data
    out = np.zeros((ny, nx))
    for j in range(ky):
        for i in range(kx):
            k = kernel[j, i]
            if k == 0.0:
                continue
            dy, dx = j - cy, i - cx
            out += k * pad[cy - dy:cy - dy + ny, cx - dx:cx - dx + nx]
    return out


def disc_offsets(r):
    """Integer offsets within Euclidean distance r (inclusive)."""
    m = int(math.floor(r))
    return [(dy, dx) for dy in range(-m, m + 1) for dx in range(-m, m + 1) if dx * dx + dy * dy <= r * r]


def box_cutouts(data, positions, kshape):
    """(N, ky, kx) array: for every integer position (x, y) the ky x kx box centred on
    it, with 0 where the box leaves the image (the documented zero padding)."""
    data = np.asarray(data, float)
    ky, kx = kshape
    cy, cx = ky // 2, kx // 2
    ny, nx = data.shape
    pad = np.zeros((ny + 2 * cy, nx + 2 * cx))
    pad[cy:cy + ny, cx:cx + nx] = data
    pos = np.asarray(positions, int).reshape(-1, 2)
    out = np.zeros((len(pos), ky, kx))
    for j in range(ky):
        for i in range(kx):
            out[:, j, i] = pad[pos[:, 1] + j, pos[:, 0] + i]
    return out


def simple_measurements(finder, cuts, kmask):
    """The documented simple measurements of a row at a given position, from its box.

    'DAO' : peak = the pixel at the position, flux = sum of the box, npix = box size.
    'IRAF': sky = mean of the box pixels outside the kernel footprint; the footprint pixels
            minus sky, negative values discarded; peak / flux / npix (non-zero count) and the
            first-moment centroid of those (relative to the box origin; NaN if the total is 0).
    Returns a dict of length-N arrays."""
    cuts = np.asarray(cuts, float)
    n, ky, kx = cuts.shape
    if finder == 'DAO':
        return {'peak': cuts[:, ky // 2, kx // 2].copy(), 'flux': cuts.sum(axis=(1, 2)),
                'npix': np.full(n, ky * kx)}
    kmask = np.asarray(kmask).astype(bool)
    nsky = max(1, int((~kmask).sum()))
    sky = (cuts * ~kmask).sum(axis=(1, 2)) / nsky
    d = (cuts - sky[:, None, None]) * kmask
    d[d < 0] = 0.0
    tot = d.sum(axis=(1, 2))
    jj, ii = np.mgrid[:ky, :kx]
    with np.errstate(invalid='ignore', divide='ignore'):
        xc = (d * ii).sum(axis=(1, 2)) / tot
        yc = (d * jj).sum(axis=(1, 2)) / tot
    return {'peak': d.max(axis=(1, 2)), 'flux': tot, 'npix': np.count_nonzero(d, axis=(1, 2)),
            'xcentroid_in_box': xc, 'ycentroid_in_box': yc}


def grid_assign(xc, yc, grid):
    """Supplied positions form a regular grid: x = ox + i*px (0 <= i < ncols), y = oy + j*py
    (0 <= j < nrows), listed in raster order (j major), the first ``n`` of them used.
    -> index array of the grid position nearest to each (xc, yc); -1 when the nearest grid
    node is not one of the n positions.  With pitches >= 2*kernel+1 a centroid that lies in
    the kernel box of its own position can never be nearer to another one."""
    xc = np.asarray(xc, float)
    yc = np.asarray(yc, float)
    i = np.floor((xc - grid['ox']) / grid['px'] + 0.5)
    j = np.floor((yc - grid['oy']) / grid['py'] + 0.5)
    ok = (i >= 0) & (i < grid['ncols']) & (j >= 0) & (j < grid['nrows']) & np.isfinite(xc) & np.isfinite(yc)
    idx = np.where(ok, j * grid['ncols'] + i, -1)
    idx = np.where(np.isfinite(idx), idx, -1).astype(int)
    idx[idx >= grid['n']] = -1
    return idx


def grid_positions(grid):
    """(n, 2) integer array of the (x, y) positions of ``grid`` in raster order."""
    t = np.arange(grid['n'])
    j, i = np.divmod(t, grid['ncols'])
    return np.stack([grid['ox'] + i * grid['px'], grid['oy'] + j * grid['py']], axis=1)
