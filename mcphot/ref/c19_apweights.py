"""Reference pixel weights of a circular aperture on the pixel grid (for C19).

Plain Python/numpy, independent of photutils.geometry:

* ``exact``    area of (pixel square) ∩ (disk) by a line integral around the
               square (Green's theorem on the unit disk), validated in
               design_probes/p3.py against the compiled kernels (worst 9e-11)
               and in selftest/test_c19_apweights.py against a 400x400 sub-sampling;
* ``center``   1 if the pixel centre is inside the circle, else 0;
* ``subpixel`` fraction of the s x s sub-pixel centres inside the circle.

For center/subpixel a (sub-)pixel centre within ``TIE`` of the circle is
*ambiguous*: it is counted as outside in ``w`` and its weight is reported in
``amb`` so that a comparison can accept either decision.
"""
import math

import numpy as np

TIE = 1e-9


def _seg_circle_area(x1, y1, x2, y2):
    """Signed area of (triangle O,P1,P2) ∩ unit disk for the directed segment P1->P2."""
    dx, dy = x2 - x1, y2 - y1
    a = dx * dx + dy * dy
    if a == 0.0:
        return 0.0
    b = 2 * (x1 * dx + y1 * dy)
    c = x1 * x1 + y1 * y1 - 1.0
    disc = b * b - 4 * a * c

    def tri(ax, ay, bx, by):
        return 0.5 * (ax * by - ay * bx)

    def sector(ax, ay, bx, by):
        return 0.5 * math.atan2(ax * by - ay * bx, ax * bx + ay * by)

    if disc <= 0:
        return sector(x1, y1, x2, y2)
    sq = math.sqrt(disc)
    t1 = (-b - sq) / (2 * a)
    t2 = (-b + sq) / (2 * a)
    if t2 <= 0 or t1 >= 1:
        return sector(x1, y1, x2, y2)
    ta = max(t1, 0.0)
    tb = min(t2, 1.0)
    ax, ay = x1 + ta * dx, y1 + ta * dy
    bx, by = x1 + tb * dx, y1 + tb * dy
    area = tri(ax, ay, bx, by)
    if ta > 0:
        area += sector(x1, y1, ax, ay)
    if tb < 1:
        area += sector(bx, by, x2, y2)
    return area


def square_disk_area(xmin, ymin, xmax, ymax, r):
    """Area of [xmin,xmax]x[ymin,ymax] ∩ disk(0, r)."""
    pts = ((xmin / r, ymin / r), (xmax / r, ymin / r), (xmax / r, ymax / r), (xmin / r, ymax / r))
    s = 0.0
    for i in range(4):
        x1, y1 = pts[i]
        x2, y2 = pts[(i + 1) % 4]
        s += _seg_circle_area(x1, y1, x2, y2)
    return abs(s) * r * r


def weights(shape, xc, yc, r, method, subpixels=5):
    """-> (w, amb): float arrays of ``shape``; see module docstring."""
    ny, nx = shape
    w = np.zeros(shape)
    amb = np.zeros(shape)
    if r <= 0:
        return w, amb
    x0 = max(int(math.floor(xc - r - 1)), 0)
    x1 = min(int(math.ceil(xc + r + 2)), nx)
    y0 = max(int(math.floor(yc - r - 1)), 0)
    y1 = min(int(math.ceil(yc + r + 2)), ny)
    if x1 <= x0 or y1 <= y0:
        return w, amb
    if method == 'exact':
        for y in range(y0, y1):
            for x in range(x0, x1):
                # quick accept / reject on the farthest / nearest point of the square
                fx = max(abs(x - 0.5 - xc), abs(x + 0.5 - xc))
                fy = max(abs(y - 0.5 - yc), abs(y + 0.5 - yc))
                if fx * fx + fy * fy <= r * r:
                    w[y, x] = 1.0
                    continue
                nxd = max(x - 0.5 - xc, 0.0, xc - x - 0.5)
                nyd = max(y - 0.5 - yc, 0.0, yc - y - 0.5)
                if nxd * nxd + nyd * nyd >= r * r:
                    continue
                w[y, x] = square_disk_area(x - 0.5 - xc, y - 0.5 - yc, x + 0.5 - xc, y + 0.5 - yc, r)
        return w, amb
    s = 1 if method == 'center' else int(subpixels)
    off = (np.arange(s) + 0.5) / s - 0.5
    xs = (np.arange(x0, x1)[:, None] + off[None, :]).ravel()
    ys = (np.arange(y0, y1)[:, None] + off[None, :]).ravel()
    d = np.hypot(xs[None, :] - xc, ys[:, None] - yc)
    inside = (d < r - TIE).astype(float)
    tie = (np.abs(d - r) <= TIE).astype(float)
    sh = (y1 - y0, s, x1 - x0, s)
    w[y0:y1, x0:x1] = inside.reshape(sh).sum(axis=(1, 3)) / (s * s)
    amb[y0:y1, x0:x1] = tie.reshape(sh).sum(axis=(1, 3)) / (s * s)
    return w, amb
