"""Reference pixel weights of a circular aperture on the pixel grid (for C19).

Plain Python/numpy, independent of photutils.geometry:

* ``exact``    area of (pixel square) ∩ (disk) by a line integral around the
               square (Green's theorem on the unit disk), validated in
               design_probes/p3.py against the compiled kernels (worst 9e-11)
               and in selftest/test_c19_apweights.py against a 400x400 sub-sampling;
* ``center``   1 if the pixel centre is inside the circle, else 0;
* ``subpixel`` fraction of the s x s sub-pixel centres inside the circle.

For center/subpixel a (sub-)pixel centre within ``TIE`` of the circle is
*ambiguous*: it is counted as outside in ``w`` and its weight is reported in
``amb`` so that a comparison can accept either decision.
"""
import math

import numpy as np

TIE = 1e-9


def _seg_circle_area(x1, y1, x2, y2):
    """Signed area of (triangle O,P1,P2) ∩ unit disk for the directed segment P1->P2."""
    dx, dy = x2 - x1, y2 - y1
    a = dx * dx + dy * dy
    if a == 0.0:
        return 0.0
    b = 2 * (x1 * dx + y1 * dy)
    c = x1 * x1 + y1 * y1 - 1.0
    disc = b * b - 4 * a * c

    def tri(ax, ay, bx, by):
        return 0.5 * (ax * by - ay * bx)

    def sector(ax, ay, bx, by):
        return 0.5 * math.atan2(ax * by - ay * bx, ax * bx + ay * by)

    if disc <= 0:
        return sector(x1, y1, x2, y2)
    sq = math.sqrt(disc)
    t1 = (-b - sq) / (2 * a)
    t2 = (-b + sq) / (2 * a)
    if t2 <= 0 or t1 >= 1:
        return sector(x1, y1, x2, y2)
    ta = max(t1, 0.0)
    tb = min(t2, 1.0)
    ax, ay = x1 + ta * dx, y1 + ta * dy
    bx, by = x1 + tb * dx, y1 + tb * dy
    area = tri(ax, ay, bx, by)
    if ta > 0:
        area += sector(x1, y1, ax, ay)
    if tb < 1:
        area += sector(bx, by, x2, y2)
    return area


def square_disk_area(xmin, ymin, xmax, ymax, r):
    """Area of [xmin,xmax]x[ymin,ymax] ∩ disk(0, r)."""
    pts = ((xmin / r, ymin / r), (xmax / r, ymin / r), (xmax / r, ymax / r), (xmin / r, ymax / r))
    s = 0.0
    for i in range(4):
        x1, y1 = pts[i]
        x2, y2 = pts[(i + 1) % 4]
        s += _seg_circle_area(x1, y1, x2, y2)
    return abs(s) * r * r


def weights(shape, xc, yc, r, method, subpixels=5):
    """-> (w, amb): float arrays of ``shape``; see module docstring."""
    ny, nx = shape
    w = np.zeros(shape)
    amb = np.zeros(shape)
    if r <= 0:
        return w, amb
    x0 = max(int(math.floor(xc - r - 1)), 0)
    x1 = min(int(math.ceil(xc + r + 2)), nx)
    y0 = max(int(math.floor(yc - r - 1)), 0)
    y1 = min(int(math.ceil(yc + r + 2)), ny)
    if x1 <= x0 or y1 <= y0:
        return w, amb
    if method == 'exact':
        for y in range(y0, y1):
            for x in range(x0, x1):
                # quick accept / reject on the farthest / nearest point of the square
                fx = max(abs(x - 0.5 - xc), abs(x + 0.5 - xc))
                fy = max(abs(y - 0.5 - yc), abs(y + 0.5 - yc))
                if fx * fx + fy * fy <= r * r:
                    w[y, x] = 1.0
                    continue
                nxd = max(x - 0.5 - xc, 0.0, xc - x - 0.5)
                nyd = max(y - 0.5 - yc, 0.0, yc - y - 0.5)
                if nxd * nxd + nyd * nyd >= r * r:
                    continue
                w[y, x] = square_disk_area(x - 0.5 - xc, y - 0.5 - yc, x + 0.5 - xc, y + 0.5 - yc, r)
        return w, amb
    s = 1 if method == 'center' else int(subpixels)
    off = (np.arange(s) + 0.5) / s - 0.5
    xs = (np.arange(x0, x1)[:, None] + off[None, :]).ravel()
    ys = (np.arange(y0, y1)[:, None] + off[None, :]).ravel()
    d = np.hypot(xs[None, :] - xc, ys[:, None] - yc)
    inside = (d < r - TIE).astype(float)
    tie = (np.abs(d - r) <= TIE).astype(float)
    sh = (y1 - y0, s, x1 - x0, s)
    w[y0:y1, x0:x1] = inside.reshape(sh).sum(axis=(1, 3)) / (s * s)
    amb[y0:y1, x0:x1] = tie.reshape(sh).sum(axis=(1, 3)) / (s * s)
    return w, amb


# ---------------------------------------------------------------------------- raw data profile (RadialProfile.data_radius / data_profile)
def data_points(shape, xc, yc, rmax, tie=None):
    """Documented definition of the raw data profile: the image pixels whose centre lies within ``rmax`` of
    (xc, yc).  -> (iy, ix, r, certain): integer pixel indices, their radii and a flag that is False for a pixel
    within ``tie`` of the circle (either decision is accepted for those).  Plain loops over ALL pixels of the image:
    no bounding box, hence nothing that could mix up the two axes."""
    ny, nx = shape
    tie = 1e-12 * (1.0 + rmax) if tie is None else tie
    iy, ix, rr, cert = [], [], [], []
    for y in range(ny):
        for x in range(nx):
            r = math.hypot(x - xc, y - yc)
            if r <= rmax + tie:
                iy.append(y)
                ix.append(x)
                rr.append(r)
                cert.append(r < rmax - tie)
    return (np.array(iy, dtype=int), np.array(ix, dtype=int), np.array(rr, dtype=float), np.array(cert, dtype=bool))


def _value_key(v):
    v = np.array(v, dtype=float).ravel()
    v = np.where(np.isnan(v), np.nan, v) + 0.0        # one NaN pattern; -0.0 + 0.0 = +0.0
    return np.ascontiguousarray(v).view(np.uint64)


def match_points(got_r, got_v, cand_r, cand_v, cand_required, tol):
    """Multiset comparison of (radius, value) pairs.  Every returned pair must be an image pixel of the candidate
    list (value bit-exact, NaN = NaN; radius within ``tol``), every *required* candidate must be returned exactly once,
    the other candidates may be returned or not.  Pairs are grouped by value and, within a value, into clusters of
    radii closer than ``tol`` (so pixels at symmetric positions with the same value are interchangeable); in a
    cluster with q required and o optional candidates the number g of returned pairs must satisfy q <= g <= q + o.
    -> (missing, extra, example) numbers of required pixels not returned / returned pairs that match no pixel."""
    got_r = np.array(got_r, dtype=float).ravel()
    got_r = np.where(np.isfinite(got_r), got_r, -1.0)          # a non-finite radius matches nothing
    cand_r = np.array(cand_r, dtype=float).ravel()
    cand_required = np.asarray(cand_required, dtype=bool).ravel()
    r = np.concatenate([cand_r, got_r])
    k = np.concatenate([_value_key(cand_v), _value_key(got_v)])
    kind = np.concatenate([np.where(cand_required, 0, 1), np.full(got_r.size, 2)])
    if r.size == 0:
        return 0, 0, None
    order = np.lexsort((r, k))
    r, k, kind = r[order], k[order], kind[order]
    new = (k[1:] != k[:-1]) | (r[1:] - r[:-1] > tol)
    cid = np.concatenate([[0], np.cumsum(new)])
    n = int(cid[-1]) + 1
    q = np.bincount(cid, weights=(kind == 0), minlength=n)
    o = np.bincount(cid, weights=(kind == 1), minlength=n)
    g = np.bincount(cid, weights=(kind == 2), minlength=n)
    miss = np.maximum(q - g, 0)
    extra = np.maximum(g - q - o, 0)
    example = None
    bad = np.nonzero((miss > 0) | (extra > 0))[0]
    if bad.size:
        j = int(np.nonzero(cid == bad[0])[0][0])
        example = {'radius': float(r[j]), 'value': repr(float(k[j:j + 1].view(np.float64)[0])),
                   'required': int(q[bad[0]]), 'optional': int(o[bad[0]]), 'returned': int(g[bad[0]])}
    return int(miss.sum()), int(extra.sum()), example
