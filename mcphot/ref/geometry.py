"""Reference geometry for C01 (and other aperture properties).

Plain numpy/math, written independently of photutils.geometry:

* exact area of (polygon) ∩ (unit disk) by the Green / line-integral formula,
  edge by edge (the implementation instead splits into quadrants / two
  triangles with a five-way case analysis).  Ellipses are reduced to the unit
  disk by the affine map (rotate by -theta, scale 1/a, 1/b).
* counted sub-pixel centres with an *ambiguity interval*: a centre closer to the
  shape boundary than the stated position uncertainty may be counted either way.
* analytic extents / areas and the minimal integer pixel box (with the exact
  rational tie rule).

Conventions: pixel ``i`` covers ``[i - 0.5, i + 0.5]``; all coordinates handed to
the functions below are *relative to the aperture centre*; ``theta`` is the
counter-clockwise angle of the first axis (a / w) from +x, in radians.

Self-test: /verif/selftest/test_geometry.py (brute-force sub-sampling, chord
integration, parametric extents).
"""
import math
from fractions import Fraction

import numpy as np

# ---------------------------------------------------------------------------
# polygon ∩ unit disk, scalar ("boring") version
# ---------------------------------------------------------------------------


def _sector(ax, ay, bx, by):
    """signed area of the unit-disk sector swept from direction A to direction B
    (|angle| <= pi)."""
    return 0.5 * math.atan2(ax * by - ay * bx, ax * bx + ay * by)


def seg_disk_area(x1, y1, x2, y2):
    """Signed area of (triangle O, P1, P2) ∩ unit disk, for the directed edge
    P1 -> P2.  Summed over the edges of a closed polygon this gives the signed
    area of polygon ∩ disk (Green's theorem applied to the clipped region:
    chord pieces contribute the triangle, pieces outside the disk contribute
    the sector under their radial projection)."""
    dx, dy = x2 - x1, y2 - y1
    a = dx * dx + dy * dy
    if a == 0.0:
        return 0.0
    cr = x1 * dy - y1 * dx             # cross(P1, d) = |d| * signed distance of the line from O
    q = a - cr * cr                    # = disc / 4 of |P1 + t d|^2 = 1  (stable form)
    if q <= 0.0:                       # line misses (or touches) the circle
        return _sector(x1, y1, x2, y2)
    sq = math.sqrt(q)
    pd = x1 * dx + y1 * dy
    t1 = (-pd - sq) / a
    t2 = (-pd + sq) / a
    if t2 <= 0.0 or t1 >= 1.0:         # chord lies outside the segment
        return _sector(x1, y1, x2, y2)
    ta = max(t1, 0.0)
    tb = min(t2, 1.0)
    ax, ay = x1 + ta * dx, y1 + ta * dy
    bx, by = x1 + tb * dx, y1 + tb * dy
    area = 0.5 * (ax * by - ay * bx)
    if ta > 0.0:
        area += _sector(x1, y1, ax, ay)
    if tb < 1.0:
        area += _sector(bx, by, x2, y2)
    return area


def poly_unit_disk_area(pts):
    """Area of (simple polygon) ∩ (unit disk); ``pts`` list of (x, y)."""
    s = 0.0
    n = len(pts)
    for i in range(n):
        x1, y1 = pts[i]
        x2, y2 = pts[(i + 1) % n]
        s += seg_disk_area(x1, y1, x2, y2)
    return abs(s)


def ellipse_pixel_frac(xmin, ymin, xmax, ymax, a, b, theta):
    """Fraction of the axis-aligned cell covered by the ellipse (semi-axes a, b,
    angle theta) centred on the origin -- scalar version."""
    c, s = math.cos(theta), math.sin(theta)
    pts = []
    for (x, y) in ((xmin, ymin), (xmax, ymin), (xmax, ymax), (xmin, ymax)):
        pts.append(((x * c + y * s) / a, (-x * s + y * c) / b))
    return poly_unit_disk_area(pts) * a * b / ((xmax - xmin) * (ymax - ymin))


# ---------------------------------------------------------------------------
# vectorised version (same formula) for whole pixel grids
# ---------------------------------------------------------------------------

def _seg_disk_area_v(x1, y1, x2, y2):
    dx = x2 - x1
    dy = y2 - y1
    a = dx * dx + dy * dy
    cr = x1 * dy - y1 * dx
    q = a - cr * cr
    full = 0.5 * np.arctan2(x1 * y2 - y1 * x2, x1 * x2 + y1 * y2)
    ok = (q > 0.0) & (a > 0.0)
    if not ok.any():
        return full
    sq = np.sqrt(np.where(ok, q, 0.0))
    asafe = np.where(a > 0.0, a, 1.0)
    pd = x1 * dx + y1 * dy
    t1 = (-pd - sq) / asafe
    t2 = (-pd + sq) / asafe
    hit = ok & (t2 > 0.0) & (t1 < 1.0)
    if not hit.any():
        return full
    ta = np.clip(t1, 0.0, 1.0)
    tb = np.clip(t2, 0.0, 1.0)
    ax = x1 + ta * dx
    ay = y1 + ta * dy
    # the chord end is P2 itself when tb == 1 (x1 + 1*(x2 - x1) need not reproduce x2 bit for bit, and for a
    # vertex very close to the origin that last-bit difference is a visible angle)
    bx = np.where(tb >= 1.0, x2, x1 + tb * dx)
    by = np.where(tb >= 1.0, y2, y1 + tb * dy)
    area = 0.5 * (ax * by - ay * bx)
    # sector(P1 -> A) is exactly 0 when ta == 0 (A == P1), sector(B -> P2) when tb == 1 (B == P2)
    area = area + 0.5 * np.arctan2(x1 * ay - y1 * ax, x1 * ax + y1 * ay)
    area = area + 0.5 * np.arctan2(bx * y2 - by * x2, bx * x2 + by * y2)
    return np.where(hit, area, full)


def ellipse_grid_exact(xe, ye, a, b, theta, chunk=256):
    """Exact covered fraction of every cell of the rectilinear grid with cell
    edges ``xe`` (nx+1 values) and ``ye`` (ny+1 values), relative to the centre
    of an ellipse with semi-axes a, b and angle theta.  -> (ny, nx) array.

    Each horizontal / vertical grid edge is integrated once and shared by the
    two cells it separates."""
    xe = np.asarray(xe, float)
    ye = np.asarray(ye, float)
    nx, ny = len(xe) - 1, len(ye) - 1
    c, s = math.cos(theta), math.sin(theta)
    out = np.empty((ny, nx))
    cell = np.diff(xe)[None, :]
    for j0 in range(0, ny, chunk):
        j1 = min(ny, j0 + chunk)
        X, Y = np.meshgrid(xe, ye[j0:j1 + 1])
        U = (X * c + Y * s) / a
        V = (-X * s + Y * c) / b
        H = _seg_disk_area_v(U[:, :-1], V[:, :-1], U[:, 1:], V[:, 1:])      # left -> right, rows j0..j1
        W = _seg_disk_area_v(U[:-1, :], V[:-1, :], U[1:, :], V[1:, :])      # bottom -> top
        signed = H[:-1, :] + W[:, 1:] - H[1:, :] - W[:, :-1]
        out[j0:j1] = np.abs(signed) * (a * b) / (cell * np.diff(ye[j0:j1 + 1])[:, None])
    return out


# ---------------------------------------------------------------------------
# shapes: membership margin, extents, area
# ---------------------------------------------------------------------------
# A "simple shape" is ('c', r) | ('e', a, b, theta) | ('r', w, h, theta).

def _classify(shape, X, Y, dpos):
    """-> (definitely_inside, possibly_inside) boolean arrays for points (X, Y)
    relative to the centre; a point whose distance from the boundary is below
    the position uncertainty ``dpos`` (plus the rounding of the membership
    function itself) is 'possibly' but not 'definitely' inside."""
    kind = shape[0]
    if kind == 'c':
        r = shape[1]
        d = np.hypot(X, Y)
        slack = dpos + 4e-15 * (r + 1.0)
        return d < r - slack, d <= r + slack
    th = shape[3]
    c, s = math.cos(th), math.sin(th)
    xr = X * c + Y * s
    yr = -X * s + Y * c
    if kind == 'e':
        a, b = shape[1], shape[2]
        v = (xr / a) ** 2 + (yr / b) ** 2
        g = 2.0 * np.hypot(xr / (a * a), yr / (b * b))       # |grad v|
        slack = g * dpos + 4e-15 * np.maximum(v, 1.0)
        return v < 1.0 - slack, v <= 1.0 + slack
    if kind == 'r':
        hw, hh = shape[1] / 2.0, shape[2] / 2.0
        slack = dpos + 4e-15 * (hw + hh + 1.0)
        ax, ay = np.abs(xr), np.abs(yr)
        return (ax < hw - slack) & (ay < hh - slack), (ax <= hw + slack) & (ay <= hh + slack)
    raise ValueError(kind)


def subpixel_interval(shape, x0, y0, nx, ny, s, dpos, maxpts=400000):
    """Counts of sub-pixel centres inside the shape for the nx x ny unit pixels
    whose lower-left corner is (x0, y0) (relative to the shape centre), s x s
    sub-pixels each.  -> (lo, hi) integer arrays (ny, nx): number of centres
    definitely inside / possibly inside."""
    off = (np.arange(s) + 0.5) / s
    xs = (x0 + np.arange(nx))[:, None] + off[None, :]
    xs = xs.reshape(-1)
    lo = np.empty((ny, nx), dtype=np.int64)
    hi = np.empty((ny, nx), dtype=np.int64)
    rows = max(1, maxpts // max(1, nx * s * s))       # pixel rows per chunk
    for j0 in range(0, ny, rows):
        j1 = min(ny, j0 + rows)
        ys = (y0 + np.arange(j0, j1))[:, None] + off[None, :]
        ys = ys.reshape(-1)
        din, pin = _classify(shape, xs[None, :], ys[:, None], dpos)
        lo[j0:j1] = din.reshape(j1 - j0, s, nx, s).sum(axis=(1, 3))
        hi[j0:j1] = pin.reshape(j1 - j0, s, nx, s).sum(axis=(1, 3))
    return lo, hi


def extents(shape):
    """Half-sizes (ex, ey) of the tight axis-aligned box of the shape."""
    kind = shape[0]
    if kind == 'c':
        return shape[1], shape[1]
    th = shape[3]
    c, s = math.cos(th), math.sin(th)
    if kind == 'e':
        a, b = shape[1], shape[2]
        return math.hypot(a * c, b * s), math.hypot(a * s, b * c)
    if kind == 'r':
        w, h = shape[1], shape[2]
        return (w * abs(c) + h * abs(s)) / 2.0, (w * abs(s) + h * abs(c)) / 2.0
    raise ValueError(kind)


def extents_exact(shape):
    """True when ``extents`` is exact in rational arithmetic (no trig / sqrt
    rounding): circles, and shapes with theta == 0."""
    return shape[0] == 'c' or shape[3] == 0.0


def area(shape):
    kind = shape[0]
    if kind == 'c':
        return math.pi * shape[1] ** 2
    if kind == 'e':
        return math.pi * shape[1] * shape[2]
    return shape[1] * shape[2]


def perimeter_bound(shape):
    """An upper bound of the boundary length (used for the rectangle 32x32
    accuracy bound only)."""
    kind = shape[0]
    if kind == 'c':
        return 2 * math.pi * shape[1]
    if kind == 'e':
        return 2 * math.pi * max(shape[1], shape[2])
    return 2 * (shape[1] + shape[2])


def box_1d_admissible(c, e, exact, ulps=16):
    """Admissible (imin, imax_exclusive) pairs for the minimal pixel interval
    containing [c - e, c + e] (pixel i = [i - 0.5, i + 0.5]).

    * ``exact`` (c and e are the true values, as binary floats): the interval
      ends are evaluated in rational arithmetic, the answer is unique.  An end
      lying exactly on a pixel edge belongs to the pixel on the shape's side
      (the neighbouring pixel would only be touched in a point).
    * otherwise the ends carry a rounding uncertainty of ``ulps`` ulp of
      (|c| + e): an end within that distance of a pixel edge admits both boxes.
    Also, even in the exact case, an end within ``ulps`` ulp of -- but not on --
    a pixel edge admits both (the implementation rounds c - e once)."""
    fc, fe = Fraction(c), Fraction(e)
    lo, hi = fc - fe, fc + fe
    half = Fraction(1, 2)
    tol = Fraction(ulps * 2.220446049250313e-16 * (abs(c) + e + 1.0))
    imin0 = math.floor(lo + half)              # pixel containing lo (edge -> upper pixel)
    imax0 = math.ceil(hi + half)               # exclusive; edge -> lower pixel
    mins, maxs = {imin0}, {imax0}
    # distance of lo from the nearest pixel edge
    for end, cands, base in ((lo, mins, imin0), (hi, maxs, imax0)):
        k = math.floor(end + half)             # edges at k - 1/2 and k + 1/2 bracket `end`
        for edge in (k - half, k + half):
            dist = abs(end - edge)
            if dist <= tol and not (exact and dist == 0):
                if cands is mins:
                    cands.update({int(edge + half) - 1, int(edge + half)})
                else:
                    cands.update({int(edge + half), int(edge + half) + 1})
    return mins, maxs
