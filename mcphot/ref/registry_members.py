"""Argument sets for the public members that ``Ctx.members`` cannot call
without arguments or must not call with the defaults only (C10, second pass:
``Ctx._member_extras``).

* plotting / patch members (``registry.PLOT_PREFIXES``): an explicit entry in
  ``MEMBER_ARGS`` or, without one, arguments derived from the signature -- the
  shared Axes for ``ax``, a NON-zero ``origin`` (an ndarray the caller holds and
  that is watched), ``scale`` != 1 and patch keywords for ``**kwargs``.  A
  default ``origin=(0, 0)`` / ``scale=1`` would make every in-place "-= origin"
  / "*= scale" on an aliased array a no-op.
* members that need arguments: one sensible non-default argument set per entry
  (arrays / lists in them are caller-held and watched), or listed in
  ``EXPLICIT`` when the recipes call them as explicit steps with the image.
* members callable without arguments may have extra non-default variants.

An entry is ``(class name, member name) -> [(variant, build, mutates_self)]``
with ``build(c, obj) -> (args, kwargs)``; the class name is looked up along the
MRO, so an entry for a base class serves every subclass.  Anything public that
is left without an argument set is reported by ``not_evaluated`` (evidence).
"""
import inspect

import numpy as np

# objects whose own state is outside the property's list (fit / geometry state objects, estimators): never watched as 'self'
SELF_EXEMPT = ('EllipseGeometry', 'EllipseSample', 'Ellipse', 'EllipseFitter')

PATCH_KW = {'color': 'red', 'lw': 2, 'alpha': 0.5}
SCALE = 1.5

_AX = [None]


def axes():
    """One figure / Axes per process (Agg backend, set by the launcher)."""
    import matplotlib
    if matplotlib.get_backend().lower() != 'agg':
        matplotlib.use('Agg')
    import matplotlib.pyplot as plt
    if _AX[0] is None:
        fig = plt.figure('mcphot-registry', figsize=(3, 3))
        fig.clf()
        _AX[0] = fig.add_subplot()
    return _AX[0]


def after_plot(c):
    """Remove what a plotting step drew (cheap); a step that added Axes
    (colorbars) or opened figures gets a fresh figure."""
    ax = _AX[0]
    if ax is None:
        return
    import matplotlib.pyplot as plt
    fig = ax.figure
    if len(plt.get_fignums()) > 1:
        for n in plt.get_fignums():
            if n != fig.number:
                plt.close(n)
        plt.figure(fig.number)
    if len(fig.axes) != 1:
        fig.clf()
        _AX[0] = fig.add_subplot()
        return
    for coll in (ax.patches, ax.lines, ax.images, ax.collections, ax.texts):
        for a in list(coll):
            a.remove()


def self_exempt(cls):
    return any(k.__name__ in SELF_EXEMPT for k in cls.__mro__)


def _held(c, *names):
    for n in names:
        if n in c.held:
            return c.held[n]
    return None


def _image(c):
    """The image of the run if it is an array (an NDData is not a valid image
    argument of the members below): the held 'data'."""
    from astropy.nddata import NDData
    d = _held(c, 'data')
    return None if isinstance(d, NDData) else d


def _hold(c, name, value):
    if name not in c.held:
        c.hold(name, value)
    return c.held[name]


def _labels(c, o):
    """Two labels of a segmentation image / catalog as a caller-held array."""
    labs = np.asarray(o.labels)
    return _hold(c, 'member_labels', np.array([labs[0], labs[-1]]))


def _plot_kw(**kw):
    return lambda c, o: ((), dict(ax=c.plot_ax(), **kw))


MEMBER_ARGS = {
    # --- apertures ------------------------------------------------------------
    ('BoundingBox', 'get_overlap_slices'): [('shape', lambda c, o: ((_hold(c, 'image_shape', [41, 47]),), {}), False)],
    ('BoundingBox', 'union'): [('other', lambda c, o: ((_held(c, 'other_bbox'),), {}), False)],
    ('BoundingBox', 'intersection'): [('other', lambda c, o: ((_held(c, 'other_bbox'),), {}), False)],
    ('ApertureMask', 'get_overlap_slices'): [('shape', lambda c, o: ((_hold(c, 'image_shape', [41, 47]),), {}), False)],
    ('ApertureStats', 'get_id'): [('id 2', lambda c, o: ((2,), {}), False)],
    ('ApertureStats', 'get_ids'): [('ids', lambda c, o: ((_hold(c, 'member_ids', [3, 1]),), {}), False)],
    ('ApertureStats', 'to_table'): [('columns', lambda c, o: ((), {'columns': _hold(c, 'member_columns', ['id', 'sum', 'centroid'])}), False)],
    # --- background -----------------------------------------------------------
    ('Background2D', 'plot_meshes'): [('outlines, marker, kwargs', _plot_kw(marker='x', markersize=4, color='red', alpha=0.5,
                                                                         outlines=True, lw=2), False),
                                      ('no markers', _plot_kw(markersize=0), False)],
    ('BackgroundBase', 'calc_background'): [('axis=1, masked', lambda c, o: ((_image(c),), {'axis': 1, 'masked': True}), False)],
    ('BackgroundRMSBase', 'calc_background_rms'): [('axis=1, masked', lambda c, o: ((_image(c),), {'axis': 1, 'masked': True}), False)],
    # --- detection ------------------------------------------------------------
    ('StarFinderBase', 'find_stars'): [('data, mask', lambda c, o: ((_image(c),), {'mask': _held(c, 'mask')}), False)],
    # --- isophote -------------------------------------------------------------
    ('EllipseGeometry', 'find_center'): [('image', lambda c, o: ((_image(c),), {'threshold': 0.2, 'verbose': False}), True)],
    ('EllipseGeometry', 'to_polar'): [('arrays', lambda c, o: ((_hold(c, 'polar_x', np.array([30.0, 33.5, 31.0])),
                                                                 _hold(c, 'polar_y', np.array([20.0, 18.5, 24.0]))), {}), False)],
    ('EllipseGeometry', 'radius'): [('angle', lambda c, o: ((0.3,), {}), False)],
    ('EllipseGeometry', 'initialize_sector_geometry'): [('phi', lambda c, o: ((0.5,), {}), True)],
    # --- PSF grids ------------------------------------------------------------
    ('ModelGridPlotMixin', 'plot_grid'): [('deltas, peak_norm', _plot_kw(deltas=True, peak_norm=True, vmax_scale=0.5, cmap='gray',
                                                                      divider_color='red', divider_ls=':'), False),
                                          ('new figure', lambda c, o: ((), {'figsize': (2, 2), 'dividers': False}), False)],
    # --- segmentation ---------------------------------------------------------
    ('SegmentationImage', 'imshow'): [('ax, cmap, alpha array', lambda c, o: ((), {'ax': c.plot_ax(), 'cmap': 'viridis', 'alpha': _hold(
        c, 'alpha', np.full(o.shape, 0.5))}), False)],
    ('SegmentationImage', 'imshow_map'): [('ax, alpha, labelsize', _plot_kw(alpha=0.5, cbar_labelsize=6), False)],
    ('SegmentationImage', 'plot_patches'): [('origin, scale, labels, kwargs', lambda c, o: ((), dict(
        ax=c.plot_ax(), origin=c.plot_origin(), scale=SCALE, labels=_labels(c, o), **PATCH_KW)), False)],
    ('SegmentationImage', 'make_cmap'): [('colour, seed', lambda c, o: ((), {'background_color': 'red', 'seed': 1}), False)],
    ('SegmentationImage', 'check_label'): [('label', lambda c, o: ((int(o.labels[0]),), {}), False)],
    ('SegmentationImage', 'check_labels'): [('labels', lambda c, o: ((_labels(c, o),), {}), False)],
    ('SegmentationImage', 'get_area'): [('label', lambda c, o: ((int(o.labels[0]),), {}), False)],
    ('SegmentationImage', 'get_areas'): [('labels', lambda c, o: ((_labels(c, o),), {}), False)],
    ('SegmentationImage', 'get_index'): [('label', lambda c, o: ((int(o.labels[0]),), {}), False)],
    ('SegmentationImage', 'get_indices'): [('labels', lambda c, o: ((_labels(c, o),), {}), False)],
    ('SourceCatalog', 'plot_kron_apertures'): [
        ('catalog apertures, origin, kwargs', lambda c, o: ((), dict(ax=c.plot_ax(), origin=c.plot_origin(), **PATCH_KW)), False),
        ('kron_params, origin', lambda c, o: ((), dict(kron_params=_hold(c, 'plot_kron_params', (2.0, 1.0)), ax=c.plot_ax(),
                                                       origin=c.plot_origin())), False)],
    ('SourceCatalog', 'plot_circular_apertures'): [('radius, origin, kwargs', lambda c, o: ((3.0,), dict(
        ax=c.plot_ax(), origin=c.plot_origin(), **PATCH_KW)), False)],
    ('SourceCatalog', 'get_label'): [('label', lambda c, o: ((int(np.atleast_1d(o.labels)[0]),), {}), False)],
    ('SourceCatalog', 'to_table'): [('columns', lambda c, o: ((), {'columns': _hold(c, 'member_columns', ['label', 'xcentroid', 'segment_flux'])}), False)],
}

# members that need arguments and are called by the recipes as explicit steps (with the image / error / mask of the run)
EXPLICIT = {
    ('PixelAperture', 'area_overlap'), ('PixelAperture', 'do_photometry'), ('PixelAperture', 'to_sky'), ('SkyAperture', 'to_pixel'),
    ('ApertureMask', 'cutout'), ('ApertureMask', 'get_values'), ('ApertureMask', 'multiply'), ('ApertureMask', 'to_image'),
    ('CurveOfGrowth', 'calc_ee_at_radius'), ('CurveOfGrowth', 'calc_radius_at_ee'), ('EPSFStar', 'compute_residual_image'),
    ('IsophoteList', 'get_closest'), ('Segment', 'make_cutout'),
    ('SourceCatalog', 'circular_photometry'), ('SourceCatalog', 'fluxfrac_radius'), ('SourceCatalog', 'get_labels'),
    ('SourceCatalog', 'kron_photometry'), ('SourceCatalog', 'make_circular_apertures'), ('SourceCatalog', 'make_kron_apertures'),
    ('SourceCatalog', 'make_cutouts'), ('ModelImageMixin', 'make_model_image'), ('ModelImageMixin', 'make_residual_image'),
    ('Ellipse', 'fit_isophote'), ('EPSFBuilder', 'build_epsf'),
}


def _lookup(table, cls, name):
    for k in cls.__mro__:
        if (k.__name__, name) in table:
            return (k.__name__, name)
    return None


def _auto_plot_args(cls, name):
    """Argument set of a plotting member derived from its signature, or None
    when it has a required parameter that is not one of ax / origin / scale."""
    fn = inspect.getattr_static(cls, name)
    params = list(inspect.signature(fn).parameters.values())[1:]
    names = {p.name for p in params}
    for p in params:
        if p.default is p.empty and p.kind not in (p.VAR_POSITIONAL, p.VAR_KEYWORD) and p.name not in ('ax', 'origin', 'scale'):
            return None
    has_kw = any(p.kind == p.VAR_KEYWORD for p in params)

    def build(c, o):
        kw = {}
        if 'ax' in names:
            kw['ax'] = c.plot_ax()
        if 'origin' in names:
            kw['origin'] = c.plot_origin()
        if 'scale' in names:
            kw['scale'] = SCALE
        if has_kw:
            kw.update(PATCH_KW)
        return (), kw
    variant = ', '.join([n for n in ('ax', 'origin', 'scale') if n in names] + (['kwargs'] if has_kw else [])) or 'defaults'
    return [(variant, build, False)]


def argument_sets(cls, name, kind):
    """[(variant, build, mutates_self)] for the second pass of ``members``."""
    key = _lookup(MEMBER_ARGS, cls, name)
    if key is not None:
        return MEMBER_ARGS[key]
    if kind == 'plot':
        return _auto_plot_args(cls, name) or []
    return []


def not_evaluated(cls, own=False):
    """{kind: [names]} of the public members of ``cls`` that no pass of
    ``members`` and no explicit recipe step calls (mutators: exempt by the
    property and called only where a recipe says so)."""
    from .registry import member_names
    out = {}
    for name, kind in member_names(cls, own=own):
        if kind in ('property', 'method0'):
            continue
        if kind != 'mutator' and (argument_sets(cls, name, kind) or _lookup(EXPLICIT, cls, name)):
            continue
        out.setdefault(kind, []).append(name)
    return out
