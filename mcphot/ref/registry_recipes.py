"""Call recipes for the registry (see registry.py).  One function per public
entry point (or family); each builds valid arguments from the small scene via
the context and executes the calls as named steps.  No expected values here.
"""
import numpy as np

import collections

from .registry import recipe, SHAPE, XPOS, YPOS, CUT, FRAMES

POS3 = ((15.0, 14.0), (31.0, 20.0), (1.0, 1.5))      # third aperture is cut by the image corner
CUT_SHAPE = (19, 21)

# geometry alphabets (names of registry.FRAMES; see there)
G_ALL = ('base', 'tight', 'fullwidth', 'fullheight', 'under', 'row', 'col')
G_BLOCK = ('base', 'tight', 'fullwidth', 'fullheight', 'under')      # entry points that need a 2-D neighbourhood
G_SMALL = ('base', 'tight', 'under')
G_LINE = ('base', 'row', 'col')                                      # whole-image reductions: degenerate images
G_DET = ('base', 'tight', 'under', 'five', 'row', 'col')
# single-source cutouts handed to the centroid / moment functions as the whole array
CUTS = collections.OrderedDict([
    ('base', CUT),                                   # 19x21
    ('row', (slice(14, 15), slice(5, 26))),          # 1x21 through the source
    ('col', (slice(5, 24), slice(17, 18))),          # 19x1
    ('tiny', (slice(13, 16), slice(14, 17))),        # 3x3 around the peak: smaller than every default fit box
    ('box5', (slice(12, 17), slice(13, 18))),        # 5x5: the default fit box of centroid_quadratic is the whole array
])
G_CUT = tuple(CUTS)


def _pos3(c):
    """POS3 in frame coordinates (the corner aperture stays at the corner of the frame)."""
    return ((c.fx(15.0), c.fy(14.0)), (c.fx(31.0), c.fy(20.0)), (1.0, 1.5))


def _sigclip():
    from astropy.stats import SigmaClip
    return SigmaClip(sigma=3.0, maxiters=5)


# --------------------------------------------------------------------------
# photutils.aperture
# --------------------------------------------------------------------------
def _pixel_aperture(c, clsname, params):
    import photutils.aperture as pa
    cls = getattr(pa, clsname)
    pos = c.arg('positions', np.array(_pos3(c)), kinds='layout')
    d, e, m = c.data(), c.error(), c.mask()
    wcs = c.hold('wcs', _wcs())
    ap = c.step(clsname, lambda: cls(pos, *params))
    if ap is None:
        return
    c.hold('aperture', ap)
    if c.geom == 'base':                 # members that do not involve the image: once
        c.members(clsname, ap)
        if c.extras:
            _set_attributes(c, clsname, ap)
    c.step(f'{clsname}.area_overlap', lambda: ap.area_overlap(d, mask=m))
    c.step(f'{clsname}.do_photometry', lambda: ap.do_photometry(d, e, m), mix=True)
    c.step(f'{clsname}.do_photometry[center]', lambda: ap.do_photometry(d, e, m, method='center'), mix=True)
    tiny = cls((c.fx(16.0), c.fy(14.0)), *[p * 0.05 if i < len(params) - (0 if 'Circular' in clsname else 1) else p for i, p in enumerate(params)])
    c.step(f'{clsname}.do_photometry[tiny aperture on a masked pixel]', lambda: tiny.do_photometry(d, e, m), mix=True)
    if c.geom == 'base':
        c.step(f'{clsname}.to_sky', lambda: ap.to_sky(wcs))
        c.step(f'{clsname}.to_mask[subpixel]', lambda: [mk.data for mk in ap.to_mask(method='subpixel', subpixels=3)])
    c.step(f'aperture_photometry[{clsname}]', lambda: pa.aperture_photometry(d, ap, error=e, mask=m), mix=True)


def _wcs():
    from photutils.datasets import make_wcs
    return make_wcs(SHAPE)


def _set_attributes(c, clsname, ap):
    """Assignment to the aperture attributes (the descriptor classes of
    photutils.aperture.attributes): the values assigned are caller-held; the
    aperture assigned to is a copy (assignment is a mutation of it by design),
    which is then drawn with a non-zero origin."""
    import astropy.units as u
    ap2 = ap.copy()
    newpos = c.hold('new_positions', np.array(_pos3(c))[::-1].copy())
    c.step(f'{clsname}.positions = array', lambda: setattr(ap2, 'positions', newpos))
    vals = {k: getattr(ap, k) for k in ap._params if k != 'positions'}
    if 'theta' in vals:
        vals['theta'] = c.hold('new_theta', u.Quantity(25.0, u.deg))
    c.step(f'{clsname}.<shape attributes> = values', lambda: [setattr(ap2, k, v) for k, v in vals.items()] and None)
    c.plot_step(f'{clsname}.plot[after assignment]', lambda: ap2.plot(ax=c.plot_ax(), origin=c.plot_origin()))
    c.step(f'{clsname}.to_mask[after assignment]', lambda: [mk.data for mk in ap2.to_mask(method='center')], keep_output=False)


_PIX = {
    'CircularAperture': ('circle', (4.0,)),
    'CircularAnnulus': ('circle', (3.0, 6.5)),
    'EllipticalAperture': ('ellipse', (5.0, 3.0, 0.4)),
    'EllipticalAnnulus': ('ellipse', (3.0, 6.0, 4.0, 2.0, 0.4)),
    'RectangularAperture': ('rectangle', (7.0, 4.0, 0.4)),
    'RectangularAnnulus': ('rectangle', (3.0, 8.0, 5.0, 1.875, 0.4)),
}
for _n, (_mod, _p) in _PIX.items():
    # CircularAperture(r=4): bounding box == the 'tight' image, larger than the 'under' image on every side
    recipe(_n, [f'aperture.{_mod}.{_n}'], units=True, geoms=G_ALL)(lambda c, _n=_n, _p=_p: _pixel_aperture(c, _n, _p))


def _sky_aperture(c, clsname, params):
    import astropy.units as u
    import photutils.aperture as pa
    cls = getattr(pa, clsname)
    wcs = c.hold('wcs', _wcs())
    sky = c.hold('positions', wcs.pixel_to_world(np.array([15.0, 31.0]), np.array([14.0, 20.0])))
    d, e, m = c.data(), c.error(), c.mask()
    qp = [p * u.arcsec if i < len(params) - (0 if 'Circular' in clsname else 1) else p * u.deg
          for i, p in enumerate(params)]
    ap = c.step(clsname, lambda: cls(sky, *qp))
    if ap is None:
        return
    c.hold('aperture', ap)
    c.members(clsname, ap)
    if c.extras:     # assignment to the attributes (descriptor classes SkyCoordPositions / [Positive]ScalarAngle), on a copy
        ap2 = ap.copy()
        c.step(f'{clsname}.<attributes> = values', lambda: [setattr(ap2, k, sky if k == 'positions' else getattr(ap, k))
                                                             for k in ap._params] and None)
        c.step(f'{clsname}.to_pixel[after assignment]', lambda: ap2.to_pixel(wcs), keep_output=False)
    c.step(f'{clsname}.to_pixel', lambda: ap.to_pixel(wcs))
    c.step(f'aperture_photometry[{clsname}]', lambda: pa.aperture_photometry(d, ap, error=e, mask=m, wcs=wcs), mix=True)
    c.step(f'ApertureStats[{clsname}].sum', lambda: pa.ApertureStats(d, ap, error=e, mask=m, wcs=wcs).sum, mix=True)


_SKY = {
    'SkyCircularAperture': ('circle', (0.4,)),
    'SkyCircularAnnulus': ('circle', (0.3, 0.65)),
    'SkyEllipticalAperture': ('ellipse', (0.5, 0.3, 20.0)),
    'SkyEllipticalAnnulus': ('ellipse', (0.3, 0.6, 0.4, 0.2, 20.0)),
    'SkyRectangularAperture': ('rectangle', (0.7, 0.4, 20.0)),
    'SkyRectangularAnnulus': ('rectangle', (0.3, 0.8, 0.5, 0.1875, 20.0)),
}
for _n, (_mod, _p) in _SKY.items():
    recipe(_n, [f'aperture.{_mod}.{_n}'], units=True)(lambda c, _n=_n, _p=_p: _sky_aperture(c, _n, _p))


@recipe('ApertureMask', ['aperture.mask.ApertureMask'], units=True, geoms=G_ALL)
def _aperture_mask(c):
    from photutils.aperture import ApertureMask, BoundingBox, CircularAperture
    d, m = c.data(), c.mask()
    w = c.arg('mask_weights', CircularAperture((15.0, 14.0), 4.0).to_mask().data.copy())
    bbox = BoundingBox(*c.block_bbox())          # base: (11, 20, 10, 19); 'tight': exactly the image
    am = c.step('ApertureMask', lambda: ApertureMask(w, bbox))
    if am is None:
        return
    c.members('ApertureMask', am)
    c.step('ApertureMask.to_image', lambda: am.to_image(c.shape))
    c.step('ApertureMask.cutout', lambda: am.cutout(d))
    c.step('ApertureMask.cutout[copy]', lambda: am.cutout(d, copy=True))
    c.step('ApertureMask.multiply', lambda: am.multiply(d))
    c.step('ApertureMask.get_values', lambda: am.get_values(d, mask=m))
    # aperture cut by the image edge (partial-overlap branch)
    am2 = CircularAperture((1.0, 1.5), 4.0).to_mask()
    c.step('ApertureMask.cutout[edge]', lambda: am2.cutout(d, fill_value=0.0))
    c.step('ApertureMask.multiply[edge]', lambda: am2.multiply(d))
    c.step('ApertureMask.get_values[edge]', lambda: am2.get_values(d, mask=m))


@recipe('BoundingBox', ['aperture.bounding_box.BoundingBox'], numeric=False, axes=())
def _bounding_box(c):
    from photutils.aperture import BoundingBox
    bb = c.step('BoundingBox', lambda: BoundingBox(11, 20, 10, 19))
    if bb is None:
        return
    c.hold('bbox', bb)
    c.hold('other_bbox', BoundingBox(15, 25, 5, 12))
    c.step('BoundingBox.from_float', lambda: BoundingBox.from_float(10.6, 19.4, 9.5, 18.5))
    c.members('BoundingBox', bb)         # extras: as_artist / plot (origin != 0), get_overlap_slices, union, intersection
    c.step('BoundingBox == other', lambda: (bb == c.held['other_bbox'], bb | c.held['other_bbox'], bb & c.held['other_bbox']))


@recipe('aperture_photometry', ['aperture.photometry.aperture_photometry'], nddata=True, units=True, geoms=G_ALL)
def _aperture_photometry(c):
    from photutils.aperture import CircularAnnulus, CircularAperture, aperture_photometry
    d = c.data(nddata_ok=True)
    e, m = c.error(), c.mask()
    aps = c.hold('apertures', [CircularAperture(_pos3(c), 4.0), CircularAnnulus(_pos3(c), 5.0, 8.0)])
    # a tiny aperture on pixel (x=16, y=14): entirely masked in the 'masked' condition
    tiny = c.hold('tiny_aperture', CircularAperture((c.fx(16.0), c.fy(14.0)), 0.3))
    for method in ('exact', 'center', 'subpixel'):
        c.step(f'aperture_photometry[{method}]', lambda: aperture_photometry(d, aps, error=e, mask=m, method=method, subpixels=3), mix=True)
    c.step('aperture_photometry[tiny aperture on a masked pixel]', lambda: aperture_photometry(d, tiny, error=e, mask=m), mix=True)
    if c.rep not in ('nddata', 'nddata_q'):       # an NDData always brings its uncertainty along
        c.step('aperture_photometry[no error]', lambda: aperture_photometry(d, aps[0], mask=m))


@recipe('aperture_region_converters', ['aperture.converters.aperture_to_region', 'aperture.converters.region_to_aperture'],
        numeric=False, axes=())
def _converters(c):
    from photutils.aperture import CircularAperture, EllipticalAnnulus, aperture_to_region, region_to_aperture
    ap = c.hold('aperture', CircularAperture(np.array(POS3), 4.0))
    ap2 = c.hold('aperture2', EllipticalAnnulus((15.0, 14.0), 3.0, 6.0, 4.0, 2.0, 0.4))
    reg = c.step('aperture_to_region', lambda: aperture_to_region(ap))
    reg2 = c.step('aperture_to_region[annulus]', lambda: aperture_to_region(ap2))
    if reg2 is not None:
        c.hold('region', reg2)
        c.step('region_to_aperture', lambda: region_to_aperture(reg2))


@recipe('ApertureStats', ['aperture.stats.ApertureStats'], nddata=True, units=True, geoms=G_ALL)
def _aperture_stats(c):
    from photutils.aperture import ApertureStats, CircularAperture
    wcs = c.hold('wcs', _wcs())
    d = c.data(nddata_ok=True, nd_wcs=wcs)
    e, m = c.error(), c.mask()
    ap = c.hold('aperture', CircularAperture(_pos3(c), 4.0))
    if c.rep in ('nddata', 'nddata_q'):
        wcs = None          # taken from the NDData
    lbq = c.hold('local_bkg', c.q(np.array([1.0, 2.0, 0.5]), 'local_bkg'))
    st = c.step('ApertureStats', lambda: ApertureStats(d, ap, error=e, mask=m, wcs=wcs, sigma_clip=_sigclip(), local_bkg=lbq), mix=True)
    c.members('ApertureStats', st)
    if st is not None:
        c.step('ApertureStats[1]', lambda: st[1].to_table())
    st2 = c.step('ApertureStats[no sigma_clip, center]', lambda: ApertureStats(d, ap, error=e, mask=m, sum_method='center'))
    c.members('ApertureStats[center]', st2, only=('sum', 'sum_err', 'mean', 'median', 'std', 'centroid', 'data_sumcutout', 'error_sumcutout'))


# --------------------------------------------------------------------------
# photutils.background
# --------------------------------------------------------------------------
# Box layouts of Background2D (geometry axis).  The implementation splits the image into the "core" (ny x nx whole
# boxes), an extra row / column / corner of partial boxes, and reshapes each part into boxes: whether those reshapes
# are views of the caller's buffer depends on ny, nx and on the remainders.  Full product
#   ny, nx in {1, 2, 3}  x  remainder rows, columns in {none, some}  x  edge_method in {pad, crop}
# The image is the scene with up to two trailing rows / columns cut off so that the boxes divide it exactly
# (remainder 'none') -- every bad pixel of the scene lies inside every frame.
#            n: (image size without remainder, box) / (image size with remainder, box)
_BKG_ROWS = {1: ((41, 41), (41, 38)), 2: ((40, 20), (41, 19)), 3: ((39, 13), (41, 13))}
_BKG_COLS = {1: ((47, 47), (47, 43)), 2: ((46, 23), (47, 22)), 3: ((45, 15), (47, 15))}
BKG_LAYOUTS = collections.OrderedDict()
for _ny in (1, 2, 3):
    for _nx in (1, 2, 3):
        for _ry in (0, 1):
            for _rx in (0, 1):
                for _edge in ('pad', 'crop'):
                    (_h, _bh), (_w, _bw) = _BKG_ROWS[_ny][_ry], _BKG_COLS[_nx][_rx]
                    BKG_LAYOUTS[f'boxes {_ny}x{_nx}, remainder {_h - _ny * _bh}x{_w - _nx * _bw}, {_edge}'] = ((_h, _w), (_bh, _bw), _edge)
# degenerate images: one row / one column of pixels through source 0
BKG_LAYOUTS['image 1x47, boxes 1x3, remainder 0x11, pad'] = ('row', (1, 12), 'pad')
BKG_LAYOUTS['image 1x47, boxes 1x1, remainder 0x0, pad'] = ('row', (1, 47), 'pad')
BKG_LAYOUTS['image 41x1, boxes 4x1, remainder 1x0, pad'] = ('col', (10, 1), 'pad')
BKG_LAYOUTS['image 41x1, boxes 1x1, remainder 0x0, pad'] = ('col', (41, 1), 'pad')
_BKG_MEMBERS = ('background', 'background_rms', 'background_mesh', 'background_rms_mesh', 'background_median',
                'background_rms_median', 'background_mesh_masked', 'background_rms_mesh_masked', 'npixels_mesh', 'npixels_map')


@recipe('Background2D', ['background.background_2d.Background2D', 'background.interpolators.BkgZoomInterpolator'],
        nddata=True, units=True, geoms=('base',) + tuple(BKG_LAYOUTS))
def _background2d(c):
    from photutils.background import Background2D
    if c.geom != 'base':
        return _background2d_layout(c)
    d = c.data(nddata_ok=True)
    m = c.mask(even_for_nddata=True)     # Background2D takes data and unit from an NDData, the mask from the keyword
    cov = c.own_mask('coverage_mask', _coverage())
    b = c.step('Background2D', lambda: Background2D(d, (10, 12), mask=m, coverage_mask=cov, filter_size=3))
    c.members('Background2D', b)
    b2 = c.step('Background2D[box=image]', lambda: Background2D(d, SHAPE, mask=m, filter_size=1, exclude_percentile=50.0))
    c.members('Background2D[box=image]', b2, only=('background', 'background_rms', 'background_mesh'))
    b3 = c.step('Background2D[crop, threshold]', lambda: Background2D(d, (8, 8), mask=m, edge_method='crop',
                                                                     filter_size=3, filter_threshold=25.0 * c.scale))
    c.members('Background2D[crop, threshold]', b3, only=('background', 'background_rms'))


def _background2d_layout(c):
    """One box layout: the image is a frame of the scene, sigma clipping (the
    sources), the mask, the coverage mask and the non-finite pixels all make the
    box statistics write NaN into their working array."""
    from photutils.background import Background2D
    frame, box, edge = BKG_LAYOUTS[c.geom]
    c.set_frame(FRAMES[frame] if isinstance(frame, str) else (slice(0, frame[0]), slice(0, frame[1])))
    d = c.data(nddata_ok=True)
    m = c.mask(even_for_nddata=True)
    cov = np.zeros(c.shape, bool)
    cov[-1:, -2:] = True                 # a corner (lies in the partial corner box when there is one)
    cov = c.own_mask('coverage_mask', cov)
    lab = f'Background2D[{c.geom}]'
    b = c.step(lab, lambda: Background2D(d, box, mask=m, coverage_mask=cov, filter_size=1, edge_method=edge,
                                         exclude_percentile=50.0))
    c.members(lab, b, only=_BKG_MEMBERS)


def _coverage():
    cov = np.zeros(SHAPE, bool)
    cov[:, :2] = True
    return cov


@recipe('Background2D[IDW]', ['background.interpolators.BkgIDWInterpolator'], units=True)
def _background2d_idw(c):
    from photutils.background import Background2D, BkgIDWInterpolator
    d, m = c.data(), c.mask()
    b = c.step('Background2D[IDW]', lambda: Background2D(d, (10, 12), mask=m, interpolator=BkgIDWInterpolator()))
    c.members('Background2D[IDW]', b, only=('background', 'background_rms'))


_BKG = ('MeanBackground', 'MedianBackground', 'ModeEstimatorBackground', 'MMMBackground', 'SExtractorBackground',
        'BiweightLocationBackground')
_RMS = ('StdBackgroundRMS', 'MADStdBackgroundRMS', 'BiweightScaleBackgroundRMS')


def _estimator(c, name):
    import photutils.background as pb
    d = c.data()
    est = getattr(pb, name)(sigma_clip=_sigclip())
    est0 = getattr(pb, name)(sigma_clip=None)
    c.step(name, lambda: est(d))
    c.step(f'{name}[axis=0]', lambda: est(d, axis=0))
    c.step(f'{name}[axis=1, masked]', lambda: est(d, axis=1, masked=True))
    c.step(f'{name}[no clip]', lambda: est0(d))
    c.step(f'{name}[no clip, axis=1]', lambda: est0(d, axis=1))
    if c.extras:
        c.members(name, est)


for _n in _BKG + _RMS:
    recipe(_n, [f'background.core.{_n}'], units=True, geoms=G_LINE)(lambda c, _n=_n: _estimator(c, _n))


@recipe('LocalBackground', ['background.local_background.LocalBackground'], units=False, geoms=G_ALL)
def _local_background(c):
    from photutils.background import LocalBackground
    d, m = c.data(), c.mask()
    x = c.arg('x', c.fx(XPOS.copy()))        # sources outside a small frame: annulus without overlap
    y = c.arg('y', c.fy(YPOS.copy()))
    lb = LocalBackground(5, 8)               # the annulus is larger than the 'tight' / 'under' image on every side
    c.step('LocalBackground', lambda: lb(d, x, y, mask=m))
    c.step('LocalBackground[scalar]', lambda: lb(d, c.fx(15.0), c.fy(14.0), mask=m))
    if c.geom != 'base':
        lb2 = LocalBackground(2, 4)          # annulus (bounding box 9x9 = the block) around source 0
        c.step('LocalBackground[small annulus]', lambda: lb2(d, c.fx(15.0), c.fy(14.0), mask=m))


# --------------------------------------------------------------------------
# photutils.centroids
# --------------------------------------------------------------------------
def _cutregion(c):
    """Geometry of the single-source cutout recipes: c.geom names one of CUTS."""
    c.set_frame(CUTS[c.geom])
    return c


def _bkgsub(c):
    """The single-source cutout, background-subtracted unless the condition is
    'negatives' (already subtracted) -- as the centroid docs require."""
    _cutregion(c)
    return c.data(offset=(0.0 if c.cond == 'negatives' else -20.0))


@recipe('centroid_com', ['centroids.core.centroid_com'], units=True, geoms=G_CUT)
def _centroid_com(c):
    from photutils.centroids import centroid_com
    d, m = _bkgsub(c), c.mask()
    c.step('centroid_com', lambda: centroid_com(d, mask=m))
    c.step('centroid_com[no mask]', lambda: centroid_com(d))


@recipe('centroid_quadratic', ['centroids.core.centroid_quadratic'], units=True, geoms=G_CUT)
def _centroid_quadratic(c):
    from photutils.centroids import centroid_quadratic
    d, m = _bkgsub(c), c.mask()
    c.step('centroid_quadratic', lambda: centroid_quadratic(d, mask=m))
    c.step('centroid_quadratic[peak, search box]', lambda: centroid_quadratic(d, xpeak=int(c.src0()[0]), ypeak=int(c.src0()[1]), fit_boxsize=(5, 7),
                                                                             search_boxsize=5, mask=m))


@recipe('centroid_1dg', ['centroids.gaussian.centroid_1dg'], units=True, geoms=G_CUT)
def _centroid_1dg(c):
    from photutils.centroids import centroid_1dg
    d, e, m = _bkgsub(c), c.error(), c.mask()
    c.step('centroid_1dg', lambda: centroid_1dg(d, error=e, mask=m), mix=True)
    c.step('centroid_1dg[no error]', lambda: centroid_1dg(d, mask=m))
    c.step('centroid_1dg[data only]', lambda: centroid_1dg(d))


@recipe('centroid_2dg', ['centroids.gaussian.centroid_2dg'], units=True, geoms=G_CUT)
def _centroid_2dg(c):
    from photutils.centroids import centroid_2dg
    d, e, m = _bkgsub(c), c.error(), c.mask()
    c.step('centroid_2dg', lambda: centroid_2dg(d, error=e, mask=m), mix=True)
    c.step('centroid_2dg[no error]', lambda: centroid_2dg(d, mask=m))
    c.step('centroid_2dg[data only]', lambda: centroid_2dg(d))


@recipe('centroid_sources', ['centroids.core.centroid_sources'], units=True, geoms=G_ALL)
def _centroid_sources(c):
    from photutils.centroids import centroid_1dg, centroid_2dg, centroid_com, centroid_quadratic, centroid_sources
    d = c.data(offset=(0.0 if c.cond == 'negatives' else -20.0))
    e, m = c.error(), c.mask()
    xs, ys = c.sources()                 # a 9x9 box around source 0 is the block: == image in the 'tight' frame
    x = c.arg('xpos', xs)
    y = c.arg('ypos', ys)
    fp = c.arg('footprint', np.ones((9, 9), bool))
    c.step('centroid_sources[com]', lambda: centroid_sources(d, x, y, box_size=9, mask=m, centroid_func=centroid_com))
    c.step('centroid_sources[quadratic, footprint]', lambda: centroid_sources(d, x, y, footprint=fp, mask=m,
                                                                              centroid_func=centroid_quadratic))
    c.step('centroid_sources[1dg]', lambda: centroid_sources(d, x, y, box_size=11, mask=m, error=e, centroid_func=centroid_1dg), mix=True)
    c.step('centroid_sources[2dg]', lambda: centroid_sources(d, x, y, box_size=11, mask=m, error=e, centroid_func=centroid_2dg), mix=True)
    c.step('centroid_sources[2dg, no error]', lambda: centroid_sources(d, x, y, box_size=11, mask=m, centroid_func=centroid_2dg))


# --------------------------------------------------------------------------
# photutils.datasets
# --------------------------------------------------------------------------
def _params_table(c, names=('x_0', 'y_0', 'flux'), extra=None):
    # (the table of the baseline steps; C10 enumerates the column sets in ``_params_table_forms``)
    from astropy.table import QTable
    t = QTable()
    t[names[0]] = XPOS.copy()
    t[names[1]] = YPOS.copy()
    t[names[2]] = c.q(np.array([9000.0, 7000.0, 6000.0]), 'flux', alone=False)
    for k, v in (extra or {}).items():
        t[k] = v
    return t


PARAMS_OPTIONAL = ('id', 'flux', 'fwhm', 'model_shape', 'local_bkg')


def _params_table_forms(c, label, call, name_column=False):
    """Model-parameter tables from minimal (x_0, y_0 only: every other parameter
    comes from the model) to complete (id, flux, fwhm, model_shape, local_bkg[,
    name]): full product of the optional columns x {QTable, Table} x flux
    {plain, Quantity}; one step each, the table of the step watched."""
    import itertools
    from astropy import table as T
    optional = PARAMS_OPTIONAL + (('name',) if name_column else ())
    for cls in ('QTable', 'Table'):
        for present in itertools.product((False, True), repeat=len(optional)):
            cols = [k for k, p in zip(optional, present) if p]
            for unitful in ((False, True) if ('flux' in cols and cls == 'QTable') else (False,)):
                t = getattr(T, cls)()
                if 'id' in cols:
                    t['id'] = np.array([1, 2, 3])
                t['x_0'], t['y_0'] = XPOS.copy(), YPOS.copy()
                if 'flux' in cols:
                    f = np.array([9000.0, 7000.0, 6000.0])
                    t['flux'] = f * c.unit if unitful else f
                if 'fwhm' in cols:
                    t['fwhm'] = np.array([4.0, 4.5, 5.0])
                if 'model_shape' in cols:
                    t['model_shape'] = np.array([9, 11, 9])
                if 'local_bkg' in cols:
                    lb = np.array([0.5, 1.0, 0.25])
                    t['local_bkg'] = lb * c.unit if unitful else lb
                if 'name' in cols:
                    t['name'] = ['a', 'b', 'c']
                t.meta['origin'] = 'caller'
                tt = c.hold('params_table', t)
                lab = f'{label}[table: {cls}: {", ".join(["x_0", "y_0"] + cols)}{"; flux in Jy" if unitful else ""}]'
                c.step(lab, lambda: call(tt), keep_output=False)


@recipe('make_model_image', ['datasets.images.make_model_image'], numeric=False, axes=())
def _make_model_image(c):
    from photutils.datasets import make_model_image
    from photutils.psf import CircularGaussianPRF
    model = c.hold('model', CircularGaussianPRF(fwhm=4.5))
    t = c.hold('params_table', _params_table(c, extra={'fwhm': np.array([4.0, 4.5, 5.0]), 'model_shape': np.array([9, 11, 9])}))
    c.step('make_model_image', lambda: make_model_image(SHAPE, model, t))
    c.step('make_model_image[model_shape]', lambda: make_model_image(SHAPE, model, t, model_shape=(9, 9), discretize_method='oversample',
                                                                     discretize_oversample=3))
    c.step('make_model_image[bbox_factor]', lambda: make_model_image(SHAPE, model, t, bbox_factor=3.0))
    if c.extras:
        _params_table_forms(c, 'make_model_image', lambda tt: make_model_image(SHAPE, model, tt))
        # the column names mapped by the caller (params_map is caller-held as well)
        pm = c.hold('params_map', {'x_0': 'xcentroid', 'y_0': 'ycentroid', 'flux': 'flux_f200w'})
        tm = c.hold('params_table', _params_table(c, names=('xcentroid', 'ycentroid', 'flux_f200w')))
        c.step('make_model_image[params_map]', lambda: make_model_image(SHAPE, model, tm, params_map=pm, model_shape=(9, 9)), keep_output=False)


@recipe('model_params', ['datasets.model_params.make_model_params', 'datasets.model_params.make_random_models_table',
                         'datasets.model_params.params_table_to_models'], numeric=False, axes=())
def _model_params(c):
    from photutils.datasets import make_model_params, make_random_models_table, params_table_to_models
    from photutils.psf import CircularGaussianPRF
    ranges = c.hold('param_ranges', {'x_0': [5, 40], 'y_0': [5, 35], 'flux': [100.0, 1000.0]})
    flux = c.hold('flux', (100.0, 1000.0))
    model = c.hold('model', CircularGaussianPRF(fwhm=4.5))
    t = c.hold('params_table', _params_table(c))
    c.step('make_model_params', lambda: make_model_params(SHAPE, 5, flux=flux, fwhm=(3, 5), seed=1))
    c.step('make_random_models_table', lambda: make_random_models_table(5, ranges, seed=1))
    c.step('params_table_to_models', lambda: [mm.parameters for mm in params_table_to_models(t, model)])
    if c.extras:
        _params_table_forms(c, 'params_table_to_models', lambda tt: params_table_to_models(tt, model), name_column=True)


@recipe('apply_poisson_noise', ['datasets.noise.apply_poisson_noise'], units=False, geoms=G_LINE)
def _apply_poisson_noise(c):
    from photutils.datasets import apply_poisson_noise
    d = c.data()
    c.step('apply_poisson_noise', lambda: apply_poisson_noise(d, seed=3))


# --------------------------------------------------------------------------
# photutils.detection
# --------------------------------------------------------------------------
def _sub(c):
    return c.data(offset=(0.0 if c.cond == 'negatives' else -20.0))


@recipe('find_peaks', ['detection.peakfinder.find_peaks'], units=True, geoms=G_ALL)
def _find_peaks(c):
    from photutils.centroids import centroid_2dg, centroid_com
    from photutils.detection import find_peaks
    d, e, m = _sub(c), c.error(), c.mask()
    thr = c.hold('threshold', c.q(np.full(c.shape, 100.0), 'threshold'))
    fp = c.arg('footprint', np.ones((5, 5), bool))
    wcs = c.hold('wcs', _wcs())
    c.step('find_peaks', lambda: find_peaks(d, c.q(100.0, 'threshold'), box_size=5, mask=m), mix=True)
    c.step('find_peaks[threshold map, footprint, border]', lambda: find_peaks(d, thr, footprint=fp, mask=m, border_width=2, npeaks=2), mix=True)
    c.step('find_peaks[centroid_com, wcs]', lambda: find_peaks(d, c.q(100.0, 'threshold'), box_size=5, mask=m, error=e, centroid_func=centroid_com, wcs=wcs), mix=True)
    c.step('find_peaks[centroid_2dg]', lambda: find_peaks(d, c.q(100.0, 'threshold'), box_size=7, mask=m, error=e, centroid_func=centroid_2dg), mix=True)
    if c.extras:      # the other error-aware centroid function (C10: it has its own clean-up of the data / error / mask cutouts)
        from photutils.centroids import centroid_1dg
        c.step('find_peaks[centroid_1dg]', lambda: find_peaks(d, c.q(100.0, 'threshold'), box_size=7, mask=m, error=e, centroid_func=centroid_1dg),
               keep_output=False)
    if c.geom != 'base':
        # the local-maximum box and the centroid cutout are as large as the image (9x9 in the 'tight' frame)
        c.step('find_peaks[box 9, centroid_com]', lambda: find_peaks(d, c.q(100.0, 'threshold'), box_size=9, mask=m, error=e, centroid_func=centroid_com), mix=True)


def _xy2(c):
    """Two source positions (the second one lies outside a small frame)."""
    if c.geom == 'base':
        return np.array([[15.0, 14.0], [31.0, 20.0]])
    return np.array([list(c.src0()), [c.fx(31.0), c.fy(20.0)]])


# kernels: DAOStarFinder / IRAFStarFinder with fwhm=4 build a 5x5 kernel, the StarFinder kernel is 7x7: the 'five' and
# 'under' frames are exactly as large as those kernels, 'tight' is 9x9, 'row' / 'col' are thinner than every kernel
@recipe('DAOStarFinder', ['detection.daofinder.DAOStarFinder'], units=True, geoms=G_DET)
def _dao(c):
    from photutils.detection import DAOStarFinder
    d, m = _sub(c), c.mask()
    xy = c.arg('xycoords', _xy2(c), kinds='layout')
    f = c.step('DAOStarFinder', lambda: DAOStarFinder(c.q(50.0, 'threshold'), 4.0, peakmax=c.q(5000.0, 'peakmax')))
    if f is not None:
        c.step('DAOStarFinder()', lambda: f(d, mask=m), mix=True)
        c.step('DAOStarFinder.find_stars', lambda: f.find_stars(d, mask=m))
        if c.extras:
            c.members('DAOStarFinder', f)
    f2 = c.step('DAOStarFinder[xycoords]', lambda: DAOStarFinder(c.q(50.0, 'threshold'), 4.0, xycoords=xy, brightest=2, ratio=0.8, theta=30.0))
    if f2 is not None:
        c.step('DAOStarFinder[xycoords]()', lambda: f2(d, mask=m), mix=True)


@recipe('IRAFStarFinder', ['detection.irafstarfinder.IRAFStarFinder'], units=True, geoms=G_DET)
def _iraf(c):
    from photutils.detection import IRAFStarFinder
    d, m = _sub(c), c.mask()
    xy = c.arg('xycoords', _xy2(c), kinds='layout')
    f = c.step('IRAFStarFinder', lambda: IRAFStarFinder(c.q(50.0, 'threshold'), 4.0, peakmax=c.q(5000.0, 'peakmax'), roundhi=1.0, sharplo=0.0))
    if f is not None:
        c.step('IRAFStarFinder()', lambda: f(d, mask=m), mix=True)
        if c.extras:
            c.members('IRAFStarFinder', f)
    f2 = c.step('IRAFStarFinder[xycoords]', lambda: IRAFStarFinder(c.q(50.0, 'threshold'), 4.0, xycoords=xy, brightest=2, roundhi=1.0, sharplo=0.0))
    if f2 is not None:
        c.step('IRAFStarFinder[xycoords]()', lambda: f2(d, mask=m), mix=True)


def star_kernel(dtype=float):
    """7x7 Gaussian kernel whose maximum is 3 (not 1), integer valued when
    dtype is an integer type."""
    yy, xx = np.mgrid[0:7, 0:7]
    k = 3.0 * np.exp(-0.5 * ((xx - 3) ** 2 + (yy - 3) ** 2) / 1.5 ** 2)
    if np.dtype(dtype).kind in 'iu':
        k = np.round(100 * k)
    return k.astype(dtype)


@recipe('StarFinder', ['detection.starfinder.StarFinder'], units=True, geoms=G_DET)
def _starfinder(c):
    from photutils.detection import StarFinder
    d, m = _sub(c), c.mask()
    k = c.arg('kernel', star_kernel())
    f = c.step('StarFinder', lambda: StarFinder(c.q(50.0, 'threshold'), k, peakmax=c.q(5000.0, 'peakmax')))
    if f is not None:
        c.step('StarFinder()', lambda: f(d, mask=m), mix=True)
        c.step('StarFinder.find_stars', lambda: f.find_stars(d, mask=m))
        if c.extras:
            c.members('StarFinder', f)


@recipe('StarFinder[integer-valued kernel]', ['detection.starfinder.StarFinder'], units=True)
def _starfinder_int(c):
    from photutils.detection import StarFinder
    d, m = _sub(c), c.mask()
    # integer-VALUED kernel: float64 in the baseline, an integer dtype in the integer representations
    k = c.array('kernel', star_kernel(np.int64).astype(float), kind='plain')
    c.step('StarFinder[integer-valued kernel]()', lambda: StarFinder(c.q(50.0, 'threshold'), k)(d, mask=m), mix=True)


# --------------------------------------------------------------------------
# photutils.isophote
# --------------------------------------------------------------------------
@recipe('Ellipse', ['isophote.ellipse.Ellipse', 'isophote.isophote.Isophote', 'isophote.isophote.IsophoteList',
                    'isophote.model.build_ellipse_model'], units=False)
def _ellipse(c):
    from photutils.isophote import Ellipse, EllipseGeometry, build_ellipse_model
    d = _sub(c)
    g = EllipseGeometry(31.0, 20.0, 4.0, 0.1, 0.1)     # state object updated by the fit (not in the property's list)
    ell = c.step('Ellipse', lambda: Ellipse(d, g))
    if ell is None:
        return
    iso = c.step('Ellipse.fit_isophote', lambda: ell.fit_isophote(3.0))
    c.members('Isophote', iso, skip=('sample',))
    isolist = c.step('Ellipse.fit_image', lambda: ell.fit_image(sma0=3.0, minsma=1.0, maxsma=8.0, step=0.3))
    if isolist is None or len(isolist) == 0:
        return
    c.hold('isolist', isolist)
    c.members('IsophoteList', isolist, skip=('sample',))
    c.step('IsophoteList.get_closest', lambda: isolist.get_closest(4.0).to_table())
    c.step('IsophoteList[1:3]', lambda: isolist[1:3].to_table())
    c.step('build_ellipse_model', lambda: build_ellipse_model(SHAPE, isolist))


@recipe('EllipseSample', ['isophote.sample.EllipseSample', 'isophote.fitter.EllipseFitter'], units=False)
def _ellipse_sample(c):
    from photutils.isophote import EllipseGeometry, EllipseSample
    from photutils.isophote.fitter import EllipseFitter
    d = _sub(c)
    g = EllipseGeometry(31.0, 20.0, 4.0, 0.1, 0.1)     # state object updated by the fit (not in the property's list)
    for mode in ('bilinear', 'nearest_neighbor', 'median'):
        s = c.step(f'EllipseSample[{mode}]', lambda: EllipseSample(d, 4.0, geometry=g, integrmode=mode, sclip=3.0, nclip=1))
        if s is not None:
            c.step(f'EllipseSample[{mode}].extract', lambda: s.extract())
            c.step(f'EllipseSample[{mode}].coordinates', lambda: s.coordinates())
    s = c.step('EllipseSample', lambda: EllipseSample(d, 4.0, x0=31.0, y0=20.0, eps=0.1, position_angle=0.1))
    if s is not None:
        c.step('EllipseFitter.fit', lambda: EllipseFitter(s).fit().to_table())


@recipe('isophote.harmonics', ['isophote.harmonics.first_and_second_harmonic_function',
                               'isophote.harmonics.fit_first_and_second_harmonics',
                               'isophote.harmonics.fit_upper_harmonic'], numeric=False, axes=())
def _harmonics(c):
    from photutils.isophote.harmonics import (first_and_second_harmonic_function, fit_first_and_second_harmonics,
                                              fit_upper_harmonic)
    phi = c.arg('phi', np.linspace(0.0, 2 * np.pi, 40, endpoint=False))
    inten = c.arg('intensities', 10.0 + 2.0 * np.sin(phi) + 0.5 * np.cos(2 * phi) + 0.1 * np.sin(3 * phi))
    coef = c.arg('c', np.array([10.0, 2.0, 0.1, 0.2, 0.5]))
    c.step('fit_first_and_second_harmonics', lambda: fit_first_and_second_harmonics(phi, inten)[0])
    c.step('fit_upper_harmonic', lambda: fit_upper_harmonic(phi, inten, 3)[0])
    c.step('first_and_second_harmonic_function', lambda: first_and_second_harmonic_function(phi, coef))


# --------------------------------------------------------------------------
# photutils.morphology
# --------------------------------------------------------------------------
@recipe('data_properties', ['morphology.core.data_properties'], units=True, geoms=G_CUT)
def _data_properties(c):
    from photutils.morphology import data_properties
    d, m = _bkgsub(c), c.mask()          # one segment covering the whole array (also 1xN, Nx1, 3x3)
    b = c.background()
    cat = c.step('data_properties', lambda: data_properties(d, mask=m, background=b), mix=True)
    c.members('data_properties', cat, skip=_SC_SKIP)


@recipe('gini', ['morphology.non_parametric.gini'], units=True, geoms=G_LINE)
def _gini(c):
    from photutils.morphology import gini
    d, m = c.data(), c.mask()
    c.step('gini', lambda: gini(d, mask=m))
    c.step('gini[no mask]', lambda: gini(d))


# --------------------------------------------------------------------------
# photutils.profiles
# --------------------------------------------------------------------------
@recipe('RadialProfile', ['profiles.radial_profile.RadialProfile'], units=True, geoms=G_ALL)
def _radial_profile(c):
    from photutils.profiles import RadialProfile
    d, e, m = _sub(c), c.error(), c.mask()
    radii = c.arg('radii', np.arange(0.0, 9.0))           # the outer apertures are larger than the small frames
    xycen = c.arg('xycen', np.array([c.fx(15.0), c.fy(14.0)]))
    rp = c.step('RadialProfile', lambda: RadialProfile(d, xycen, radii, error=e, mask=m), mix=True)
    c.members('RadialProfile', rp)
    rp2 = c.step('RadialProfile[no error, center]', lambda: RadialProfile(d, xycen, radii, mask=m, method='center'))
    c.members('RadialProfile[no error]', rp2, only=('profile', 'profile_error', 'data_profile', 'gaussian_fwhm'))


@recipe('CurveOfGrowth', ['profiles.curve_of_growth.CurveOfGrowth'], units=True, geoms=G_ALL)
def _curve_of_growth(c):
    from photutils.profiles import CurveOfGrowth
    d, e, m = _sub(c), c.error(), c.mask()
    radii = c.arg('radii', np.arange(1.0, 9.0))
    xycen = c.arg('xycen', np.array([c.fx(15.0), c.fy(14.0)]))
    cog = c.step('CurveOfGrowth', lambda: CurveOfGrowth(d, xycen, radii, error=e, mask=m), mix=True)
    c.members('CurveOfGrowth', cog)
    if cog is not None:
        ee = c.arg('ee', np.array([0.3, 0.5]))
        rr = c.arg('rr', np.array([2.5, 4.5]))
        c.step('CurveOfGrowth.calc_ee_at_radius', lambda: (cog.normalize(), cog.calc_ee_at_radius(rr))[1])
        c.step('CurveOfGrowth.calc_radius_at_ee', lambda: cog.calc_radius_at_ee(ee))


# --------------------------------------------------------------------------
# photutils.psf
# --------------------------------------------------------------------------
_FUNC_MODELS = {
    'AiryDiskPSF': dict(radius=4.0, bbox_factor=3.0), 'CircularGaussianPRF': dict(fwhm=4.5), 'CircularGaussianPSF': dict(fwhm=4.5),
    'CircularGaussianSigmaPRF': dict(sigma=2.0), 'GaussianPRF': dict(x_fwhm=4.5, y_fwhm=3.0, theta=30.0),
    'GaussianPSF': dict(x_fwhm=4.5, y_fwhm=3.0, theta=30.0), 'IntegratedGaussianPRF': dict(sigma=2.0),
    'MoffatPSF': dict(alpha=3.0, beta=2.5, bbox_factor=3.0),
}


def _func_model(c, name, kw):
    import photutils.psf as pp
    yy, xx = np.mgrid[0:SHAPE[0], 0:SHAPE[1]]
    x = c.array('x', xx.astype(float), kind='aux')
    y = c.array('y', yy.astype(float), kind='aux')
    mdl = c.step(name, lambda: getattr(pp, name)(flux=1000.0, x_0=15.2, y_0=14.3, **kw))
    if mdl is None:
        return
    c.hold('model', mdl)
    c.step(f'{name}()', lambda: mdl(x, y))
    c.step(f'{name}.evaluate', lambda: mdl.evaluate(x, y, *mdl.parameters))
    c.step(f'{name}.fit_deriv', lambda: mdl.fit_deriv(x, y, *mdl.parameters) if callable(mdl.fit_deriv) else None)
    c.step(f'{name}.render', lambda: mdl.render(coords=(y, x)))
    c.step(f'{name}.fwhm', lambda: getattr(mdl, 'fwhm', None))
    c.step(f'{name}.bounding_box', lambda: mdl.bounding_box.bounding_box())


for _n, _kw in _FUNC_MODELS.items():
    recipe(_n, [f'psf.functional_models.{_n}'], numeric=False, axes=('rep',))(lambda c, _n=_n, _kw=_kw: _func_model(c, _n, _kw))


def psf_image(oversampling=1, size=13):
    n = size * oversampling
    n += (n + 1) % 2
    yy, xx = np.mgrid[0:n, 0:n]
    cen = (n - 1) / 2
    s = 1.9 * oversampling
    img = np.exp(-0.5 * ((xx - cen) ** 2 + (yy - cen) ** 2) / s ** 2)
    return img / img.sum() * oversampling ** 2


def _image_model(c, name, kw):
    import photutils.psf as pp
    img = c.array('data', psf_image(kw.get('oversampling', 1)), kind='data')
    yy, xx = np.mgrid[0:SHAPE[0], 0:SHAPE[1]]
    x = c.arg('x', xx.astype(float), kinds='layout')
    y = c.arg('y', yy.astype(float), kinds='layout')
    mdl = c.step(name, lambda: getattr(pp, name)(img, flux=1000.0, x_0=15.2, y_0=14.3, **kw))
    if mdl is None:
        return
    c.hold('model', mdl)
    c.step(f'{name}()', lambda: mdl(x, y))
    c.step(f'{name}.copy', lambda: mdl.copy()(x, y))
    c.step(f'{name}.deepcopy', lambda: mdl.deepcopy()(x, y))
    c.step(f'{name}.data', lambda: mdl.data)
    for attr in ('origin', 'oversampling', 'normalized_data', 'normalization_constant', 'shape'):
        if hasattr(type(mdl), attr):
            c.step(f'{name}.{attr}', lambda: getattr(mdl, attr))


recipe('ImagePSF', ['psf.image_models.ImagePSF'], numeric=False, axes=('rep',))(lambda c: _image_model(c, 'ImagePSF', dict(oversampling=2)))
recipe('FittableImageModel', ['psf.image_models.FittableImageModel'], numeric=False, axes=('rep',))(
    lambda c: _image_model(c, 'FittableImageModel', dict(oversampling=2, normalize=True)))
recipe('EPSFModel', ['psf.image_models.EPSFModel'], numeric=False, axes=('rep',))(lambda c: _image_model(c, 'EPSFModel', dict(oversampling=2)))


def _psf_cube():
    from astropy.nddata import NDData
    cube = np.array([psf_image(2) * f for f in (1.0, 1.02, 0.98, 1.01)])
    meta = {'grid_xypos': [(0, 0), (46, 0), (0, 40), (46, 40)], 'oversampling': 2}
    return NDData(cube, meta=meta)


@recipe('GriddedPSFModel', ['psf.gridded_models.GriddedPSFModel'], numeric=False, axes=())
def _gridded(c):
    from photutils.psf import GriddedPSFModel
    nd = c.hold('nddata', _psf_cube())
    yy, xx = np.mgrid[0:SHAPE[0], 0:SHAPE[1]]
    x = c.arg('x', xx.astype(float), kinds='layout')
    y = c.arg('y', yy.astype(float), kinds='layout')
    mdl = c.step('GriddedPSFModel', lambda: GriddedPSFModel(nd, flux=1000.0, x_0=15.2, y_0=14.3))
    if mdl is None:
        return
    c.hold('model', mdl)
    c.step('GriddedPSFModel()', lambda: mdl(x, y))
    c.step('GriddedPSFModel()[other position]', lambda: (setattr(mdl, 'x_0', 30.0), mdl(x, y), setattr(mdl, 'x_0', 15.2))[1])
    c.step('GriddedPSFModel.copy', lambda: mdl.copy()(x, y))
    c.step('GriddedPSFModel.deepcopy', lambda: mdl.deepcopy()(x, y))
    if c.extras:
        c.members('GriddedPSFModel', mdl, own=True, only=('plot_grid', 'origin', 'oversampling'))


@recipe('grid_from_epsfs', ['psf.model_helpers.grid_from_epsfs'], numeric=False, axes=())
def _grid_from_epsfs(c):
    from photutils.psf import ImagePSF, grid_from_epsfs
    eps = []
    for i, (x0, y0) in enumerate([(0, 0), (46, 0), (0, 40), (46, 40)]):
        eps.append(ImagePSF(psf_image(2) * (1 + 0.01 * i), x_0=x0, y_0=y0, oversampling=2))
    eps = c.hold('epsfs', eps)
    meta = c.hold('meta', {'telescope': 'none'})
    c.step('grid_from_epsfs', lambda: grid_from_epsfs(eps, meta=meta).data)


@recipe('make_psf_model', ['psf.model_helpers.make_psf_model', 'psf.model_helpers.PRFAdapter'], numeric=False, axes=())
def _make_psf_model(c):
    from astropy.modeling.models import Gaussian2D
    from photutils.psf import PRFAdapter, make_psf_model
    g = c.hold('model', Gaussian2D(amplitude=3.0, x_mean=0.0, y_mean=0.0, x_stddev=2.0, y_stddev=1.5))
    yy, xx = np.mgrid[0:15, 0:17]
    x = c.arg('x', xx - 8.0, kinds='layout')
    y = c.arg('y', yy - 7.0, kinds='layout')
    mdl = c.step('make_psf_model', lambda: make_psf_model(g, x_name='x_mean', y_name='y_mean', dx=15, dy=15, subsample=5))
    if mdl is not None:
        c.step('make_psf_model()', lambda: mdl(x, y))
    ad = c.step('PRFAdapter', lambda: PRFAdapter(g, xname='x_mean', yname='y_mean', renormalize_psf=False))
    if ad is not None:
        c.step('PRFAdapter()', lambda: ad(x[6:9, 7:10], y[6:9, 7:10]))


@recipe('SourceGrouper', ['psf.groupers.SourceGrouper'], numeric=False, axes=())
def _grouper(c):
    from photutils.psf import SourceGrouper
    x = c.arg('x', np.array([15.0, 31.0, 22.0, 17.0, 33.0]))
    y = c.arg('y', np.array([14.0, 20.0, 31.0, 16.0, 21.0]))
    c.step('SourceGrouper()', lambda: SourceGrouper(5.0)(x, y))
    c.step('SourceGrouper()[single]', lambda: SourceGrouper(5.0)(x[:1], y[:1]))


def _init_params(c, group=False):
    from astropy.table import QTable
    t = QTable()
    t['id'] = np.array([1, 2, 3])
    if group:
        t['group_id'] = np.array([1, 2, 2])
    t['x'] = XPOS + 0.3
    t['y'] = YPOS - 0.2
    t['flux'] = c.q(np.array([9000.0, 7000.0, 6000.0]), 'flux', alone=False)
    if c.geom != 'base':                 # a frame holds source 0 only
        t = t[:1]
        t['x'] = [c.src0()[0] + 0.3]
        t['y'] = [c.src0()[1] - 0.2]
    return t


def _minimal_init_steps(c, label, call, rows=None):
    """The *minimal* init table in the canonical column names (x_init, y_init:
    the names PSFPhotometry itself writes, so nothing has to be renamed, and
    every other column -- id, group_id, local_bkg, flux_init, extra parameters
    -- has to be ADDED by the code), in every run of the recipe; with unit-ful
    data also the table whose flux column is given in another, convertible unit
    (it has to be CONVERTED).  The full product of the table forms is
    enumerated by the recipes 'PSFPhotometry[init_params table forms; ...]'."""
    import astropy.units as u
    from astropy.table import QTable

    def table(flux_unit=None):
        t = QTable()
        if c.geom != 'base':                 # a frame holds source 0 only
            x, y, f = np.array([c.src0()[0] + 0.3]), np.array([c.src0()[1] - 0.2]), np.array([9000.0])
        else:
            x, y, f = (XPOS + 0.3)[:rows], (YPOS - 0.2)[:rows], np.array([9000.0, 7000.0, 6000.0])[:rows]
        t['x_init'], t['y_init'] = x, y
        if flux_unit is not None:
            t['flux_init'] = (f * c.scale * c.unit).to(flux_unit)
        t.meta['origin'] = 'caller'
        return t
    t0 = c.hold('init_params', table())
    c.step(f'{label}[init table: x_init, y_init only]', lambda: call(t0), keep_output=False)
    if c.unitful_data:
        t1 = c.hold('init_params', table(u.mJy))
        c.step(f'{label}[init table: x_init, y_init, flux_init in mJy]', lambda: call(t1), keep_output=False)


@recipe('PSFPhotometry', ['psf.photometry.PSFPhotometry'], nddata=True, units=True, geoms=G_SMALL + ('fullwidth',))
def _psfphot(c):
    from photutils.background import LocalBackground
    from photutils.psf import CircularGaussianPRF, PSFPhotometry, SourceGrouper
    d = _sub_nd(c)
    e, m = c.error(), c.mask()
    psf = c.hold('psf_model', CircularGaussianPRF(flux=1.0, fwhm=4.5))
    t = c.hold('init_params', _init_params(c))
    # frames: the 7x7 fit box is the whole 'under' image, the 9x9 model box the whole 'tight' image; the local
    # background annulus needs more room than a small frame has
    lbe = LocalBackground(5, 8) if c.geom in ('base', 'fullwidth') else None
    ph = c.step('PSFPhotometry', lambda: PSFPhotometry(psf, (7, 7), aperture_radius=4, grouper=SourceGrouper(5),
                                                      localbkg_estimator=lbe))
    if ph is None:
        return
    c.step('PSFPhotometry()', lambda: ph(d, mask=m, error=e, init_params=t), mix=True)
    c.step('PSFPhotometry.make_model_image', lambda: ph.make_model_image(c.shape, psf_shape=(9, 9)))
    c.step('PSFPhotometry.make_residual_image', lambda: ph.make_residual_image(d, psf_shape=(9, 9)))
    c.step('PSFPhotometry.fit_results', lambda: {k: v for k, v in ph.fit_results.items() if k in ('fit_param_errs', 'npixfit')})
    if c.extras and c.comp is None:
        _minimal_init_steps(c, 'PSFPhotometry()', lambda t: ph(d, mask=m, error=e, init_params=t))


@recipe('PSFPhotometry[finder, group_id, fixed fwhm free]', ['psf.photometry.PSFPhotometry'], nddata=True, units=True)
def _psfphot2(c):
    from photutils.detection import DAOStarFinder
    from photutils.psf import CircularGaussianPRF, PSFPhotometry
    d = _sub_nd(c)
    e, m = c.error(), c.mask()
    psf = CircularGaussianPRF(flux=1.0, fwhm=4.5)
    psf.fwhm.fixed = False
    psf = c.hold('psf_model', psf)
    t = c.hold('init_params', _init_params(c, group=True))
    bounds = c.hold('xy_bounds', (2.0, 2.0))
    finder = c.carry(DAOStarFinder(c.q(50.0, 'threshold'), 4.0))     # (c.carry: the finder brings the threshold into the calls)
    ph = c.step('PSFPhotometry[finder]', lambda: PSFPhotometry(psf, (7, 9), finder=finder, aperture_radius=4, xy_bounds=bounds))
    if ph is None:
        return
    c.step('PSFPhotometry[finder]()', lambda: ph(d, mask=m, error=e), mix=True)
    # (the finder is documented to be ignored when init_params gives the positions)
    c.step('PSFPhotometry[group_id]()', lambda: ph(d, mask=m, error=e, init_params=t), mix=True, ignores=('threshold',))
    c.step('PSFPhotometry[group_id].make_residual_image', lambda: ph.make_residual_image(d))
    if c.extras and c.comp is None:
        _minimal_init_steps(c, 'PSFPhotometry[group_id]()', lambda t: ph(d, mask=m, error=e, init_params=t))


def _sub_nd(c):
    return c.data(nddata_ok=True, offset=(0.0 if c.cond == 'negatives' else -20.0))


@recipe('IterativePSFPhotometry', ['psf.photometry.IterativePSFPhotometry'], nddata=True, units=True)
def _iterpsf(c):
    from photutils.background import LocalBackground
    from photutils.detection import DAOStarFinder
    from photutils.psf import CircularGaussianPRF, IterativePSFPhotometry, SourceGrouper
    d = _sub_nd(c)
    e, m = c.error(), c.mask()
    psf = c.hold('psf_model', CircularGaussianPRF(flux=1.0, fwhm=4.5))
    t = c.hold('init_params', _init_params(c)[:2])
    finder = c.carry(DAOStarFinder(c.q(50.0, 'threshold'), 4.0))     # (c.carry: the finder brings the threshold into the calls)
    for mode in ('new', 'all'):
        ph = c.step(f'IterativePSFPhotometry[{mode}]', lambda: IterativePSFPhotometry(
            psf, (7, 7), finder=finder, aperture_radius=4, maxiters=2, mode=mode,
            grouper=SourceGrouper(5) if mode == 'all' else None, localbkg_estimator=LocalBackground(5, 8)))
        if ph is None:
            continue
        c.step(f'IterativePSFPhotometry[{mode}]()', lambda: ph(d, mask=m, error=e, init_params=t), mix=True)
        c.step(f'IterativePSFPhotometry[{mode}].make_model_image', lambda: ph.make_model_image(SHAPE, psf_shape=(9, 9)))
        c.step(f'IterativePSFPhotometry[{mode}].make_residual_image', lambda: ph.make_residual_image(d, psf_shape=(9, 9)))
        if c.extras and c.comp is None and mode == 'new':      # (the table is forwarded to PSFPhotometry before the mode matters)
            _minimal_init_steps(c, f'IterativePSFPhotometry[{mode}]()', lambda t: ph(d, mask=m, error=e, init_params=t), rows=2)


@recipe('fit_2dgaussian', ['psf.utils.fit_2dgaussian'], units=True, geoms=G_SMALL)
def _fit_2dgaussian(c):
    from photutils.psf import fit_2dgaussian
    d, e, m = _sub(c), c.error(), c.mask()
    xy = c.arg('xypos', _xy2(c)[:(2 if c.geom == 'base' else 1)], kinds='layout')      # fit_shape 7 == the 'under' image
    r = c.step('fit_2dgaussian', lambda: fit_2dgaussian(d, xypos=xy, fwhm=4.0, fit_shape=7, mask=m, error=e), mix=True)
    if r is not None:
        c.step('fit_2dgaussian.results', lambda: r.results)
    r2 = c.step('fit_2dgaussian[free fwhm]', lambda: fit_2dgaussian(d, xypos=xy, fix_fwhm=False, fit_shape=(7, 9), mask=m))
    if r2 is not None:
        c.step('fit_2dgaussian[free fwhm].results', lambda: r2.results)


@recipe('fit_fwhm', ['psf.utils.fit_fwhm'], units=True, geoms=G_SMALL)
def _fit_fwhm(c):
    from photutils.psf import fit_fwhm
    d, e, m = _sub(c), c.error(), c.mask()
    xy = c.arg('xypos', _xy2(c)[:(2 if c.geom == 'base' else 1)], kinds='layout')
    c.step('fit_fwhm', lambda: fit_fwhm(d, xypos=xy, fit_shape=7, mask=m, error=e), mix=True)
    if c.geom == 'base':
        dc, mc = c.data(region=CUT, name='cutout', offset=(0.0 if c.cond == 'negatives' else -20.0)), c.mask(region=CUT, name='cutout_mask')
        c.step('fit_fwhm[no xypos]', lambda: fit_fwhm(dc, fit_shape=9, mask=mc))
    else:       # the fit box is the whole image
        c.step('fit_fwhm[no xypos, fit box = image]', lambda: fit_fwhm(d, fit_shape=c.shape, mask=m))


@recipe('make_psf_model_image', ['psf.simulation.make_psf_model_image'], numeric=False, axes=())
def _make_psf_model_image(c):
    from photutils.psf import CircularGaussianPRF, make_psf_model_image
    psf = c.hold('psf_model', CircularGaussianPRF(flux=1.0, fwhm=4.5))
    flux = c.hold('flux', (100.0, 1000.0))
    c.step('make_psf_model_image', lambda: make_psf_model_image(SHAPE, psf, 4, model_shape=(9, 9), flux=flux, seed=2)[0])


@recipe('psf.matching', ['psf.matching.fourier.create_matching_kernel', 'psf.matching.fourier.resize_psf',
                         'psf.matching.windows.CosineBellWindow', 'psf.matching.windows.HanningWindow',
                         'psf.matching.windows.SplitCosineBellWindow', 'psf.matching.windows.TopHatWindow',
                         'psf.matching.windows.TukeyWindow'], numeric=False, axes=('rep',))
def _matching(c):
    from photutils.psf import matching as pm
    yy, xx = np.mgrid[0:25, 0:25]
    g1 = np.exp(-0.5 * ((xx - 12) ** 2 + (yy - 12) ** 2) / 2.0 ** 2)
    g2 = np.exp(-0.5 * ((xx - 12) ** 2 + (yy - 12) ** 2) / 3.0 ** 2)
    p1 = c.array('source_psf', g1 * 2.0, kind='data')       # not normalised (sum != 1)
    p2 = c.array('target_psf', g2 * 3.0, kind='data')
    wins = {'CosineBellWindow': pm.CosineBellWindow(0.35), 'HanningWindow': pm.HanningWindow(),
            'SplitCosineBellWindow': pm.SplitCosineBellWindow(0.4, 0.3), 'TopHatWindow': pm.TopHatWindow(0.35),
            'TukeyWindow': pm.TukeyWindow(0.4)}
    c.step('create_matching_kernel', lambda: pm.create_matching_kernel(p1, p2))
    for n, w in wins.items():
        c.step(f'create_matching_kernel[{n}]', lambda: pm.create_matching_kernel(p1, p2, window=w))
    c.step('resize_psf', lambda: pm.resize_psf(p1, 0.1, 0.05))


@recipe('EPSFBuilder', ['psf.epsf.EPSFBuilder', 'psf.epsf.EPSFFitter', 'psf.epsf_stars.EPSFStar', 'psf.epsf_stars.EPSFStars',
                        'psf.epsf_stars.LinkedEPSFStar', 'psf.epsf_stars.extract_stars'], numeric=False, axes=('cond',),
        geoms=('base', 'tight', 'fullwidth'))
def _epsf(c):
    from astropy.nddata import NDData, StdDevUncertainty
    from astropy.table import Table
    from photutils.psf import EPSFBuilder, EPSFFitter, EPSFStar, EPSFStars, extract_stars
    arr = c.clean(region=(slice(None), slice(None))) - 20.0
    if c.cond == 'nonfinite':
        arr[3, 3] = np.nan
        arr[14, 17] = np.nan
    m = None
    if c.cond in ('masked', 'nonfinite'):
        m = np.zeros(SHAPE, bool)
        m[14, 16] = True
    elif c.sc['mask'] is not None:           # the mask form of the run: an all-False NDData mask ('negatives', mask form 'empty')
        m = np.zeros(SHAPE, bool)
    if c.geom != 'base':
        # the 9x9 star cutout is the whole image ('tight') / spans every column of the image ('fullwidth')
        err = c.clean('error')
        nd = c.hold('nddata', NDData(arr[c.region].copy(), uncertainty=StdDevUncertainty(err), mask=None if m is None else m[c.region].copy()))
        t = c.hold('catalogs', Table({'x': [c.src0()[0]], 'y': [c.src0()[1]]}))
        stars = c.step('extract_stars[size 9]', lambda: extract_stars(nd, t, size=9))
        if stars is not None:
            c.hold('stars', stars)
            c.members('EPSFStars', stars)
            c.step('EPSFStars[0]', lambda: stars[0].data)
        return
    nd = c.hold('nddata', NDData(arr, uncertainty=StdDevUncertainty(c.clean('error')), mask=m))
    t = c.hold('catalogs', Table({'x': XPOS.copy(), 'y': YPOS.copy()}))
    stars = c.step('extract_stars', lambda: extract_stars(nd, t, size=(11, 13)))
    # the documented 'weights' uncertainty type (no astropy class carries it: a StdDevUncertainty subclass does) together
    # with a mask: the weights under the mask are zeroed -- in a copy, never in the caller's uncertainty array
    mw = np.zeros(SHAPE, bool)
    mw[14, 16] = True

    class _Weights(StdDevUncertainty):
        @property
        def uncertainty_type(self):
            return 'weights'

    ndw = c.hold('nddata_weights', NDData(arr.copy(), uncertainty=_Weights(np.full(SHAPE, 2.0)), mask=mw))
    c.step('extract_stars[weights]', lambda: extract_stars(ndw, t, size=9))
    cut = c.arg('star_data', c.clean(region=(slice(9, 20), slice(10, 21))) - 20.0)
    w = c.arg('star_weights', np.ones((11, 11)))
    star = c.step('EPSFStar', lambda: EPSFStar(cut, weights=w, cutout_center=(5.0, 5.0), origin=(10, 9)))
    c.members('EPSFStar', star)
    if stars is None:
        return
    c.hold('stars', stars)
    c.members('EPSFStars', stars)
    c.step('EPSFStars[0]', lambda: stars[0].data)
    if c.extras and c.comp is None:
        _catalog_forms(c, 'extract_stars', lambda cat: extract_stars(nd, cat, size=(11, 13)), wcs=None)
    builder = EPSFBuilder(oversampling=2, maxiters=2, progress_bar=False, norm_radius=4.5, recentering_maxiters=3)
    res = c.step('EPSFBuilder()', lambda: builder(stars))
    if res is not None:
        epsf, fitted = res
        c.hold('epsf', epsf)
        c.step('EPSFFitter()', lambda: EPSFFitter(fit_boxsize=5)(epsf, stars))
        c.step('EPSFStar.register_epsf', lambda: fitted[0].register_epsf(epsf))
        c.step('EPSFStar.compute_residual_image', lambda: fitted[0].compute_residual_image(epsf))
    c.step('EPSFStars(list)', lambda: EPSFStars([star, star]).center_flat)


def _catalog_forms(c, label, call, wcs=None, need_sky=False):
    """Source catalogues from minimal to complete: full product of the columns
    {id, x + y, skycoord (needs a WCS), an unrelated extra column} x {Table,
    QTable}, without the sets that give no position; ``need_sky``: only the
    sets with a sky position.  One step each, the catalogue of the step watched."""
    import itertools
    from astropy import table as T
    sky = None if wcs is None else wcs.pixel_to_world(XPOS[:2], YPOS[:2])
    for cls in ('Table', 'QTable'):
        for has_id, has_xy, has_sky, has_extra in itertools.product((False, True), repeat=4):
            if (has_sky and sky is None) or not (has_xy or has_sky) or (need_sky and not has_sky):
                continue
            t = getattr(T, cls)()
            if has_id:
                t['id'] = np.array([7, 9])
            if has_xy:
                t['x'], t['y'] = XPOS[:2].copy(), YPOS[:2].copy()
            if has_sky:
                t['skycoord'] = sky
            if has_extra:
                t['flux'] = np.array([9000.0, 7000.0])
            t.meta['origin'] = 'caller'
            cat = c.hold('catalogs', t)
            c.step(f'{label}[catalog: {cls}: {", ".join(t.colnames)}]', lambda: call(cat), keep_output=False)


@recipe('LinkedEPSFStar', ['psf.epsf_stars.LinkedEPSFStar', 'psf.epsf_stars.extract_stars'], numeric=False, axes=())
def _linked(c):
    from astropy.nddata import NDData
    from astropy.table import Table
    from photutils.psf import extract_stars
    wcs = _wcs()
    nd1 = c.hold('nddata1', NDData(c.clean() - 20.0, wcs=wcs))
    nd2 = c.hold('nddata2', NDData(c.clean() - 19.0, wcs=wcs))
    sky = wcs.pixel_to_world(XPOS[:2], YPOS[:2])
    t = c.hold('catalogs', Table({'skycoord': sky}))
    stars = c.step('extract_stars[linked]', lambda: extract_stars([nd1, nd2], t, size=11))
    if stars is None:
        return
    c.hold('stars', stars)
    c.members('EPSFStars[linked]', stars)
    c.members('LinkedEPSFStar', stars._data[0])
    if c.extras:
        _catalog_forms(c, 'extract_stars[linked]', lambda cat: extract_stars([nd1, nd2], cat, size=11), wcs=wcs, need_sky=True)
        _catalog_forms(c, 'extract_stars[wcs]', lambda cat: extract_stars(nd1, cat, size=11), wcs=wcs)
    c.exempt('stars')        # constrain_centers is a documented in-place mutator of the linked stars
    c.step('LinkedEPSFStar.constrain_centers', lambda: stars._data[0].constrain_centers())


# --------------------------------------------------------------------------
# photutils.segmentation
# --------------------------------------------------------------------------
def _segm(c, deblend=False):
    """Segmentation image of the scene; for a frame: ONE segment, the part of
    the 9x9 block around source 0 that lies inside the image -- the whole image
    ('tight', 'under'), a run of complete rows ('fullwidth') or of complete
    columns ('fullheight')."""
    from photutils.segmentation import SegmentationImage, deblend_sources, detect_sources
    if c.region is not None:
        lab = np.zeros(c.shape, np.int32)
        ixmin, ixmax, iymin, iymax = c.block_bbox()
        lab[max(iymin, 0):max(iymax, 0), max(ixmin, 0):max(ixmax, 0)] = 1
        return SegmentationImage(lab)
    clean = c.clean()
    segm = detect_sources(clean, 60.0, 5)
    if deblend:
        segm = deblend_sources(clean, segm, 5, progress_bar=False, nproc=1, contrast=0.0001)
    return segm


_SC_SKIP = ('copy',)


@recipe('SourceCatalog', ['segmentation.catalog.SourceCatalog'], units=True, geoms=G_BLOCK)
def _source_catalog(c):
    from photutils.segmentation import SourceCatalog
    from photutils.utils._convolution import _filter_data
    d, e, m = _sub(c), c.error(), c.mask()
    b = c.background()
    segm = c.hold('segment_img', _segm(c))
    kern = _kernel()
    # integer valued like the scene, so that integer representations hold the same numbers
    conv = c.array('convolved_data', np.round(_filter_data(c.clean() - 20.0, kern)) * c.scale, kind='companion')
    wcs = c.hold('wcs', _wcs())
    kron = c.hold('kron_params', (2.5, 1.4, 0.0))
    cat = c.step('SourceCatalog', lambda: SourceCatalog(d, segm, convolved_data=conv, error=e, mask=m, background=b, wcs=wcs,
                                                       localbkg_width=5, kron_params=kron), mix=True)
    c.members('SourceCatalog', cat, skip=_SC_SKIP)
    if cat is None:
        return
    c.step('SourceCatalog.circular_photometry', lambda: cat.circular_photometry(3.0))
    c.step('SourceCatalog.kron_photometry', lambda: cat.kron_photometry((2.0, 1.0)))
    c.step('SourceCatalog.fluxfrac_radius', lambda: cat.fluxfrac_radius(0.5))
    c.step('SourceCatalog.make_circular_apertures', lambda: cat.make_circular_apertures(3.0))
    c.step('SourceCatalog.make_kron_apertures', lambda: cat.make_kron_apertures((2.0, 1.0)))
    c.step('SourceCatalog.make_cutouts', lambda: [None if x is None else x.data for x in cat.make_cutouts((9, 9))])
    c.step('SourceCatalog.get_labels', lambda: cat.get_labels([1, 2] if c.geom == 'base' else [1]).to_table())
    c.step('SourceCatalog[0]', lambda: cat[0].to_table())
    if c.extras:
        # documented mutators of the catalog: the value array passed in stays the caller's
        vals = c.hold('extra_property_values', np.arange(cat.nlabels, dtype=float) + 0.5)
        c.step('SourceCatalog.add_extra_property', lambda: cat.add_extra_property('myprop', vals))
        c.step('SourceCatalog.myprop', lambda: (cat.myprop, cat.to_table(columns=['label', 'myprop'])), keep_output=False)
        c.step('SourceCatalog.rename_extra_property', lambda: cat.rename_extra_property('myprop', 'myprop2'))
        c.step('SourceCatalog.remove_extra_property', lambda: cat.remove_extra_property('myprop2'))


def _kernel():
    from photutils.segmentation import make_2dgaussian_kernel
    return make_2dgaussian_kernel(3.0, size=5)


@recipe('SourceCatalog[minimal, detection_cat]', ['segmentation.catalog.SourceCatalog'], units=True, geoms=('base', 'tight', 'fullwidth'))
def _source_catalog_min(c):
    from photutils.segmentation import SourceCatalog
    d, m = _sub(c), c.mask()
    segm = c.hold('segment_img', _segm(c, deblend=True))
    det = c.hold('detection_cat', SourceCatalog(c.clean() - 20.0, segm))
    cat = c.step('SourceCatalog[minimal]', lambda: SourceCatalog(d, segm, mask=m, apermask_method='mask'))
    c.members('SourceCatalog[minimal]', cat, skip=_SC_SKIP)
    cat2 = c.step('SourceCatalog[detection_cat]', lambda: SourceCatalog(d, segm, mask=m, detection_cat=det, apermask_method='none'))
    c.members('SourceCatalog[detection_cat]', cat2, only=('kron_flux', 'kron_radius', 'centroid', 'segment_flux', 'fwhm',
                                                          'centroid_win', 'centroid_quad'))


@recipe('SegmentationImage', ['segmentation.core.SegmentationImage', 'segmentation.core.Segment'], numeric=False, geoms=G_BLOCK)
def _segmentation_image(c):
    from photutils.segmentation import SegmentationImage
    lab = _segm(c, deblend=True).data
    if c.rep in ('view', 'strided', 'fortran', 'F'):
        lab = c._layout('segm_data', lab, 0)
    lab = c.hold('segm_data', lab)
    d, m = c.data(), c.mask()
    mm = m if m is not None else c.hold('mask_arg', _coverage()[:c.shape[0], :c.shape[1]].copy())
    segm = c.step('SegmentationImage', lambda: SegmentationImage(lab))
    c.members('SegmentationImage', segm)
    if segm is None:
        return
    c.step('SegmentationImage.make_source_mask', lambda: segm.make_source_mask(size=3))
    fp = c.arg('footprint', np.ones((3, 3), bool))
    c.step('SegmentationImage.make_source_mask[footprint]', lambda: segm.make_source_mask(footprint=fp))
    two = [1, 2] if c.geom == 'base' else [1, 1]
    c.step('SegmentationImage.get_area', lambda: (segm.get_area(1), segm.get_areas(two), segm.get_index(two[1]), segm.get_indices(two)))
    seg = c.step('SegmentationImage.segments[0]', lambda: segm.segments[0])
    c.members('Segment', seg)
    if seg is not None:
        c.step('Segment.make_cutout', lambda: seg.make_cutout(d, masked_array=True))
    # documented in-place mutators: they may change the SegmentationImage (and the label array it was
    # given -- that array IS the object's state) but nothing else the caller holds
    c.exempt('segm_data')
    c.step('SegmentationImage.remove_masked_labels', lambda: segm.remove_masked_labels(mm, partial_overlap=False))
    c.step('SegmentationImage.remove_border_labels', lambda: segm.remove_border_labels(1, relabel=True))
    c.step('SegmentationImage.relabel_consecutive', lambda: segm.relabel_consecutive(start_label=3))
    if c.extras and segm.nlabels >= 1:
        # the other mutators: they change the SegmentationImage, never the label arrays passed to them
        labs = c.hold('labels_arg', np.array(segm.labels[:2]))
        c.step('SegmentationImage.reassign_labels', lambda: segm.reassign_labels(labs, new_label=int(segm.max_label) + 5, relabel=False))
        keep = c.hold('labels_arg[keep]', np.array(segm.labels[-2:]))
        c.step('SegmentationImage.keep_labels', lambda: segm.keep_labels(keep, relabel=True))
        rem = c.hold('labels_arg[remove]', np.array(segm.labels[:1]))
        c.step('SegmentationImage.remove_labels', lambda: segm.remove_labels(rem))
        c.step('SegmentationImage.reset_cmap', lambda: segm.reset_cmap(seed=3))


@recipe('detect_threshold', ['segmentation.detect.detect_threshold'], units=True, geoms=G_LINE + ('tight',))
def _detect_threshold(c):
    from photutils.segmentation import detect_threshold
    d, e, m = c.data(), c.error(), c.mask()
    b = c.background()
    c.step('detect_threshold', lambda: detect_threshold(d, 2.0, mask=m))
    c.step('detect_threshold[background, error]', lambda: detect_threshold(d, 2.0, background=b, error=e, mask=m), mix=True)
    c.step('detect_threshold[scalars]', lambda: detect_threshold(d, 2.0, background=c.q(20.0, 'background'), error=c.q(3.0, 'error'), mask=m, sigma_clip=_sigclip()), mix=True)


@recipe('detect_sources', ['segmentation.detect.detect_sources'], units=True, geoms=G_DET)
def _detect_sources(c):
    from photutils.segmentation import detect_sources
    d, m = _sub(c), c.mask()
    thr = c.hold('threshold', c.q(np.full(c.shape, 60.0), 'threshold'))
    c.step('detect_sources', lambda: detect_sources(d, c.q(60.0, 'threshold'), 5, mask=m), mix=True)
    c.step('detect_sources[threshold map, 4-conn]', lambda: detect_sources(d, thr, 5, connectivity=4, mask=m), mix=True)
    if c.geom != 'base':     # every finite unmasked pixel is above the threshold: one segment covering the whole image
        c.step('detect_sources[whole image]', lambda: detect_sources(d, c.q(-1000.0, 'threshold'), 1, mask=m), mix=True)


BLEND = (slice(13, 30), slice(25, 43))       # 17x18 frame around the blended pair (sources 1 and 3)


@recipe('deblend_sources', ['segmentation.deblend.deblend_sources'], units=True, geoms=('base', 'blend', 'tight'))
def _deblend_sources(c):
    from photutils.segmentation import SegmentationImage, deblend_sources
    if c.geom == 'blend':      # ONE segment that is the whole image and really splits in two
        c.set_frame(BLEND)
    d = _sub(c)
    segm = c.hold('segment_img', SegmentationImage(np.ones(c.shape, np.int32)) if c.geom != 'base' else _segm(c))
    labels = c.arg('labels', np.array([1, 2]) if c.geom == 'base' else np.array([1]))
    c.step('deblend_sources', lambda: deblend_sources(d, segm, 5, progress_bar=False, nproc=1, contrast=0.0001))
    c.step('deblend_sources[labels, linear, no relabel]', lambda: deblend_sources(d, segm, 5, labels=labels, mode='linear', nlevels=8,
                                                                                 relabel=False, progress_bar=False, connectivity=4))
    c.step('deblend_sources[sinh]', lambda: deblend_sources(d, segm, 5, mode='sinh', nlevels=8, progress_bar=False))


@recipe('SourceFinder', ['segmentation.finder.SourceFinder'], units=True)
def _source_finder(c):
    from photutils.segmentation import SourceFinder
    d, m = _sub(c), c.mask()
    thr = c.hold('threshold', c.q(np.full(SHAPE, 60.0), 'threshold'))
    c.step('SourceFinder()', lambda: SourceFinder(5, progress_bar=False, contrast=0.0001)(d, thr, mask=m), mix=True)
    c.step('SourceFinder[no deblend]()', lambda: SourceFinder(5, deblend=False, progress_bar=False)(d, c.q(60.0, 'threshold'), mask=m), mix=True)


# --------------------------------------------------------------------------
# photutils.utils
# --------------------------------------------------------------------------
@recipe('_moments', ['utils._moments._moments', 'utils._moments._moments_central'], units=False, geoms=G_CUT)
def _moments(c):
    from photutils.utils._moments import _moments, _moments_central
    d = _bkgsub(c)
    cen = c.hold('center', (c.fx(15.2), c.fy(14.1)) if c.geom != 'base' else (10.2, 9.1))
    c.step('_moments', lambda: _moments(d, order=3))
    c.step('_moments_central', lambda: _moments_central(d, center=cen, order=3))
    c.step('_moments_central[no center]', lambda: _moments_central(d, order=2))


@recipe('CutoutImage', ['utils.cutouts.CutoutImage'], units=True, geoms=G_ALL)
def _cutout_image(c):
    from photutils.utils.cutouts import CutoutImage
    d = c.data()
    if c.geom != 'base':
        # cutout == the whole image, and a cutout that is larger than the image on every side
        ny, nx = c.shape
        pos = c.hold('position', ((ny - 1) // 2, (nx - 1) // 2))
        for mode, shp, cp in (('trim', (ny, nx), False), ('strict', (ny, nx), False), ('partial', (ny, nx), True),
                              ('trim', (ny + 2, nx + 2), False), ('partial', (ny + 2, nx + 2), False)):
            lab = f'CutoutImage[{mode}, {"image" if shp == (ny, nx) else "image+2"}, copy={cp}]'
            co = c.step(lab, lambda: CutoutImage(d, pos, shp, mode=mode, copy=cp, fill_value=0))
            c.members(lab, co)
            if co is not None:
                c.step(f'{lab}.data', lambda: co.data)
                c.step(f'{lab}.__array__', lambda: np.asarray(co))
        return
    pos = c.hold('position', (14, 15))
    for mode, p, cp in (('trim', (14, 15), False), ('partial', (1, 1), False), ('partial', (14, 15), True), ('strict', (14, 15), True)):
        co = c.step(f'CutoutImage[{mode}, {p}, copy={cp}]', lambda: CutoutImage(d, p if p != (14, 15) else pos, (9, 7), mode=mode, copy=cp, fill_value=0))
        c.members(f'CutoutImage[{mode}, {p}, copy={cp}]', co)
        if co is not None:
            c.step(f'CutoutImage[{mode}, {p}, copy={cp}].data', lambda: co.data)
            c.step(f'CutoutImage[{mode}, {p}, copy={cp}].__array__', lambda: np.asarray(co))


@recipe('ImageDepth', ['utils.depths.ImageDepth'], units=False)
def _image_depth(c):
    """Full product of the mask forms the ``mask`` argument documents -- a mask
    of the sources and of the pixels of the scene's mask argument (some True),
    an all-False array (nothing to mask: a blank field), None -- with two
    configurations (no overlap / overlap + mask_pad).  The masks have the
    memory layout of the representation (views of a larger array in 'view')."""
    from photutils.utils import ImageDepth
    d = c.data()
    src = _segm(c).make_source_mask(size=5)
    bad = c.sc['mask'] if c.sc['mask'] is not None else np.zeros(SHAPE, bool)
    forms = (('source mask', c._log_mask('source_mask', c.array('source_mask', src | bad, kind='aux'))),
             ('all-False mask', c._log_mask('empty_mask', c.array('empty_mask', np.zeros(SHAPE, bool), kind='aux'))),
             ('no mask', None))
    for form, sm in forms:
        depth = ImageDepth(2.0, nsigma=5.0, napers=15, niters=2, overlap=False, seed=1, zeropoint=23.9, progress_bar=False)
        c.step(f'ImageDepth[{form}]()', lambda: depth(d, sm))
        c.step(f'ImageDepth[{form}].apertures', lambda: [a.positions for a in depth.apertures])
        depth2 = ImageDepth(2.0, nsigma=5.0, mask_pad=2, napers=15, niters=2, overlap=True, seed=1, progress_bar=False)
        c.step(f'ImageDepth[{form}; overlap, mask_pad]()', lambda: depth2(d, sm))
        if c.extras and form == 'source mask':
            c.plot_step('ImageDepth.apertures[0].plot', lambda: depth.apertures[0].plot(ax=c.plot_ax(), origin=c.plot_origin(), color='orange'))


@recipe('calc_total_error', ['utils.errors.calc_total_error'], units=True, geoms=G_LINE)
def _calc_total_error(c):
    import astropy.units as u
    from photutils.utils import calc_total_error
    d = c.data()
    b = c.error(name='bkg_error')
    gain = np.full(c.shape, 2.0)
    if c.geom == 'base':
        gain[0, :] = 0.0
    else:
        gain[0, 0] = 0.0                 # (a whole row would be the whole one-row image)
    gkw = dict(name='effective_gain', unit=u.electron / c.unit, power=-1, scaled=False)
    g = c.hold('effective_gain', c.q(gain, **gkw))
    c.step('calc_total_error', lambda: calc_total_error(d, b, c.q(2.0, **gkw)), mix=True)
    c.step('calc_total_error[gain map]', lambda: calc_total_error(d, b, g), mix=True)


@recipe('ShepardIDWInterpolator', ['utils.interpolation.ShepardIDWInterpolator'], numeric=False, axes=())
def _shepard(c):
    from photutils.utils import ShepardIDWInterpolator
    rng = np.random.default_rng(5)
    coords = c.arg('coordinates', rng.uniform(0, 10, (30, 2)), kinds='layout')
    vals = c.arg('values', np.sin(coords[:, 0]) + coords[:, 1])
    wts = c.arg('weights', rng.uniform(0.5, 1.5, 30))
    pos = c.arg('positions', np.array([[2.0, 3.0], [5.5, 5.5], [coords[3, 0], coords[3, 1]]]), kinds='layout')
    f = c.step('ShepardIDWInterpolator', lambda: ShepardIDWInterpolator(coords, vals, weights=wts))
    if f is not None:
        c.step('ShepardIDWInterpolator()', lambda: f(pos, n_neighbors=5, power=2.0, reg=0.1))
        c.step('ShepardIDWInterpolator()[scalar position]', lambda: f(pos[0]))
    x1 = c.hold('coordinates1d', np.linspace(0, 10, 12))
    f1 = c.step('ShepardIDWInterpolator[1D]', lambda: ShepardIDWInterpolator(x1, np.cos(x1)))
    if f1 is not None:
        c.step('ShepardIDWInterpolator[1D]()', lambda: f1(np.array([0.5, 3.3])))


# --------------------------------------------------------------------------
# C10 additions: geometry state object, PSF grid files, callables without an array argument
# --------------------------------------------------------------------------
@recipe('EllipseGeometry', ['isophote.geometry.EllipseGeometry'], numeric=False)
def _ellipse_geometry(c):
    from photutils.isophote import EllipseGeometry
    d = _sub(c)
    g = c.step('EllipseGeometry', lambda: EllipseGeometry(31.0, 20.0, 4.0, 0.1, 0.1, astep=0.2, linear_growth=True))
    # the geometry is a state object (not watched); watched: the image passed to find_center and the coordinate arrays
    c.step('EllipseGeometry.initialize_sector_geometry', lambda: g.initialize_sector_geometry(0.3))
    c.members('EllipseGeometry', g)


PSF_TEST_DATA = ('psf', 'tests', 'data')
STDPSF_FILE = 'STDPSF_NRCA1_F150W_mock.fits'
STDPSF_MULTI_FILE = 'STDPSF_ACSWFC_F814W_mock.fits'
WEBBPSF_FILE = 'nircam_nrca1_f200w_fovp101_samp4_npsf4_mock.fits'


def _psf_file(name):
    import os
    import photutils
    return os.path.join(os.path.dirname(photutils.__file__), *PSF_TEST_DATA, name)


def _file_bytes(path):
    """The file on disk as a caller-held object (its bytes are watched)."""
    with open(path, 'rb') as fh:
        return np.frombuffer(fh.read(), np.uint8)


@recipe('psf_grid_files', ['psf.gridded_models.STDPSFGrid', 'psf.model_io.GriddedPSFModelRead', 'psf.model_io.stdpsf_reader',
                           'psf.model_io.webbpsf_reader', 'datasets.load.get_path'], numeric=False, axes=())
def _psf_grid_files(c):
    """The file readers, on the mock grid files shipped with photutils (no
    network).  Caller-held: the files themselves (their bytes are compared)."""
    from photutils.datasets import get_path
    from photutils.psf import GriddedPSFModel, STDPSFGrid
    from photutils.psf.model_io import stdpsf_reader, webbpsf_reader
    files = {k: _psf_file(k) for k in (STDPSF_FILE, STDPSF_MULTI_FILE, WEBBPSF_FILE)}
    for k, path in files.items():
        c.hold(f'file:{k}', {'bytes': _file_bytes(path)})
    yy, xx = np.mgrid[0:9, 0:9]
    x = c.hold('x', xx + 100.0)
    y = c.hold('y', yy + 200.0)

    def reread(label, thunk):
        # the watched object is the file on disk: re-read it into the held dict before the comparison of the step
        def run():
            try:
                return thunk()
            finally:
                for k, path in files.items():
                    c.held[f'file:{k}']['bytes'] = _file_bytes(path)
        return c.step(label, run)
    grid = reread('STDPSFGrid', lambda: STDPSFGrid(files[STDPSF_FILE]))
    if grid is not None:
        c.hold('stdpsf_grid', grid)
        c.members('STDPSFGrid', grid)          # extras: plot_grid
        c.step('STDPSFGrid.__str__', lambda: str(grid))
    m1 = reread('stdpsf_reader', lambda: stdpsf_reader(files[STDPSF_FILE]))
    reread('stdpsf_reader[detector_id]', lambda: stdpsf_reader(files[STDPSF_MULTI_FILE], detector_id=2))
    m2 = reread('webbpsf_reader', lambda: webbpsf_reader(files[WEBBPSF_FILE]))
    m3 = reread('GriddedPSFModel.read', lambda: GriddedPSFModel.read(files[STDPSF_FILE]))
    reread('GriddedPSFModel.read[format=webbpsf]', lambda: GriddedPSFModel.read(files[WEBBPSF_FILE], format='webbpsf'))
    for lab, mdl in (('stdpsf_reader', m1), ('webbpsf_reader', m2), ('GriddedPSFModel.read', m3)):
        if mdl is not None:
            c.hold(f'model[{lab}]', mdl)
            c.step(f'{lab}()', lambda: mdl.evaluate(x, y, 1000.0, 104.2, 203.7))
            c.members(lab, mdl, own=True, only=('plot_grid', 'origin', 'oversampling'))
    c.step('get_path', lambda: get_path('4gaussians_params.ecsv', location='local'))


@recipe('callables_without_array_argument',
        ['datasets.examples.make_100gaussians_image', 'datasets.examples.make_4gaussians_image', 'datasets.noise.make_noise_image',
         'datasets.wcs.make_gwcs', 'datasets.wcs.make_wcs', 'geometry.circular_overlap.circular_overlap_grid',
         'geometry.elliptical_overlap.elliptical_overlap_grid', 'geometry.rectangular_overlap.rectangular_overlap_grid',
         'segmentation.utils.make_2dgaussian_kernel', 'utils.colormaps.make_random_cmap', 'utils.footprints.circular_footprint',
         'utils.exceptions.NoDetectionsWarning'], numeric=False, axes=())
def _no_array_argument(c):
    """Callables whose arguments are a shape and scalars: the shape is handed
    over as a list the caller holds; nothing else can be modified, the calls
    are made so that every public callable has been executed."""
    from photutils.datasets import (make_4gaussians_image, make_100gaussians_image, make_gwcs, make_noise_image, make_wcs)
    from photutils.geometry import circular_overlap_grid, elliptical_overlap_grid, rectangular_overlap_grid
    from photutils.segmentation import make_2dgaussian_kernel
    from photutils.utils import circular_footprint, make_random_cmap
    from photutils.utils.exceptions import NoDetectionsWarning
    shape = c.hold('shape', [41, 47])
    c.step('make_noise_image[gaussian]', lambda: make_noise_image(shape, distribution='gaussian', mean=5.0, stddev=2.0, seed=1))
    c.step('make_noise_image[poisson]', lambda: make_noise_image(shape, distribution='poisson', mean=5.0, seed=1))
    c.step('make_wcs', lambda: make_wcs(shape, galactic=True).wcs.crval)
    c.step('make_gwcs', lambda: make_gwcs(shape).bounding_box)
    c.step('make_4gaussians_image', lambda: make_4gaussians_image(noise=False))
    c.step('make_4gaussians_image[noise]', lambda: make_4gaussians_image())
    c.step('make_100gaussians_image', lambda: make_100gaussians_image(noise=False))
    c.step('make_2dgaussian_kernel', lambda: make_2dgaussian_kernel(3.0, size=5, mode='center').array)
    c.step('circular_footprint', lambda: circular_footprint(3, dtype=bool))
    c.step('make_random_cmap', lambda: make_random_cmap(ncolors=8, seed=1).colors)
    c.step('circular_overlap_grid', lambda: circular_overlap_grid(-4.5, 4.5, -4.5, 4.5, 9, 9, 4.0, 1, 1))
    c.step('elliptical_overlap_grid', lambda: elliptical_overlap_grid(-5.5, 5.5, -5.5, 5.5, 11, 11, 5.0, 3.0, 0.4, 0, 3))
    c.step('rectangular_overlap_grid', lambda: rectangular_overlap_grid(-5.5, 5.5, -5.5, 5.5, 11, 11, 7.0, 4.0, 0.4, 0, 3))
    c.step('NoDetectionsWarning', lambda: str(NoDetectionsWarning('no sources')))


# --------------------------------------------------------------------------
# C10: Table-valued arguments -- column-name conventions x column sets x units x table class
# --------------------------------------------------------------------------
# A table argument may use any of the documented spellings of a column and may or may not bring the optional columns
# along; the code RENAMES columns to its canonical names, ADDS the columns that are missing, CONVERTS columns given in
# another unit and REORDERS them -- each of which must happen in a private copy.  Whether a copy is made may depend on
# which of these has to be done, so the table form is an axis of its own (full product below); the table is watched
# column by column (names, order, values, dtype, unit, class, mask, info), with its meta and class.
INIT_NAMES = collections.OrderedDict([          # convention -> (x, y, flux) column names accepted for init_params
    ('short', ('x', 'y', 'flux')),               # the usual hand-written table
    ('_0', ('x_0', 'y_0', 'flux_0')),            # model parameter names (make_psf_model_image / make_model_params tables)
    ('_init', ('x_init', 'y_init', 'flux_init')),    # canonical: the names PSFPhotometry writes itself (nothing to rename)
    ('centroid', ('xcentroid', 'ycentroid', 'flux')),    # a star finder's output table
    ('_fit', ('x_fit', 'y_fit', 'flux_fit')),    # the fitted columns of a result table
])
INIT_OPTIONAL = ('flux', 'id', 'group_id', 'local_bkg')      # each present or absent: 16 column sets from minimal to complete
INIT_FWHM_NAMES = (None, 'fwhm', 'fwhm_init', 'fwhm_fit')     # spellings of an extra (free) model parameter column


def init_table_forms(unitful, classes=('QTable', 'Table'), names=None, subsets=None):
    """The product  convention x table class x column set x unit variant  as a
    list of dicts; unit variants: 'same' (flux / local_bkg in the data unit or
    plain for plain data) and, for unit-ful data and a column set holding flux
    or local_bkg, 'other' (those columns in mJy instead of Jy)."""
    import itertools
    out = []
    for conv in (names or INIT_NAMES):
        for cls in classes:
            for present in (subsets or list(itertools.product((False, True), repeat=len(INIT_OPTIONAL)))):
                cols = tuple(k for k, p in zip(INIT_OPTIONAL, present) if p)
                for unit in (('same', 'other') if (unitful and ('flux' in cols or 'local_bkg' in cols) and cls == 'QTable') else ('same',)):
                    if unitful and cls == 'Table' and ('flux' in cols or 'local_bkg' in cols):
                        continue         # a plain Table cannot hold a Quantity column (rejected by design: see the raising forms)
                    out.append({'names': conv, 'class': cls, 'cols': cols, 'unit': unit})
    return out


def init_table(form, unit=None, rows=3, fwhm=None, scale=1.0):
    """Build the table of one form (``unit``: the data unit or None)."""
    import astropy.units as u
    from astropy import table as T
    xn, yn, fn = INIT_NAMES[form['names']]
    t = getattr(T, form['class'])()
    cols = form['cols']
    other = form['unit'] == 'other'

    def q(v):
        if unit is None:
            return v
        v = v * unit
        return v.to(u.mJy) if other else v
    if 'id' in cols:
        t['id'] = np.array([1, 2, 3])[:rows]
    if 'group_id' in cols:
        t['group_id'] = np.array([1, 2, 2])[:rows]
    if 'local_bkg' in cols:
        t['local_bkg'] = q(np.array([0.5, 1.0, 0.25])[:rows] * scale)
    t[xn] = (XPOS + 0.3)[:rows]
    t[yn] = (YPOS - 0.2)[:rows]
    if 'flux' in cols:
        t[fn] = q(np.array([9000.0, 7000.0, 6000.0])[:rows] * scale)
    if fwhm is not None:
        t[fwhm] = np.array([4.4, 4.5, 4.6])[:rows]
    t.meta['origin'] = 'caller'
    t[xn].info.description = 'x position given by the caller'
    return t


def form_label(form, fwhm=None):
    xn, yn, fn = INIT_NAMES[form['names']]
    cols = [xn, yn] + [fn if k == 'flux' else k for k in form['cols']] + ([fwhm] if fwhm else [])
    return f'{form["class"]}: {", ".join(cols)}' + ('; flux / local_bkg in mJy' if form['unit'] == 'other' else '')


MINIMAL, COMPLETE = (False,) * 4, (True,) * 4


def _forms_scene(c, unitful):
    """Clean background-subtracted scene, its error map (Quantities when
    ``unitful``) -- the table handling does not depend on the image."""
    d = c.clean() - 20.0
    e = c.clean('error')
    if unitful:
        d, e = d * c.unit, e * c.unit
    return c.hold('data', d), c.hold('error', e)


def _run_form(c, label, call, table):
    t = c.hold('init_params', table)
    c.step(label, lambda: call(t), keep_output=False)


def _psf_init_forms(c, unitful):
    import astropy.units as u
    from photutils.background import LocalBackground
    from photutils.psf import CircularGaussianPRF, PSFPhotometry, SourceGrouper
    d, e = _forms_scene(c, unitful)
    unit = c.unit if unitful else None
    psf = c.hold('psf_model', CircularGaussianPRF(flux=1.0, fwhm=4.5))
    # a grouper and a local-background estimator, so that the code has something to compute for every column that is absent
    ph = PSFPhotometry(psf, (7, 7), aperture_radius=4, grouper=SourceGrouper(5), localbkg_estimator=LocalBackground(5, 8))
    res = None
    for form in init_table_forms(unitful):
        _run_form(c, f'PSFPhotometry()[init table: {form_label(form)}]', lambda t: ph(d, error=e, init_params=t), init_table(form, unit))
    # a result table fed back in (complete: every canonical column present, plus the fitted ones)
    res = ph(d, error=e, init_params=init_table({'names': 'short', 'class': 'QTable', 'cols': ('flux',), 'unit': 'same'}, unit))
    _run_form(c, 'PSFPhotometry()[init table: a result table fed back]', lambda t: ph(d, error=e, init_params=t), res)
    # an extra model parameter that is fitted (fwhm free): its column absent / present under each accepted spelling
    psf2 = CircularGaussianPRF(flux=1.0, fwhm=4.5)
    psf2.fwhm.fixed = False
    psf2 = c.hold('psf_model[fwhm free]', psf2)
    ph2 = PSFPhotometry(psf2, (7, 7), aperture_radius=4, grouper=SourceGrouper(5), localbkg_estimator=LocalBackground(5, 8))
    for form in init_table_forms(unitful, classes=('QTable',), subsets=(MINIMAL, COMPLETE)):
        for fw in INIT_FWHM_NAMES:
            _run_form(c, f'PSFPhotometry[fwhm free]()[init table: {form_label(form, fw)}]',
                      lambda t: ph2(d, error=e, init_params=t), init_table(form, unit, fwhm=fw))
    if not c.extras:
        return
    # forms the documentation rejects: the call raises -- possibly after the clean-up of the columns has begun
    for conv in INIT_NAMES:
        xn, yn, fn = INIT_NAMES[conv]
        base = {'names': conv, 'class': 'QTable', 'cols': ('flux', 'local_bkg'), 'unit': 'other' if unitful else 'same'}
        t = init_table(base, unit)
        t.remove_column(yn)
        _run_form(c, f'PSFPhotometry()[rejected init table: {conv}: no y column]', lambda t: ph(d, error=e, init_params=t), t)
        t = init_table(base, unit)
        t['local_bkg'] = np.array([0.5, np.nan, 0.25]) * (u.mJy if unitful else 1.0)
        _run_form(c, f'PSFPhotometry()[rejected init table: {conv}: non-finite local_bkg]', lambda t: ph(d, error=e, init_params=t), t)
        t = init_table(base, unit)
        t['local_bkg'] = np.array([0.5, 1.0, 0.25]) * (u.s if unitful else u.Jy)     # flux is fine (and convertible), local_bkg is not
        _run_form(c, f'PSFPhotometry()[rejected init table: {conv}: local_bkg unit does not fit the data]', lambda t: ph(d, error=e, init_params=t), t)
        t = init_table(base, unit)
        t[fn] = np.array([9000.0, 7000.0, 6000.0]) * (1.0 if unitful else u.Jy)
        _run_form(c, f'PSFPhotometry()[rejected init table: {conv}: flux unit does not fit the data]', lambda t: ph(d, error=e, init_params=t), t)
        t = init_table(dict(base, cols=('flux',)), unit)
        t[xn][1] = 500.0                      # a source far outside the image: rejected after the table has been prepared
        _run_form(c, f'PSFPhotometry()[rejected init table: {conv}: position outside the image]', lambda t: ph(d, error=e, init_params=t), t)


recipe('PSFPhotometry[init_params table forms; plain data]', ['psf.photometry.PSFPhotometry'], numeric=False, axes=(),
       companions=False)(lambda c: _psf_init_forms(c, False))
recipe('PSFPhotometry[init_params table forms; Quantity data]', ['psf.photometry.PSFPhotometry'], numeric=False, axes=(),
       companions=False)(lambda c: _psf_init_forms(c, True))


def _iter_init_forms(c, unitful, full):
    from photutils.background import LocalBackground
    from photutils.detection import DAOStarFinder
    from photutils.psf import CircularGaussianPRF, IterativePSFPhotometry, SourceGrouper
    d, e = _forms_scene(c, unitful)
    unit = c.unit if unitful else None
    psf = c.hold('psf_model', CircularGaussianPRF(flux=1.0, fwhm=4.5))
    thr = 50.0 * c.unit if unitful else 50.0
    forms = init_table_forms(unitful) if full else init_table_forms(unitful, classes=('QTable',), subsets=(MINIMAL, COMPLETE))
    for mode in ('new', 'all'):
        ph = IterativePSFPhotometry(psf, (7, 7), finder=DAOStarFinder(thr, 4.0), aperture_radius=4, maxiters=2, mode=mode,
                                    grouper=SourceGrouper(5) if mode == 'all' else None, localbkg_estimator=LocalBackground(5, 8))
        for form in forms:
            # two of the sources in the table: the second iteration finds the third
            _run_form(c, f'IterativePSFPhotometry[{mode}]()[init table: {form_label(form)}]',
                      lambda t: ph(d, error=e, init_params=t), init_table(form, unit, rows=2))


recipe('IterativePSFPhotometry[init_params table forms; plain data]', ['psf.photometry.IterativePSFPhotometry'], numeric=False, axes=(),
       companions=False)(lambda c: _iter_init_forms(c, False, False))
recipe('IterativePSFPhotometry[init_params table forms; Quantity data]', ['psf.photometry.IterativePSFPhotometry'], numeric=False,
       axes=(), companions=False)(lambda c: _iter_init_forms(c, True, False))
# thorough tier: the full product of the forms for the iterative class as well
recipe('IterativePSFPhotometry[init_params table forms, full product; plain data]', ['psf.photometry.IterativePSFPhotometry'],
       numeric=False, axes=(), slow=True, companions=False)(lambda c: _iter_init_forms(c, False, True))
recipe('IterativePSFPhotometry[init_params table forms, full product; Quantity data]', ['psf.photometry.IterativePSFPhotometry'],
       numeric=False, axes=(), slow=True, companions=False)(lambda c: _iter_init_forms(c, True, True))
