"""C15, the *large reduction* family.

A representation defect can depend on the SIZE of the input: an accumulator
kept in the dtype of the data (a float32 running sum, an int16 sum) is exact
or invisible on the 41 x 47 registry scene and wrong by per cents on a real
image of 1e6 pixels.  This family is the full product

    entry points that reduce over the whole image, along one of its axes, or
    over a large box / aperture / segment
  x representation {dtype x byte order (17), Fortran order, strided view,
    float32 in Fortran order / as a strided view, Quantity (float64 / float32,
    statistics wrappers only)}
  x condition {clean, nan (a few NaN pixels; floating-point types only)}

on ONE deterministic image per value domain:

    full : 1024 x 1000, round(1000 + 5 * N(0, 1))   (every float type and
           every integer type of >= 16 bit holds these numbers exactly)
    byte :  the same noise on a pedestal of 100, clipped to 0..127 (uint8, int8)

(the noise realisation is the only thing the seed chooses).  The error map is
integer valued as well (4..7).  The sum of the image is about 1e9: it does not
fit into int16 / uint16 (nor the 'byte' image's 1e8 into 8 bits), and a
float32 running sum has an ulp of 64 there.

Everything here is plain data + closures; the comparison / tolerance policy is
in ``mcphot.props.c15``.
"""
import collections

import numpy as np

from . import registry as R

SHAPE = (1024, 1000)
PEDESTAL = collections.OrderedDict([('full', 1000.0), ('byte', 100.0)])
NOISE_SIGMA = 5.0
CLIP_SIGMA, CLIP_MAXITERS = 3.0, 10
# NaN pixels of the 'nan' condition: a 5 x 5 block, a diagonal run and two single pixels (57 pixels)
NAN_PIX = tuple((200 + i, 300 + j) for i in range(5) for j in range(5)) + tuple((600 + i, 40 + 7 * i) for i in range(30)) \
    + ((0, 0), (1023, 999))
MASK_REGION = (slice(100, 400), slice(500, 900))      # the ``mask`` argument of detect_threshold (120000 pixels)
SEGMENT = (slice(40, 980), slice(30, 970))            # label 1 of the segmentation image: 940 x 940 = 883600 pixels
SEGMENT2 = (slice(5, 30), slice(5, 30))               # label 2: a small segment next to it (25 x 25)
APERTURE = ((500.3, 512.2), 470.0)                    # circular aperture, area 6.9e5 pixels
PROFILE_EDGES = (0.0, 150.0, 300.0, 470.0)
GAIN = 2.0

CONDS = ('clean', 'nan')
LAYOUTS = ('F', 'strided')
# dtype x byte order (the registry's axis), the two layouts of the float64 array, and float32 x layout
REPS = tuple(R.C15_DTYPE_REPS) + LAYOUTS + tuple(f'f4@{lay}' for lay in LAYOUTS)
# thorough tier: every dtype x layout in addition
REPS_THOROUGH = REPS + tuple(f'{d}@{lay}' for d in R.C15_DTYPE_REPS if d != 'f4' for lay in LAYOUTS)
QUANTITY_REPS = ('quantity', 'quantity_f4')           # statistics wrappers only (they special-case Quantity)

_IMAGES = {}


def image(seed, domain):
    """-> (data, error) float64, integer valued."""
    key = (seed, domain)
    if key not in _IMAGES:
        rng = np.random.default_rng(7000 + seed)
        noise = rng.standard_normal(SHAPE)
        data = np.round(PEDESTAL[domain] + NOISE_SIGMA * noise)
        if domain == 'byte':
            data = np.clip(data, 0.0, 127.0)
        error = np.round(4.0 + 3.0 * rng.random(SHAPE))
        for k in [k for k in _IMAGES if k[0] != seed]:
            del _IMAGES[k]
        _IMAGES[key] = (data, error)
    d, e = _IMAGES[key]
    return d.copy(), e.copy()


def dtype_of(rep):
    d = rep.split('@', 1)[0]
    if d == 'quantity_f4':
        return 'f4'
    return d if d in R.DTYPE_OF_REP else None


def domain_of(rep):
    # the image is positive: the unsigned types of >= 16 bit hold it as it is
    return 'byte' if R.DOMAIN_OF_REP.get(dtype_of(rep)) == 'byte' else 'full'


def holds_nan(rep):
    d = dtype_of(rep)
    return d is None or np.dtype(R.DTYPE_OF_REP[d]).kind == 'f'


def represent(a, rep):
    """The float64 array ``a`` in representation ``rep`` (always a new buffer)."""
    import astropy.units as u
    if rep in QUANTITY_REPS:
        return (a.astype('<f4') if rep == 'quantity_f4' else a.copy()) * u.Jy
    d, _, lay = rep.partition('@')
    if d in LAYOUTS:
        d, lay = None, d
    b = a.copy()
    if d is not None and d != 'f8':
        b = a.astype(R.DTYPE_OF_REP[d])
        if not np.array_equal(b.astype(float), a, equal_nan=True):
            raise AssertionError(f'representation {rep} does not hold the numbers of the image')
    if lay == 'F':
        b = np.asfortranarray(b)
    elif lay == 'strided':
        parent = np.full(tuple(2 * n for n in b.shape), 7, dtype=b.dtype)     # the gaps hold a different number
        parent[::2, ::2] = b
        b = parent[::2, ::2]
    return b


class Env:
    """Arguments of one (representation, condition, seed) run."""

    def __init__(self, rep, cond, seed, domain=None):
        self.rep, self.cond, self.seed = rep, cond, seed
        self.domain = domain_of(rep) if domain is None else domain
        data, error = image(seed, self.domain)
        if cond == 'nan':
            for (y, x) in NAN_PIX:
                data[y, x] = np.nan
        self.data64, self.error64 = data, error
        self.data = represent(data, rep)
        self.error = represent(error, rep if rep not in QUANTITY_REPS else 'f8')
        self.mask = np.zeros(SHAPE, bool)
        self.mask[MASK_REGION] = True

    def clip(self):
        from astropy.stats import SigmaClip
        return SigmaClip(sigma=CLIP_SIGMA, maxiters=CLIP_MAXITERS)


# ----------------------------------------------------------------------------
# sigma-clipping ties (soundness rule 1)
# ----------------------------------------------------------------------------
def clip_margin(values):
    """Plain float64 sigma clipping (median +- 3 std, up to 10 iterations) of
    ``values``; returns the smallest distance between a clipping bound of any
    iteration and a value still in the sample: when it is tiny, which pixels
    are clipped is not determined to float32 precision (a tie)."""
    v = np.asarray(values, float).ravel()
    v = v[np.isfinite(v)]
    margin = np.inf
    for _ in range(CLIP_MAXITERS):
        c, s = np.median(v), np.std(v)
        lo, hi = c - CLIP_SIGMA * s, c + CLIP_SIGMA * s
        margin = min(margin, float(np.min(np.abs(v - lo))), float(np.min(np.abs(v - hi))))
        keep = (v >= lo) & (v <= hi)
        if keep.all():
            break
        v = v[keep]
    return margin


def clip_sets(data64):
    """The pixel sets that the sigma-clipped entries clip, by name."""
    half = SHAPE[0] // 2
    m = np.ones(SHAPE, bool)
    m[MASK_REGION] = False
    return {'image': lambda: data64, 'unmasked': lambda: data64[m], 'top': lambda: data64[:half], 'bottom': lambda: data64[half:]}


# ----------------------------------------------------------------------------
# the entries
# ----------------------------------------------------------------------------
Entry = collections.namedtuple('Entry', 'label fn kind clipsets b2d unit_power floats_conds')
# kind: 'whole' (a reduction over ~1e6 / ~1e5..1e6 pixels), 'axis' (reductions along one image axis, length ~1e3),
#       'pixel' (element-wise: no reduction)
# clipsets: names of the pixel sets the entry sigma-clips (ties there make it ambiguous in float32), () if none
# b2d: Background2D (integer input: integer-typed, i.e. rounded, output is documented)
# unit_power: for the Quantity representations, the power of the data unit the output must carry (None: not run)
GROUPS = collections.OrderedDict()


def _add(group, label, fn, kind='whole', clipsets=(), b2d=False, unit_power=None, nan=True):
    GROUPS.setdefault(group, []).append(Entry('large/' + label, fn, kind, tuple(clipsets), b2d, unit_power, nan))


def _build():
    STAT_FUNCS = ('nansum', 'nanmean', 'nanmedian', 'nanstd', 'nanvar', 'nanmin', 'nanmax')
    for fn in STAT_FUNCS:
        for axis in (None, 0, 1, (0, 1)):
            def f(env, fn=fn, axis=axis):
                from photutils.utils import _stats
                return getattr(_stats, fn)(env.data, axis=axis)
            _add('stats', f'_stats.{fn}[axis={axis}]'.replace(' ', ''), f, kind='axis' if axis in (0, 1) else 'whole',
                 unit_power=2 if fn == 'nanvar' else 1)

    BKG = ('MeanBackground', 'MedianBackground', 'ModeEstimatorBackground', 'MMMBackground', 'SExtractorBackground',
           'BiweightLocationBackground', 'StdBackgroundRMS', 'MADStdBackgroundRMS', 'BiweightScaleBackgroundRMS')
    for cls in BKG:
        # sigma clipping only for the whole image: along an axis there are ~1000 samples x 2 bounds, a tie somewhere is likely
        for clip, axis in ((False, None), (True, None), (False, 0), (False, 1)):
            def f(env, cls=cls, clip=clip, axis=axis):
                import photutils.background as B
                return getattr(B, cls)(sigma_clip=env.clip() if clip else None)(env.data, axis=axis)
            _add('estimators', f'{cls}[{"sigclip" if clip else "noclip"},axis={axis}]', f, kind='whole' if axis is None else 'axis',
                 clipsets=('image',) if clip else ())

    def thr(env, masked):
        from photutils.segmentation import detect_threshold
        return detect_threshold(env.data, 3.0, mask=env.mask if masked else None, sigma_clip=env.clip())
    _add('background2d', 'detect_threshold[mask=None]', lambda env: thr(env, False), clipsets=('image',))
    _add('background2d', 'detect_threshold[mask]', lambda env: thr(env, True), clipsets=('unmasked',))

    def b2d(env, box, clip, mean):
        import photutils.background as B
        kw = {}
        if mean:
            kw = {'bkg_estimator': B.MeanBackground(sigma_clip=None), 'bkgrms_estimator': B.StdBackgroundRMS(sigma_clip=None)}
        b = B.Background2D(env.data, box, filter_size=1, sigma_clip=env.clip() if clip else None, **kw)
        return collections.OrderedDict((n, getattr(b, n)) for n in ('background_median', 'background_rms_median', 'background_mesh',
                                                                  'background_rms_mesh', 'background', 'background_rms'))
    half = (SHAPE[0] // 2, SHAPE[1])
    _add('background2d', 'Background2D[box=image,noclip,mean/std]', lambda env: b2d(env, SHAPE, False, True), b2d=True)
    _add('background2d', 'Background2D[box=image,sigclip]', lambda env: b2d(env, SHAPE, True, False), b2d=True, clipsets=('image',))
    _add('background2d', 'Background2D[box=half,noclip]', lambda env: b2d(env, half, False, False), b2d=True)
    _add('background2d', 'Background2D[box=half,sigclip]', lambda env: b2d(env, half, True, False), b2d=True,
         clipsets=('top', 'bottom'))

    def total_error(env):
        from photutils.utils import calc_total_error
        return calc_total_error(env.data, env.error, GAIN)
    _add('sums', 'calc_total_error', total_error, kind='pixel', nan=False)

    def com(env):
        from photutils.centroids import centroid_com
        return centroid_com(env.data)
    _add('sums', 'centroid_com', com, nan=False)

    for method in ('exact', 'center', 'subpixel'):
        def f(env, method=method):
            from photutils.aperture import CircularAperture, aperture_photometry
            t = aperture_photometry(env.data, CircularAperture(*APERTURE), error=env.error, method=method)
            return {'aperture_sum': t['aperture_sum'], 'aperture_sum_err': t['aperture_sum_err']}
        _add('sums', f'aperture_photometry[{method}]', f, nan=False)

    AP_PROPS = ('sum', 'sum_err', 'mean', 'median', 'mode', 'std', 'mad_std', 'var', 'biweight_location', 'biweight_midvariance',
                'min', 'max', 'centroid', 'covariance', 'sum_aper_area', 'center_aper_area')

    def apstats(env, sum_method):
        from photutils.aperture import ApertureStats, CircularAperture
        s = ApertureStats(env.data, CircularAperture(*APERTURE), error=env.error, sigma_clip=None, sum_method=sum_method)
        return collections.OrderedDict((n, getattr(s, n)) for n in AP_PROPS)
    _add('sums', 'ApertureStats[exact]', lambda env: apstats(env, 'exact'), nan=False)
    _add('sums', 'ApertureStats[center]', lambda env: apstats(env, 'center'), nan=False)

    CAT_PROPS = ('segment_flux', 'segment_fluxerr', 'min_value', 'max_value', 'background_sum', 'background_mean', 'centroid',
                 'moments', 'moments_central', 'covariance', 'gini', 'segment_area')

    def catalog(env):
        from photutils.segmentation import SegmentationImage, SourceCatalog
        seg = np.zeros(SHAPE, int)
        seg[SEGMENT] = 1
        seg[SEGMENT2] = 2
        c = SourceCatalog(env.data, SegmentationImage(seg), error=env.error, background=env.error)
        return collections.OrderedDict((n, getattr(c, n)) for n in CAT_PROPS)
    _add('sums', 'SourceCatalog[large segment]', catalog, nan=False)

    def profile(env, cls):
        import photutils.profiles as P
        edges = np.array(PROFILE_EDGES)
        p = getattr(P, cls)(env.data, APERTURE[0], edges if cls == 'RadialProfile' else edges[1:], error=env.error)
        return collections.OrderedDict((n, getattr(p, n)) for n in ('profile', 'profile_error', 'area'))
    _add('sums', 'RadialProfile', lambda env: profile(env, 'RadialProfile'), nan=False)
    _add('sums', 'CurveOfGrowth', lambda env: profile(env, 'CurveOfGrowth'), nan=False)


_build()
ENTRIES = collections.OrderedDict((e.label, e) for g in GROUPS.values() for e in g)


def reps_of(group, tier='quick'):
    reps = REPS_THOROUGH if tier == 'thorough' else REPS
    return reps + (QUANTITY_REPS if group == 'stats' else ())


def conds_of(entry, rep):
    return tuple(c for c in CONDS if c == 'clean' or (entry.floats_conds and holds_nan(rep)))


def run_entry(entry, env):
    """-> normalised output (R.norm) or R.Raised."""
    try:
        return R.norm(entry.fn(env))
    except Exception as exc:      # noqa: BLE001 -- judged by the caller
        return R.Raised(exc)
