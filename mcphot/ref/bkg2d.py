"""Plain numpy/Python reference model of the low-resolution mesh of
``photutils.background.Background2D`` (property C11).

Nothing here imports photutils or astropy.  Everything works on the 1-D array
of *good* pixel values of one box (float64), so there is no axis handling, no
NaN bookkeeping and no dispatch to get wrong.
"""
import math
from fractions import Fraction

import numpy as np

MAD_TO_STD = 1.482602218505602      # 1 / Phi^-1(3/4)  (documented constant of mad_std)


# ---------------------------------------------------------------- statistics
def median(v):
    s = sorted(float(x) for x in v)
    n = len(s)
    if n == 0:
        return math.nan
    return s[n // 2] if n % 2 else 0.5 * (s[n // 2 - 1] + s[n // 2])


def mean(v):
    return math.fsum(float(x) for x in v) / len(v)


def std(v):
    m = mean(v)
    return math.sqrt(math.fsum((float(x) - m) ** 2 for x in v) / len(v))


def mad(v):
    m = median(v)
    return median([abs(float(x) - m) for x in v])


def sigma_clip(v, sigma, maxiters, info=None):
    """Documented astropy SigmaClip with cenfunc='median', stdfunc='std':
    repeat {keep median - sigma*std <= x <= median + sigma*std} until nothing is
    rejected or ``maxiters`` iterations were done.

    ``info`` (dict, optional): ``info['margin']`` is lowered to the smallest
    distance |x - bound| between any pixel and any clipping bound that was
    evaluated (every iteration, including the last one that rejects nothing):
    the keep/reject decisions are stable under perturbations of the bounds
    smaller than that.  A sample of EQUAL values (in particular of one value)
    does not contribute: its median is exactly that value in any arithmetic
    (an element, or 0.5 * (x + x)) and the computed std is some number >= 0, so
    every pixel satisfies median - sigma*std <= x <= median + sigma*std and is
    kept whatever is added to or multiplied with the sample."""
    v = np.asarray(v, dtype=float)
    it = 0
    while v.size and (maxiters is None or it < maxiters):
        it += 1
        c, s = median(v), std(v)
        if info is not None and v.size > 1 and float(np.ptp(v)) > 0:    # equal values: kept at any offset/scale
            m = float(min(np.min(np.abs(v - (c - sigma * s))), np.min(np.abs(v - (c + sigma * s)))))
            info['margin'] = min(info.get('margin', math.inf), m)
        keep = (v >= c - sigma * s) & (v <= c + sigma * s)
        if keep.all():
            break
        v = v[keep]
    return v


def est_mean(v):
    return mean(v)


def est_median(v):
    return median(v)


def est_mode(v):              # ModeEstimatorBackground defaults == MMMBackground
    return 3.0 * median(v) - 2.0 * mean(v)


def est_sextractor(v):
    md, mn, sd = median(v), mean(v), std(v)
    if sd == 0:
        return mn
    if abs(mn - md) / sd >= 0.3:
        return md
    return 2.5 * md - 1.5 * mn


def sextractor_branch_margin(v):
    """| |mean - median| - 0.3 std |: how far (in data units) the sample is from
    the SExtractor estimator's median / 2.5 median - 1.5 mean switch (inf when
    std == 0: one value, where the branch is taken identically at any offset
    or scale)."""
    md, mn, sd = median(v), mean(v), std(v)
    if sd == 0:
        return math.inf
    return abs(abs(mn - md) - 0.3 * sd)


def est_biweight_location(v, c=6.0):
    m = median(v)
    d = [float(x) - m for x in v]
    s = median([abs(x) for x in d])
    if s == 0:
        return m
    num = den = 0.0
    for x in d:
        u = x / (c * s)
        if abs(u) < 1:
            w = (1 - u * u) ** 2
            num += x * w
            den += w
    return m + num / den


def est_std(v):
    return std(v)


def est_madstd(v):
    return MAD_TO_STD * mad(v)


def est_biweight_scale(v, c=9.0):
    m = median(v)
    d = [float(x) - m for x in v]
    s = median([abs(x) for x in d])
    if s == 0:
        return 0.0
    f1 = f2 = 0.0
    for x in d:
        u2 = (x / (c * s)) ** 2
        if u2 < 1:
            f1 += x * x * (1 - u2) ** 4
            f2 += (1 - u2) * (1 - 5 * u2)
    return math.sqrt(len(d) * f1 / (f2 * f2))


BKG = {'Mean': est_mean, 'Median': est_median, 'Mode': est_mode, 'MMM': est_mode,
       'SExtractor': est_sextractor, 'BiweightLocation': est_biweight_location}
RMS = {'Std': est_std, 'MADStd': est_madstd, 'BiweightScale': est_biweight_scale}


# ---------------------------------------------------------------- mesh
def mesh_shape(shape, box, edge):
    ny, nx = shape
    by, bx = box
    if edge == 'pad':
        return -(-ny // by), -(-nx // bx)
    return ny // by, nx // bx


def included(ngood, box_npix, exclude_percentile):
    """Documented rule: a box is excluded when MORE than exclude_percentile
    percent of its (full, padded) pixels are masked; completely masked boxes
    are always excluded.  Exact rational arithmetic.

    -> (included?, on_boundary?)  on_boundary: exactly exclude_percentile
    percent are masked (and the box is not completely masked)."""
    if ngood == 0:
        return False, False
    nmasked = box_npix - ngood
    lhs = Fraction(nmasked * 100)
    rhs = Fraction(exclude_percentile) * box_npix
    return lhs <= rhs, lhs == rhs


def box_class(vals):
    """Degeneracy class of the (clipped) pixel sample of one box:
    'empty', 'constant' (all values equal: std == MAD == 0), 'MAD==0,ptp>0'
    (at least half of the values equal the median, not all), 'MAD>0'."""
    if len(vals) == 0:
        return 'empty'
    if float(np.ptp(vals)) == 0:
        return 'constant'
    return 'MAD==0,ptp>0' if mad(vals) == 0 else 'MAD>0'


def reference_mesh(data, good, box, edge, exclude_percentile, clip, bkg_name, rms_name, classify=False):
    """-> dict with arrays (mesh shape): bkg, rms (NaN where excluded), npix
    (good pixels after clipping), incl (bool), boundary (bool), nclipped, and the
    two scalars that say how well-posed the discontinuous steps are on this
    input: clip_margin (smallest |pixel - clipping bound| over all boxes and
    iterations; inf without clipping) and branch_margin (smallest distance of a
    box from the SExtractor branch switch; inf for the other estimators).
    ``classify``: additionally 'cls' (object array of `box_class` strings of the
    clipped sample of every box)."""
    data = np.asarray(data, dtype=float)
    my, mx = mesh_shape(data.shape, box, edge)
    by, bx = box
    out = {k: np.full((my, mx), np.nan) for k in ('bkg', 'rms')}
    out['npix'] = np.zeros((my, mx), dtype=int)
    out['incl'] = np.zeros((my, mx), dtype=bool)
    out['boundary'] = np.zeros((my, mx), dtype=bool)
    out['nclipped'] = 0
    if classify:
        out['cls'] = np.full((my, mx), 'empty', dtype=object)
    out['clip_margin'] = math.inf
    out['branch_margin'] = math.inf
    info = {}
    for j in range(my):
        for i in range(mx):
            sl = (slice(j * by, (j + 1) * by), slice(i * bx, (i + 1) * bx))   # numpy truncates: the partial box
            vals = data[sl][good[sl]]
            if clip is not None and vals.size:
                kept = sigma_clip(vals, clip[0], clip[1], info)
                out['nclipped'] += vals.size - kept.size
                vals = kept
            out['npix'][j, i] = vals.size
            if classify:
                out['cls'][j, i] = box_class(vals)
            inc, bnd = included(vals.size, by * bx, exclude_percentile)
            out['incl'][j, i] = inc
            out['boundary'][j, i] = bnd
            if vals.size:
                # values are reported for boundary boxes whichever way they are judged
                out['bkg'][j, i] = BKG[bkg_name](vals)
                out['rms'][j, i] = RMS[rms_name](vals)
                if bkg_name == 'SExtractor':
                    out['branch_margin'] = min(out['branch_margin'], sextractor_branch_margin(vals))
    out['clip_margin'] = info.get('margin', math.inf)
    return out


# ---------------------------------------------------------------- degenerate-statistic boxes
def multiset_boxes(letters, npb):
    """Every multiset of m = 0 .. npb values over ``letters`` (ascending
    tuples), ordered by m, then lexicographically: the complete list of
    distinguishable pixel samples of a box of npb pixels whose good pixels
    take values in a finite alphabet (box statistics do not depend on the
    arrangement).  len == C(npb + len(letters), len(letters))."""
    import itertools
    out = []
    for m in range(npb + 1):
        out.extend(itertools.combinations_with_replacement(tuple(letters), m))
    return out


def multiset_image(letters, box, level, quantum, junk):
    """One image holding every box of `multiset_boxes` exactly once.

    Mesh cell number b (row-major, mesh shape = the factorisation my * mx of
    the number of boxes with my <= mx closest to a square) holds multiset
    number b: its m values level + quantum * letter, ascending, are written to
    the row-major box positions (k + b) % npb, k = 0 .. m-1; the other npb - m
    pixels of the box are masked and hold ``junk``.
    -> data (float64), mask (bool), boxes (list of tuples), mesh shape"""
    by, bx = box
    npb = by * bx
    boxes = multiset_boxes(letters, npb)
    n = len(boxes)
    my = max(d for d in range(1, int(math.isqrt(n)) + 1) if n % d == 0)
    mx = n // my
    data = np.full((my * by, mx * bx), float(junk))
    mask = np.ones(data.shape, dtype=bool)
    for b, ms in enumerate(boxes):
        j, i = divmod(b, mx)
        for k, letter in enumerate(ms):
            y, x = divmod((k + b) % npb, bx)
            data[j * by + y, i * bx + x] = level + quantum * letter
            mask[j * by + y, i * bx + x] = False
    return data, mask, boxes, (my, mx)


def median_filter(mesh, decide, fsize, threshold):
    """Documented mesh filter: the median over the in-bounds part of the
    fsize window, applied to every cell (threshold None) or only to the cells
    whose *background* mesh value ``decide`` is larger than ``threshold``."""
    mesh = np.asarray(mesh, dtype=float)
    fy, fx = fsize
    if (fy, fx) == (1, 1):
        return mesh.copy()
    hy, hx = fy // 2, fx // 2
    out = mesh.copy()
    for j in range(mesh.shape[0]):
        for i in range(mesh.shape[1]):
            if threshold is not None and not decide[j, i] > threshold:
                continue
            win = mesh[max(j - hy, 0):j + hy + 1, max(i - hx, 0):i + hx + 1]
            out[j, i] = median(win.ravel())
    return out
