"""C17 helpers for N-dimensional inputs of ``centroid_com`` (documented: *n-dimensional array*, result "in pixel
order (e.g. (x, y) or (x, y, z)), not numpy axis order", i.e. the REVERSED axis order).

Plain Python / numpy only (math.fsum, np.ndindex, np.transpose, slicing); nothing of photutils is imported here.

* ``ref_com_nd``      -- intensity-weighted mean coordinate of the unmasked finite pixels (math.fsum) + rounding bound
* ``signed_perms``    -- the complete symmetry group of the pixel lattice of an N-d box (hyperoctahedral group:
                         every permutation of the axes combined with every subset of flipped axes; 2^N N! elements)
* ``apply_sp / map_sp`` -- action of one group element on an array / on a centroid given in pixel order
* ``make_generic_nd`` / ``make_sym_nd`` / ``excluded_pixels`` -- the inputs of the alphabets
"""
import itertools
import math

import numpy as np

EPS = np.finfo(float).eps


def ref_com_nd(data, mask=None):
    """-> (centroid in PIXEL order (last axis first), tol) or (None, None) when the mean is undefined (no pixel left or
    total 0).  tol bounds the rounding error of any straightforward float64 evaluation of sum(x d) / sum(d):
    n eps (sum|x d| + |c| sum|d|) / |sum d| with n = max(128, number of terms) (recursive-summation bound; numpy's
    pairwise summation is far better), plus 4 eps |c|."""
    data = np.asarray(data)
    idx, ds = [], []
    for i in np.ndindex(*data.shape):
        v = data[i]
        if (mask is not None and mask[i]) or not math.isfinite(v):
            continue
        idx.append(i)
        ds.append(float(v))
    if not ds:
        return None, None
    tot = math.fsum(ds)
    if tot == 0:
        return None, None
    sabs = math.fsum(abs(d) for d in ds)
    n = max(128, len(ds))
    out, tol = [], []
    for ax in range(data.ndim):
        c = math.fsum(i[ax] * d for i, d in zip(idx, ds)) / tot
        m1 = math.fsum(abs(i[ax] * d) for i, d in zip(idx, ds))
        out.append(c)
        tol.append(n * EPS * (m1 + abs(c) * sabs) / abs(tot) + 4 * EPS * abs(c) + 1e-300)
    return np.array(out[::-1]), np.array(tol[::-1])


def signed_perms(ndim):
    """All (perm, flips) of the hyperoctahedral group of rank ndim, identity first, then by number of moved axes
    (simplest first): perm is a tuple for np.transpose, flips a tuple of 0/1 per axis of the TRANSPOSED array."""
    out = []
    for perm in itertools.permutations(range(ndim)):
        for flips in itertools.product((0, 1), repeat=ndim):
            out.append((perm, flips))
    out.sort(key=lambda pf: (sum(1 for k, p in enumerate(pf[0]) if p != k) + sum(pf[1]), pf))
    return out


def sp_type(perm, flips):
    moved = any(p != k for k, p in enumerate(perm))
    if moved and any(flips):
        return 'flip+axes-permutation'
    if moved:
        return 'axes-permutation'
    return 'flip' if any(flips) else 'identity'


def apply_sp(d, perm, flips):
    """e = transpose(d, perm) with the axes k where flips[k] reversed (a contiguous copy)."""
    e = np.transpose(d, perm)
    sl = tuple(slice(None, None, -1) if f else slice(None) for f in flips)
    return np.ascontiguousarray(e[sl])


def map_sp(c_pix, shape, perm, flips):
    """Image of a coordinate tuple given in pixel order (last axis first) of an array of the given shape under
    apply_sp: new axis k carries old axis perm[k]; a flipped axis of length n maps t -> n - 1 - t (exact for
    half-integers, one rounding otherwise)."""
    ndim = len(shape)
    a = list(c_pix)[::-1]                       # numpy axis order
    b = []
    for k in range(ndim):
        t = a[perm[k]]
        b.append((shape[perm[k]] - 1) - t if flips[k] else t)
    return np.array(b[::-1], dtype=float)


# ----------------------------------------------------------------------------
ND_KINDS = ('signed', 'positive', 'blob')
_OFFS = (0.37, -0.21, 0.55, -0.6, 0.13, 0.29)


def make_generic_nd(shape, kind, rng):
    """'signed': normal(0.3, 1) | 'positive': uniform(0.05, 1.05) | 'blob': positive Gaussian blob whose centre is
    displaced from the middle of the box by a DIFFERENT amount along every axis (so no two coordinates of the centre
    of mass agree even for cubes) + 3 % modulation."""
    shape = tuple(int(s) for s in shape)
    if kind == 'signed':
        return rng.normal(0.3, 1.0, size=shape)
    if kind == 'positive':
        return rng.random(shape) + 0.05
    grids = np.meshgrid(*[np.arange(n, dtype=float) for n in shape], indexing='ij')
    e = np.zeros(shape)
    for k, (g, n) in enumerate(zip(grids, shape)):
        c = (n - 1) / 2 + _OFFS[k % len(_OFFS)] * (1 + 0.25 * k)
        e += 0.5 * ((g - c) / (0.22 * n + 0.3 + 0.05 * k)) ** 2
    return 100.0 * np.exp(-e) * (1 + 0.03 * rng.random(shape))


ND_MASKS = ('none', 'mask', 'nan', 'mask+nf')


def excluded_pixels(shape):
    """Four distinct pixels (index tuples) of a box with >= 6 pixels, two for arrays with 3..5 pixels:
    [end of the last axis in the first hyper-row, middle of the first axis in the first hyper-column, and two more]."""
    shape = tuple(shape)
    size = int(np.prod(shape))
    p1 = (0,) * (len(shape) - 1) + (shape[-1] - 1,)
    p2 = (shape[0] // 2,) + (0,) * (len(shape) - 1)
    if len(shape) == 1:
        p2 = (shape[0] // 2,)
    out = [p1]
    if p2 not in out:
        out.append(p2)
    cand = [np.unravel_index(j, shape) for j in (size - 2, size // 2 + 1, 1, 2, size - 1, 0, 3, 4, 5) if 0 <= j < size]
    for c in cand:
        c = tuple(int(t) for t in c)
        if len(out) >= (4 if size >= 6 else 2):
            break
        if c not in out:
            out.append(c)
    return out


def build_masked(d0, mvar):
    """-> (data handed to the function, mask handed to the function or None, mask of ALL excluded pixels or None);
    None when the variant does not fit into the array."""
    shape = d0.shape
    px = excluded_pixels(shape)
    if mvar == 'none':
        return d0, None, None
    d = d0.copy()
    excl = np.zeros(shape, bool)
    excl[px[0]] = True
    excl[px[1]] = True
    if mvar == 'mask':                    # arbitrary values (finite and not) underneath the mask
        d[px[0]] = 1.0e6
        d[px[1]] = np.nan
        return d, excl.copy(), excl
    if mvar == 'nan':                     # the same pixels non-finite instead of masked
        d[px[0]] = np.nan
        d[px[1]] = np.inf
        return d, None, excl
    if len(px) < 4:
        return None
    user = excl.copy()                    # 'mask+nf': finite garbage underneath the mask + two UNMASKED non-finite pixels
    d[px[0]] = 1.0e6
    d[px[1]] = -2.0e3
    d[px[2]] = np.nan
    d[px[3]] = -np.inf
    excl[px[2]] = True
    excl[px[3]] = True
    return d, user, excl


# ----------------------------------------------------------------------------
GARBAGE = (np.nan, np.inf, -1.0e300, 7.25, -3.5, 1.0e5)


def sym_centres_nd(shape):
    """doubled centre coordinates (numpy axis order) on the half-pixel lattice with 1 <= c <= n - 2 on every axis"""
    return list(itertools.product(*[range(2, 2 * n - 3) for n in shape]))


def make_sym_nd(shape, c2, rng, amp=0.3):
    """Generic positive array symmetrised about c2 / 2 (numpy axis order), zero outside the symmetric support, times
    an exactly symmetric envelope -> (data, support)."""
    shape = tuple(int(s) for s in shape)
    a = rng.random(shape)
    grids = np.meshgrid(*[np.arange(n) for n in shape], indexing='ij')
    mirror = [c - g for c, g in zip(c2, grids)]
    sup = np.ones(shape, bool)
    for m, n in zip(mirror, shape):
        sup &= (m >= 0) & (m < n)
    msafe = tuple(np.where(sup, m, 0) for m in mirror)
    s = np.where(sup, 1.0 + amp * (a + a[msafe]), 0.0)
    # envelope from |2p - 2c|^2 (exact integers): exactly symmetric
    r2 = sum((2 * g - c) ** 2 for g, c in zip(grids, c2))
    return s * np.exp(-r2 / 24.0), sup


def mirror_index(i, c2):
    return tuple(int(c - t) for c, t in zip(c2, i))
