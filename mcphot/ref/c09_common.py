"""Shared helpers of the C09 history systems (mcphot/props/c09.py).

* ``state_key(obj_dict, hist)``: canonical key of the COMPLETE instance __dict__ (snapshot.digest after a
  normalisation pass that names numpy dtypes and astropy fitter objects, which the generic digester treats as
  unmergeable).  If something undigestible remains the key falls back on the history itself: such states are
  never merged (over-fine, never unsound) and the key is still reproducible on replay.
* ``CallSystem``: generic explorer system for objects that are *called* repeatedly.  Invariant: the
  observation of every call equals the observation a freshly constructed object makes for that single call;
  a call raises only if the fresh object raises the same exception type for it; the configuration attributes
  never change.  Every call alphabet is expected to contain requests of each EXIT CLASS the class has -- a normal
  result, an empty result (early return: nothing detected / nothing fitted) and a request that raises (on a
  fresh object too) -- because per-call state that is restored on the normal exit only is invisible otherwise;
  ``exit_tag`` names the exit class of an observation, the transitions per exit class are counted
  (``calls_exit_*``: measured, vacuity guard) and a configuration change caused by a non-normal exit gets its
  own violation key (``...:after-<exit>``).
"""
import hashlib
import warnings

import numpy as np

from ..snapshot import digest, diff, short


def _tname(o):
    return type(o).__module__ + '.' + type(o).__qualname__


def norm(x, depth=0, drop=(), public=False):
    """Normalisation pass in front of snapshot.digest (see module docstring).  ``public``: keep only the
    public attributes (no leading underscore) of helper objects -- used for configuration snapshots, where
    bookkeeping such as SigmaClip._niterations is not part of what the user configured."""
    if depth > 10:
        return x
    if isinstance(x, np.dtype):
        return ('dtype', x.str)
    if isinstance(x, dict):
        return {k: norm(v, depth + 1, public=public) for k, v in x.items() if k not in drop}
    if isinstance(x, (list, tuple)) and not hasattr(x, '_fields'):
        return type(x)(norm(v, depth + 1, public=public) for v in x)
    t = _tname(x)
    if t.startswith('astropy.modeling.fitting.') or t.startswith('astropy.modeling.optimizers.'):
        # fitter objects: the explored classes only read .fit_info straight after their own fit
        return ('fitter', t)
    if t.startswith('scipy.interpolate.'):
        # spline objects are immutable functions of the arrays they were built from
        tck = getattr(x, 'tck', None)
        return ('spline', t, norm(tck, depth + 1) if tck is not None else None, getattr(x, 'degrees', None))
    if t.startswith(('photutils.', 'astropy.stats.')) and hasattr(x, '__dict__'):
        try:
            from astropy.modeling import Model
            if isinstance(x, Model):
                extra = {k: norm(v, depth + 1) for k, v in vars(x).items()
                         if k in ('_interpolator', '_oversampling', 'origin', '_interp_xyidx')}
                return ('model+', x, extra) if extra else x
        except Exception:  # pragma: no cover
            pass
        dd = {k: v for k, v in vars(x).items() if not (public and str(k).startswith('_'))}
        return ('obj', t, norm(dd, depth + 1, public=public))
    return x


def state_key(obj_dict, hist, drop=()):
    d = digest(norm(dict(obj_dict), drop=drop))
    r = repr(d)
    if '<unmergeable' in r:
        r = 'HIST:' + repr(tuple(hist))
    return hashlib.blake2b(r.encode(), digest_size=12).hexdigest()


def dig(x):
    """Reproducible digest string of one configuration value (public attributes of helper objects only)."""
    return hashlib.blake2b(repr(digest(norm(x, public=True))).encode(), digest_size=10).hexdigest()


class St:
    """Explorer state: the real object, the history that produced it, anything the system wants to carry."""

    def __init__(self, obj):
        self.obj = obj
        self.hist = []
        self.aux = {}


class Raised:
    """Observation 'the request raised' (compared by exception type only)."""

    def __init__(self, exc):
        self.type = type(exc).__name__
        self.msg = str(exc)[:200]

    def __repr__(self):
        return f'<raised {self.type}: {self.msg}>'


def observe(fn):
    with warnings.catch_warnings():
        warnings.simplefilter('ignore')
        try:
            return fn()
        except Exception as e:  # photutils exceptions never escape: they are observations
            return Raised(e)


def compare(obs, exp, rtol=0.0, atol=0.0):
    """None if the observation equals the fresh one, else a description.  (clause, text)"""
    if isinstance(exp, Raised) or isinstance(obs, Raised):
        if isinstance(exp, Raised) and isinstance(obs, Raised):
            if exp.type == obs.type:
                return None
            return ('raises-differently', f'{obs!r} vs fresh {exp!r}')
        if isinstance(obs, Raised):
            return ('raises', f'{obs!r}; a fresh object answers the same request normally')
        return ('fresh-raises-only', f'a fresh object raises {exp!r} for this request, the used one answered')
    d = diff(obs, exp, rtol=rtol, atol=atol)
    if d:
        return ('differs-from-fresh', d)
    return None


def tally_fresh(system, exp, expected_invalid, what):
    """Vacuity accounting: a request that raises on a FRESH object is not a history question (documented
    validation -> counted as skipped; anything else -> also put in the evidence notes), but it must not be
    counted as an exercised comparison."""
    if isinstance(exp, Raised):
        c = system.counters
        if expected_invalid:
            c['validation_error_calls'] = c.get('validation_error_calls', 0) + 1
        else:
            c['unexpected_fresh_raises'] = c.get('unexpected_fresh_raises', 0) + 1
            system.fresh_raise_notes = getattr(system, 'fresh_raise_notes', set())
            system.fresh_raise_notes.add(f'{system.name}: fresh object raises {exp!r} for request {what}')


class CallSystem:
    """Generic system: an object constructed by ``make()`` and driven by ``calls()``.

    Sub-classes provide  name, make(), calls(), do(obj, op) -> observation, config(obj) -> {attr: value},
    optionally rtol/atol, canon_drop.
    """
    name = '?'
    rtol = 0.0
    atol = 0.0
    canon_drop = ()

    def __init__(self):
        self._fresh = {}
        self._cfg0 = None
        self.counters = {'validation_error_calls': 0, 'calls': 0}

    # ---- to be provided -------------------------------------------------
    def make(self):
        raise NotImplementedError

    def calls(self):
        raise NotImplementedError

    def do(self, obj, op):
        raise NotImplementedError

    def config(self, obj):
        return {}

    # ---- explorer interface ---------------------------------------------
    def initial(self):
        st = St(self.make())
        if self._cfg0 is None:
            self._cfg0 = {k: dig(v) for k, v in self.config(st.obj).items()}
        return st

    def ops(self, st):
        return self.calls()

    def canon(self, st):
        return state_key(vars(st.obj), st.hist, drop=self.canon_drop)

    def fresh(self, op):
        k = repr(op)
        if k not in self._fresh:
            obj = self.make()
            self._fresh[k] = observe(lambda: self.do(obj, op))
        return self._fresh[k]

    def dirty(self, obj):
        now = {k: dig(v) for k, v in self.config(obj).items()}
        return sorted(k for k in now if now[k] != self._cfg0.get(k))

    def site(self, op, dirty_before):
        tag = ('dirty=' + ','.join(dirty_before)) if dirty_before else 'clean-config'
        return f'{self.name}.{self.opname(op)}:{tag}'

    def opname(self, op):
        return str(op[0])

    def expected_invalid(self, op):
        """True for requests of the alphabet that are documented validation errors on any object"""
        return False

    def owner(self, attr):
        """class that owns configuration attribute ``attr`` (site of a config-changed violation)"""
        return self.name

    def is_empty(self, op, obs):
        """True if the (non-raising) observation is the class's 'nothing found / nothing fitted' early return"""
        return obs is None

    def exit_tag(self, op, obs):
        """exit class of one executed request: '' (normal result), 'raised' or 'empty-result' (sub-classes may
        name the early-return path more precisely)"""
        if isinstance(obs, Raised):
            return 'raised'
        return 'empty-result' if self.is_empty(op, obs) else ''

    def apply(self, st, op, report):
        op = tuple(op) if isinstance(op, list) else op
        dirty_before = self.dirty(st.obj)
        obs = observe(lambda: self.do(st.obj, op))
        st.hist.append(op)
        exp = self.fresh(op)
        self.counters['calls'] += 1
        tally_fresh(self, exp, self.expected_invalid(op), op)
        # exit class measured on the FRESH object (what the request does when nothing came before it)
        tag = self.exit_tag(op, exp)
        ck = 'calls_exit_' + (tag or 'normal')
        self.counters[ck] = self.counters.get(ck, 0) + 1
        if len(st.hist) >= 2:
            ptag = st.aux.get('prev_exit', '')
            if ptag:        # a request executed straight after a request that left by an exceptional exit
                ck = 'calls_straight_after_exit_' + ptag
                self.counters[ck] = self.counters.get(ck, 0) + 1
        st.aux['prev_exit'] = tag
        c = compare(obs, exp, self.rtol, self.atol)
        if c:
            report('call-' + c[0], self.site(op, dirty_before), short(obs, 300), short(exp, 300), c[1])
        otag = self.exit_tag(op, obs)
        for k in self.dirty(st.obj):
            if k not in dirty_before:
                report('config-changed', f'{self.owner(k)}.{k}' + (f':after-{otag}' if otag else ''),
                       short(self.config(st.obj)[k], 200), 'the value given to the constructor',
                       f'{self.opname(op)} changed the configuration attribute {k!r} of the instance'
                       + (f' (the call left by its {otag!r} exit)' if otag else ''))
        return True

    def invariant(self, st, report):
        # every request of the alphabet is checked, each on its own replay of this state, by the transitions
        # leaving the state, and apply() reports a configuration change at the request that causes it
        return

    def nontrivial(self, hist):
        return len(hist) >= 2

    def outcome(self, st):
        return self.canon(st)
