"""Boring reference models for C12 (PSF photometry bookkeeping).

Only numpy / math / itertools.  Nothing here imports photutils, scipy or astropy.
"""
import itertools
import math

import numpy as np


def set_partitions(n):
    """All set partitions of range(n) as restricted-growth strings
    (block index per element, first appearance order); Bell(n) of them,
    the one-block partition first, the all-singletons partition last."""
    def rec(prefix, nblocks):
        if len(prefix) == n:
            yield tuple(prefix)
            return
        for b in range(nblocks + 1):
            yield from rec(prefix + [b], max(nblocks, b + 1))
    if n == 0:
        return [()]
    return list(rec([0], 1))


BELL = {0: 1, 1: 1, 2: 2, 3: 5, 4: 15, 5: 52}


def single_linkage(x, y, sep):
    """Single-linkage clusters of the points (x, y): two points are linked when
    their Euclidean distance is <= sep.  Returns the block index per point in
    first-appearance order (0-based restricted-growth string).  Union-find."""
    n = len(x)
    parent = list(range(n))

    def find(a):
        while parent[a] != a:
            parent[a] = parent[parent[a]]
            a = parent[a]
        return a

    for i, j in itertools.combinations(range(n), 2):
        if math.hypot(x[i] - x[j], y[i] - y[j]) <= sep:
            ri, rj = find(i), find(j)
            if ri != rj:
                parent[max(ri, rj)] = min(ri, rj)
    seen = {}
    out = []
    for i in range(n):
        r = find(i)
        if r not in seen:
            seen[r] = len(seen)
        out.append(seen[r])
    return tuple(out)


def linkage_candidates(x, y, sep, eps=1e-9):
    """Set of admissible groupings: a pair whose distance equals ``sep`` to
    within ``eps`` may be counted either way (soundness rule 1), so the
    clusterings at sep - eps and sep + eps are both accepted."""
    return {single_linkage(x, y, sep - eps), single_linkage(x, y, sep + eps)}


def first_appearance(labels):
    """Arbitrary hashable labels -> restricted-growth string."""
    seen = {}
    out = []
    for v in labels:
        if v not in seen:
            seen[v] = len(seen)
        out.append(seen[v])
    return tuple(out)


def centre_pixels(v):
    """Admissible index/indices of the pixel that contains coordinate ``v``
    (pixel i spans [i - 0.5, i + 0.5]); a coordinate within 1e-9 of a pixel
    boundary admits both neighbours (rule 1)."""
    lo = math.floor(v + 0.5 - 1e-9)
    hi = math.floor(v + 0.5 + 1e-9)
    return sorted({lo, hi})


def box_pixels(xinit, yinit, fit_shape, img_shape, badmask, cx=None, cy=None):
    """Pixels (list of (y, x)) of the fit box of odd shape ``fit_shape`` =
    (ny, nx) centred on the pixel containing (xinit, yinit), inside the image
    and not in ``badmask`` (2-D bool array or None).  Also returns the centre."""
    ny, nx = fit_shape
    if cx is None:
        cx = centre_pixels(xinit)[0]
    if cy is None:
        cy = centre_pixels(yinit)[0]
    pix = []
    for yy in range(cy - (ny - 1) // 2, cy + (ny - 1) // 2 + 1):
        for xx in range(cx - (nx - 1) // 2, cx + (nx - 1) // 2 + 1):
            if 0 <= yy < img_shape[0] and 0 <= xx < img_shape[1]:
                if badmask is None or not badmask[yy, xx]:
                    pix.append((yy, xx))
    return pix, (cy, cx)


def lsq_param_errors(resid_fn, params, absolute_sigma, h=1e-6):
    """Standard least-squares parameter errors at ``params`` for the residual
    vector function ``resid_fn`` (already divided by the pixel errors, if any):
    sqrt(diag(inv(J^T J))) when the pixel errors are given (absolute sigmas), else
    sqrt(diag( inv(J^T J) * sum(r^2) / (npix - nparam) )); J by central differences."""
    p0 = np.asarray(params, float)
    r0 = resid_fn(p0)
    jac = np.empty((len(r0), len(p0)))
    for k in range(len(p0)):
        dp = np.zeros_like(p0)
        dp[k] = h * max(1.0, abs(p0[k]))
        jac[:, k] = (resid_fn(p0 + dp) - resid_fn(p0 - dp)) / (2 * dp[k])
    cov = np.linalg.inv(jac.T @ jac)
    if not absolute_sigma:
        cov = cov * (r0 @ r0) / (len(r0) - len(p0))
    return np.sqrt(np.diag(cov))


# the 8 symmetries of a rectangle acting on a scene: flips first, then (names starting with 't') the transposition,
# which swaps the image orientation (wide <-> tall).  Identity first (simplest first).
FRAMES = ['id', 'fx', 'fy', 'r180', 't', 'tfx', 'tfy', 'tr180']


def frame_shape(frame, shape):
    """Image shape (ny, nx) after the symmetry ``frame``."""
    return (shape[1], shape[0]) if frame.startswith('t') else (shape[0], shape[1])


def frame_point(frame, x, y, shape):
    """Pixel coordinates of the point (x, y) of an image of ``shape`` = (ny, nx) after the symmetry."""
    ny, nx = shape
    flip = frame[1:] if frame.startswith('t') else frame
    if flip in ('fx', 'r180'):
        x = (nx - 1) - x
    if flip in ('fy', 'r180'):
        y = (ny - 1) - y
    return (y, x) if frame.startswith('t') else (x, y)


def frame_array(frame, a):
    """The image array after the symmetry (``a_new[y_new, x_new] == a[y, x]``)."""
    flip = frame[1:] if frame.startswith('t') else frame
    if flip in ('fx', 'r180'):
        a = a[:, ::-1]
    if flip in ('fy', 'r180'):
        a = a[::-1, :]
    if frame.startswith('t'):
        a = a.T
    return np.ascontiguousarray(a)
