"""Reference definitions of the SourceCatalog measurements (C07).

Plain Python (``math`` only, no numpy reductions, no photutils, no scipy):
every quantity is evaluated from its *documented* definition on the pixels
carrying one label.  Arrays are passed as nested lists (``arr[y][x]``).

Definitions used (photutils/segmentation/catalog.py docstrings):

* S  = pixels with the label (raster order); bounding box = min/max of S
  (``segment_area = |S|``; the box ignores masks).
* P  = pixels of S that are not masked by the input mask and whose ``data``
  value is finite.  ``segment_flux = sum data[P]``, ``segment_fluxerr =
  sqrt(sum error[P]**2)``, ``area = |P|`` (NaN when P is empty),
  ``min_value/max_value`` and their first-occurrence (raster order) indices,
  ``background_sum/mean`` over P.  P empty -> NaN.
* moment image W: the *convolved* data (= data when no convolved_data was
  given) on the bounding-box cutout, with pixels outside S, masked pixels,
  non-finite convolved values and negative convolved values set to zero
  (``_moment_data_cutouts`` docstring).  Raw moments M[p][q] = sum y**p x**q W
  in cutout coordinates, cutout centroid (M01/M00, M10/M00), centroid = cutout
  centroid + box origin, central moments mu[p][q] about the cutout centroid,
  covariance [[mu02, mu11], [mu11, mu20]]/mu00 with SourceExtractor's 1/12
  regularisation (det < 0 -> NaN; while det < 1/144 add 1/12 to the diagonal),
  eigenvalues (descending), semi-axes = sqrt(eigenvalues), orientation =
  atan2(2 sxy, sx2 - sy2)/2, eccentricity, elongation, ellipticity, fwhm,
  cxx/cyy/cxy, inertia tensor.
* background_centroid = bilinear interpolation of the background image at the
  centroid (x, y), positions clamped to the image ("nearest").
"""
import math

NAN = float('nan')
DELTA = 1.0 / 12


def isfinite(v):
    return not (math.isnan(v) or math.isinf(v))


def bilinear(img, x, y):
    """Bilinear interpolation of img (nested list, img[y][x]) at (x, y);
    coordinates outside the image are clamped to the border ('nearest')."""
    ny, nx = len(img), len(img[0])
    x = min(max(x, 0.0), nx - 1.0)
    y = min(max(y, 0.0), ny - 1.0)
    x0 = min(int(math.floor(x)), nx - 1)
    y0 = min(int(math.floor(y)), ny - 1)
    x1 = min(x0 + 1, nx - 1)
    y1 = min(y0 + 1, ny - 1)
    fx, fy = x - x0, y - y0
    return ((1 - fy) * ((1 - fx) * img[y0][x0] + fx * img[y0][x1])
            + fy * ((1 - fx) * img[y1][x0] + fx * img[y1][x1]))


def moment_block(W, x0, y0):
    """All moment-derived quantities of the moment image W given as a list of
    (y, x, w) in *cutout* coordinates with w >= 0; (x0, y0) = box origin."""
    out = {}
    M = [[math.fsum((y ** p) * (x ** q) * w for (y, x, w) in W) for q in range(4)] for p in range(4)]
    out['moments'] = M
    m00 = M[0][0]
    if not m00 > 0:
        # empty / all-zero moment image: 0/0 -> every derived quantity is NaN
        out['degenerate'] = True
        nan4 = [[NAN] * 4 for _ in range(4)]
        out.update(cutout_centroid=(NAN, NAN), centroid=(NAN, NAN), moments_central=nan4,
                   covariance=[[NAN, NAN], [NAN, NAN]], eigvals=(NAN, NAN), semimajor_sigma=NAN,
                   semiminor_sigma=NAN, orientation=NAN, eccentricity=NAN, elongation=NAN,
                   ellipticity=NAN, fwhm=NAN, cxx=NAN, cyy=NAN, cxy=NAN, det_raw=NAN,
                   inertia_tensor=[[NAN, NAN], [NAN, NAN]], orientation_defined=False, det_ambiguous=False)
        # moments_central about a NaN centre: (x - NaN)**0 == 1, so the [0][0]
        # element is the plain sum (== 0 here); the property does not speak about it
        return out
    out['degenerate'] = False
    cx, cy = M[0][1] / m00, M[1][0] / m00
    out['cutout_centroid'] = (cx, cy)
    out['centroid'] = (cx + x0, cy + y0)
    mu = [[math.fsum(((y - cy) ** p) * ((x - cx) ** q) * w for (y, x, w) in W) for q in range(4)] for p in range(4)]
    out['moments_central'] = mu
    out['inertia_tensor'] = [[mu[0][2], -mu[1][1]], [-mu[1][1], mu[2][0]]]
    a, b, d = mu[0][2] / mu[0][0], mu[1][1] / mu[0][0], mu[2][0] / mu[0][0]
    det = a * d - b * b
    out['det_raw'] = det
    # |det| at rounding level (collinear pixels: det == 0 in exact arithmetic).  The
    # implementation's sign of such a det is rounding noise: both the NaN branch
    # (det < 0) and the regularised branch are accepted there (soundness rule 1).
    scale = abs(a * d) + b * b
    out['det_ambiguous'] = abs(det) <= 1e-12 * scale and scale > 0
    # boundary of the regularisation threshold (measure zero for generic data)
    out['thr_ambiguous'] = abs(det - DELTA * DELTA) <= 1e-12
    if det < 0 and not out['det_ambiguous']:
        a = b = d = NAN
    else:
        if out['det_ambiguous']:
            det = 0.0
        n = 0
        while det < DELTA * DELTA and n < 10:
            a += DELTA
            d += DELTA
            det = a * d - b * b
            n += 1
    out['covariance'] = [[a, b], [b, d]]
    if math.isnan(a):
        out.update(eigvals=(NAN, NAN), semimajor_sigma=NAN, semiminor_sigma=NAN, orientation=NAN,
                   eccentricity=NAN, elongation=NAN, ellipticity=NAN, fwhm=NAN, cxx=NAN, cyy=NAN, cxy=NAN,
                   orientation_defined=False)
        return out
    half = 0.5 * (a + d)
    rad = math.sqrt((0.5 * (a - d)) ** 2 + b * b)
    l1, l2 = half + rad, half - rad
    out['eigvals'] = (l1, l2)
    smaj, smin = math.sqrt(l1), math.sqrt(max(l2, 0.0))
    out['semimajor_sigma'], out['semiminor_sigma'] = smaj, smin
    theta = 0.5 * math.atan2(2.0 * b, a - d)
    out['orientation'] = math.degrees(theta)
    # the major axis is defined only when the eigenvalues differ
    out['orientation_defined'] = rad > 1e-9 * half
    out['eccentricity'] = math.sqrt(max(0.0, 1.0 - l2 / l1))
    out['elongation'] = smaj / smin
    out['ellipticity'] = 1.0 - smin / smaj
    out['fwhm'] = 2.0 * math.sqrt(math.log(2.0) * (l1 + l2))
    c, s = math.cos(theta), math.sin(theta)
    out['cxx'] = (c / smaj) ** 2 + (s / smin) ** 2
    out['cyy'] = (s / smaj) ** 2 + (c / smin) ** 2
    out['cxy'] = 2.0 * c * s * (1.0 / l1 - 1.0 / l2)
    return out


def ref_row(label, seg, data, mask=None, error=None, background=None, conv=None):
    """Expected measurements of one label.  All images are nested lists
    (img[y][x]); mask/error/background/conv may be None."""
    ny, nx = len(seg), len(seg[0])
    S = [(y, x) for y in range(ny) for x in range(nx) if seg[y][x] == label]
    if not S:
        raise ValueError('label not in the segmentation image')
    ys = [p[0] for p in S]
    xs = [p[1] for p in S]
    ymin, ymax, xmin, xmax = min(ys), max(ys), min(xs), max(xs)
    r = {'label': label, 'segment_area': len(S), 'bbox_xmin': xmin, 'bbox_xmax': xmax,
         'bbox_ymin': ymin, 'bbox_ymax': ymax}
    P = [(y, x) for (y, x) in S if isfinite(data[y][x]) and not (mask is not None and mask[y][x])]
    r['P'] = P
    r['npix'] = len(P)
    r['shared_box'] = any(seg[y][x] not in (0, label) for y in range(ymin, ymax + 1) for x in range(xmin, xmax + 1))
    if P:
        vals = [data[y][x] for (y, x) in P]
        r['segment_flux'] = math.fsum(vals)
        r['sum_abs'] = math.fsum(abs(v) for v in vals)
        r['area'] = float(len(P))
        vmin, vmax = min(vals), max(vals)
        r['min_value'], r['max_value'] = vmin, vmax
        imin = next(p for p, v in zip(P, vals) if v == vmin)      # first occurrence, raster order
        imax = next(p for p, v in zip(P, vals) if v == vmax)
        r['minval_index'], r['maxval_index'] = imin, imax
        r['cutout_minval_index'] = (imin[0] - ymin, imin[1] - xmin)
        r['cutout_maxval_index'] = (imax[0] - ymin, imax[1] - xmin)
        r['segment_fluxerr'] = (math.sqrt(math.fsum(error[y][x] ** 2 for (y, x) in P))
                                if error is not None else NAN)
        if background is not None:
            bs = math.fsum(background[y][x] for (y, x) in P)
            r['background_sum'], r['background_mean'] = bs, bs / len(P)
        else:
            r['background_sum'] = r['background_mean'] = NAN
    else:
        for k in ('segment_flux', 'area', 'min_value', 'max_value', 'segment_fluxerr', 'background_sum',
                  'background_mean'):
            r[k] = NAN
        r['sum_abs'] = 0.0
        for k in ('minval_index', 'maxval_index', 'cutout_minval_index', 'cutout_maxval_index'):
            r[k] = (NAN, NAN)
    cv = conv if conv is not None else data
    W = []
    for (y, x) in S:
        v = cv[y][x]
        if (mask is not None and mask[y][x]) or not isfinite(v) or v < 0:
            continue
        W.append((y - ymin, x - xmin, v))
    r['moment'] = moment_block(W, xmin, ymin)
    return r


def background_at_centroid(background, centroid):
    if background is None:
        return NAN
    x, y = centroid
    if not (isfinite(x) and isfinite(y)):
        return NAN
    return bilinear(background, x, y)
