"""Reference definitions of the SourceCatalog measurements (C07).

Plain Python (``math`` only, no numpy reductions, no photutils, no scipy):
every quantity is evaluated from its *documented* definition on the pixels
carrying one label.  Arrays are passed as nested lists (``arr[y][x]``).

Definitions used (photutils/segmentation/catalog.py docstrings):

* S  = pixels with the label (raster order); bounding box = min/max of S
  (``segment_area = |S|``; the box ignores masks).
* P  = pixels of S that are not masked by the input mask and whose ``data``
  value is finite.  ``segment_flux = sum data[P]``, ``segment_fluxerr =
  sqrt(sum error[P]**2)``, ``area = |P|`` (NaN when P is empty),
  ``min_value/max_value`` and their first-occurrence (raster order) indices,
  ``background_sum/mean`` over P.  P empty -> NaN.
* moment image W: the *convolved* data (= data when no convolved_data was
  given) on the bounding-box cutout, with pixels outside S, masked pixels,
  non-finite convolved values and negative convolved values set to zero
  (``_moment_data_cutouts`` docstring).  Raw moments M[p][q] = sum y**p x**q W
  in cutout coordinates, cutout centroid (M01/M00, M10/M00), centroid = cutout
  centroid + box origin, central moments mu[p][q] about the cutout centroid,
  covariance [[mu02, mu11], [mu11, mu20]]/mu00 with SourceExtractor's 1/12
  regularisation (det < 0 -> NaN; while det < 1/144 add 1/12 to the diagonal),
  eigenvalues (descending), semi-axes = sqrt(eigenvalues), orientation =
  atan2(2 sxy, sx2 - sy2)/2, eccentricity, elongation, ellipticity, fwhm,
  cxx/cyy/cxy, inertia tensor.
* background_centroid = bilinear interpolation of the background image at the
  centroid (x, y), positions clamped to the image ("nearest").
"""
import math

NAN = float('nan')
DELTA = 1.0 / 12


def isfinite(v):
    return not (math.isnan(v) or math.isinf(v))


def bilinear(img, x, y):
    """Bilinear interpolation of img (nested list, img[y][x]) at (x, y);
    coordinates outside the image are clamped to the border ('nearest')."""
    ny, nx = len(img), len(img[0])
    x = min(max(x, 0.0), nx - 1.0)
    y = min(max(y, 0.0), ny - 1.0)
    x0 = min(int(math.floor(x)), nx - 1)
    y0 = min(int(math.floor(y)), ny - 1)
    x1 = min(x0 + 1, nx - 1)
    y1 = min(y0 + 1, ny - 1)
    fx, fy = x - x0, y - y0
    return ((1 - fy) * ((1 - fx) * img[y0][x0] + fx * img[y0][x1])
            + fy * ((1 - fx) * img[y1][x0] + fx * img[y1][x1]))


def moment_block(W, x0, y0):
    """All moment-derived quantities of the moment image W given as a list of
    (y, x, w) in *cutout* coordinates with w >= 0; (x0, y0) = box origin."""
    out = {}
    M = [[math.fsum((y ** p) * (x ** q) * w for (y, x, w) in W) for q in range(4)] for p in range(4)]
    out['moments'] = M
    m00 = M[0][0]
    if not m00 > 0:
        # empty / all-zero moment image: 0/0 -> every derived quantity is NaN
        out['degenerate'] = True
        nan4 = [[NAN] * 4 for _ in range(4)]
        out.update(cutout_centroid=(NAN, NAN), centroid=(NAN, NAN), moments_central=nan4,
                   covariance=[[NAN, NAN], [NAN, NAN]], eigvals=(NAN, NAN), semimajor_sigma=NAN,
                   semiminor_sigma=NAN, orientation=NAN, eccentricity=NAN, elongation=NAN,
                   ellipticity=NAN, fwhm=NAN, cxx=NAN, cyy=NAN, cxy=NAN, det_raw=NAN,
                   inertia_tensor=[[NAN, NAN], [NAN, NAN]], orientation_defined=False, det_ambiguous=False)
        # moments_central about a NaN centre: (x - NaN)**0 == 1, so the [0][0]
        # element is the plain sum (== 0 here); the property does not speak about it
        return out
    out['degenerate'] = False
    cx, cy = M[0][1] / m00, M[1][0] / m00
    out['cutout_centroid'] = (cx, cy)
    out['centroid'] = (cx + x0, cy + y0)
    mu = [[math.fsum(((y - cy) ** p) * ((x - cx) ** q) * w for (y, x, w) in W) for q in range(4)] for p in range(4)]
    out['moments_central'] = mu
    out['inertia_tensor'] = [[mu[0][2], -mu[1][1]], [-mu[1][1], mu[2][0]]]
    a, b, d = mu[0][2] / mu[0][0], mu[1][1] / mu[0][0], mu[2][0] / mu[0][0]
    det = a * d - b * b
    out['det_raw'] = det
    # |det| at rounding level (collinear pixels: det == 0 in exact arithmetic).  The
    # implementation's sign of such a det is rounding noise: both the NaN branch
    # (det < 0) and the regularised branch are accepted there (soundness rule 1).
    scale = abs(a * d) + b * b
    out['det_ambiguous'] = abs(det) <= 1e-12 * scale and scale > 0
    # boundary of the regularisation threshold (measure zero for generic data)
    out['thr_ambiguous'] = abs(det - DELTA * DELTA) <= 1e-12
    if det < 0 and not out['det_ambiguous']:
        a = b = d = NAN
    else:
        if out['det_ambiguous']:
            det = 0.0
        n = 0
        while det < DELTA * DELTA and n < 10:
            a += DELTA
            d += DELTA
            det = a * d - b * b
            n += 1
    out['covariance'] = [[a, b], [b, d]]
    if math.isnan(a):
        out.update(eigvals=(NAN, NAN), semimajor_sigma=NAN, semiminor_sigma=NAN, orientation=NAN,
                   eccentricity=NAN, elongation=NAN, ellipticity=NAN, fwhm=NAN, cxx=NAN, cyy=NAN, cxy=NAN,
                   orientation_defined=False)
        return out
    half = 0.5 * (a + d)
    rad = math.sqrt((0.5 * (a - d)) ** 2 + b * b)
    l1, l2 = half + rad, half - rad
    out['eigvals'] = (l1, l2)
    smaj, smin = math.sqrt(l1), math.sqrt(max(l2, 0.0))
    out['semimajor_sigma'], out['semiminor_sigma'] = smaj, smin
    theta = 0.5 * math.atan2(2.0 * b, a - d)
    out['orientation'] = math.degrees(theta)
    # the major axis is defined only when the eigenvalues differ
    out['orientation_defined'] = rad > 1e-9 * half
    out['eccentricity'] = math.sqrt(max(0.0, 1.0 - l2 / l1))
    out['elongation'] = smaj / smin
    out['ellipticity'] = 1.0 - smin / smaj
    out['fwhm'] = 2.0 * math.sqrt(math.log(2.0) * (l1 + l2))
    c, s = math.cos(theta), math.sin(theta)
    out['cxx'] = (c / smaj) ** 2 + (s / smin) ** 2
    out['cyy'] = (s / smaj) ** 2 + (c / smin) ** 2
    out['cxy'] = 2.0 * c * s * (1.0 / l1 - 1.0 / l2)
    return out


def ref_row(label, seg, data, mask=None, error=None, background=None, conv=None):
    """Expected measurements of one label.  All images are nested lists
    (img[y][x]); mask/error/background/conv may be None."""
    ny, nx = len(seg), len(seg[0])
    S = [(y, x) for y in range(ny) for x in range(nx) if seg[y][x] == label]
    if not S:
        raise ValueError('label not in the segmentation image')
    ys = [p[0] for p in S]
    xs = [p[1] for p in S]
    ymin, ymax, xmin, xmax = min(ys), max(ys), min(xs), max(xs)
    r = {'label': label, 'segment_area': len(S), 'bbox_xmin': xmin, 'bbox_xmax': xmax,
         'bbox_ymin': ymin, 'bbox_ymax': ymax}
    P = [(y, x) for (y, x) in S if isfinite(data[y][x]) and not (mask is not None and mask[y][x])]
    r['P'] = P
    r['npix'] = len(P)
    r['shared_box'] = any(seg[y][x] not in (0, label) for y in range(ymin, ymax + 1) for x in range(xmin, xmax + 1))
    if P:
        vals = [data[y][x] for (y, x) in P]
        r['segment_flux'] = math.fsum(vals)
        r['sum_abs'] = math.fsum(abs(v) for v in vals)
        r['area'] = float(len(P))
        vmin, vmax = min(vals), max(vals)
        r['min_value'], r['max_value'] = vmin, vmax
        imin = next(p for p, v in zip(P, vals) if v == vmin)      # first occurrence, raster order
        imax = next(p for p, v in zip(P, vals) if v == vmax)
        r['minval_index'], r['maxval_index'] = imin, imax
        r['cutout_minval_index'] = (imin[0] - ymin, imin[1] - xmin)
        r['cutout_maxval_index'] = (imax[0] - ymin, imax[1] - xmin)
        r['segment_fluxerr'] = (math.sqrt(math.fsum(error[y][x] ** 2 for (y, x) in P))
                                if error is not None else NAN)
        if background is not None:
            bs = math.fsum(background[y][x] for (y, x) in P)
            r['background_sum'], r['background_mean'] = bs, bs / len(P)
        else:
            r['background_sum'] = r['background_mean'] = NAN
    else:
        for k in ('segment_flux', 'area', 'min_value', 'max_value', 'segment_fluxerr', 'background_sum',
                  'background_mean'):
            r[k] = NAN
        r['sum_abs'] = 0.0
        for k in ('minval_index', 'maxval_index', 'cutout_minval_index', 'cutout_maxval_index'):
            r[k] = (NAN, NAN)
    cv = conv if conv is not None else data
    W = []
    for (y, x) in S:
        v = cv[y][x]
        if (mask is not None and mask[y][x]) or not isfinite(v) or v < 0:
            continue
        W.append((y - ymin, x - xmin, v))
    r['moment'] = moment_block(W, xmin, ymin)
    return r


def background_at_centroid(background, centroid):
    if background is None:
        return NAN
    x, y = centroid
    if not (isfinite(x) and isfinite(y)):
        return NAN
    return bilinear(background, x, y)


# ------------------------------------------------------------------ local background (localbkg_width > 0)
# Definition (SourceCatalog ``localbkg_width`` / ``_local_background`` docstrings, RectangularAnnulus, SigmaClip
# and SExtractorBackground class documentation):
# * the annulus of a source is the rectangular annulus centred on the centre of the bounding box whose inner
#   rectangle is 1.5 x the bounding box and whose outer rectangle is ``2 * localbkg_width`` wider and higher; a
#   pixel belongs to it when its *centre* lies inside the outer and not inside the inner rectangle;
# * usable pixels: inside the image, not masked by the input mask, finite data value, segmentation label 0;
# * fewer than 10 usable pixels -> 0; otherwise the values are sigma-clipped (3 sigma about the median, population
#   standard deviation, at most 20 iterations) and the SourceExtractor mode estimate of the survivors is taken:
#   2.5 median - 1.5 mean, the median when |mean - median| / std >= 0.3, the mean when std == 0;
# * a completely masked source has local background NaN;
# * segment_flux = sum(data[P]) - |P| * local background, min/max value = min/max(data[P]) - local background.
# A pixel centre exactly ON a rectangle side (bounding-box extent = 2 mod 4) is a tie: all four readings (inner /
# outer rectangle open or closed) are returned; values within 1e-9 of a clipping bound or of the 0.3 threshold
# make the estimate ambiguous (``None`` in the returned list = "cannot be judged").
MIN_LOCALBKG_PIXELS = 10


def annulus_pixels(bbox, width, shape, closed_in=False, closed_out=False):
    """Pixels (y, x) of the image whose centre lies in the rectangular annulus of the bounding box
    (ymin, ymax, xmin, xmax: inclusive pixel indices).  All quantities are multiples of 1/4: exact."""
    ymin, ymax, xmin, xmax = bbox
    xc, yc = 0.5 * (xmin + xmax), 0.5 * (ymin + ymax)
    hxi, hyi = 0.75 * (xmax - xmin + 1), 0.75 * (ymax - ymin + 1)
    hxo, hyo = hxi + width, hyi + width

    def inside(d, h, closed):
        return d <= h if closed else d < h
    out = []
    for y in range(shape[0]):
        for x in range(shape[1]):
            dx, dy = abs(x - xc), abs(y - yc)
            if not (inside(dx, hxo, closed_out) and inside(dy, hyo, closed_out)):
                continue
            if inside(dx, hxi, closed_in) and inside(dy, hyi, closed_in):
                continue
            out.append((y, x))
    return out


def _median(v):
    s = sorted(v)
    n = len(s)
    return s[n // 2] if n % 2 else 0.5 * (s[n // 2 - 1] + s[n // 2])


def _mean_std(v):
    n = len(v)
    mean = math.fsum(v) / n
    return mean, math.sqrt(math.fsum((x - mean) ** 2 for x in v) / n)


def clipped_mode(values, sigma=3.0, maxiters=20, eps=1e-9):
    """-> (estimate or None when a clipping bound / the 0.3 threshold is met within eps, number of clipped values)."""
    v = list(values)
    n0 = len(v)
    for _ in range(maxiters):
        med = _median(v)
        _, std = _mean_std(v)
        lo, hi = med - sigma * std, med + sigma * std
        scale = eps * (1.0 + abs(med) + std)
        if any(abs(x - lo) <= scale or abs(x - hi) <= scale for x in v) and std > 0:
            return None, n0 - len(v)
        keep = [x for x in v if lo <= x <= hi]
        if len(keep) == len(v):
            break
        v = keep
    med = _median(v)
    mean, std = _mean_std(v)
    spread = max(v) - min(v)
    if spread == 0.0:
        return mean, n0 - len(v)
    if std <= 1e-12 * (1.0 + abs(mean)):
        return None, n0 - len(v)          # equal up to rounding: which branch is taken is rounding noise
    q = abs(mean - med) / std
    if abs(q - 0.3) <= eps:
        return None, n0 - len(v)
    return (med if q >= 0.3 else 2.5 * med - 1.5 * mean), n0 - len(v)


def local_background(label, seg, data, mask, width):
    """-> dict(values=[admissible local backgrounds; None = ambiguous], nusable=[...], tie=bool, nclipped=int).
    ``width == 0`` -> exactly 0 (no local background)."""
    ny, nx = len(seg), len(seg[0])
    S = [(y, x) for y in range(ny) for x in range(nx) if seg[y][x] == label]
    ys = [p[0] for p in S]
    xs = [p[1] for p in S]
    bbox = (min(ys), max(ys), min(xs), max(xs))
    if width == 0:
        return {'values': [0.0], 'nusable': [0], 'tie': False, 'nclipped': 0, 'footprint': []}
    seen, vals, nus, nclip = [], [], [], 0
    foot = set()
    for ci in (False, True):
        for co in (False, True):
            pix = annulus_pixels(bbox, width, (ny, nx), ci, co)
            foot.update(pix)
            if pix in seen:
                continue
            seen.append(pix)
            use = [data[y][x] for (y, x) in pix
                   if seg[y][x] == 0 and isfinite(data[y][x]) and not (mask is not None and mask[y][x])]
            nus.append(len(use))
            if len(use) < MIN_LOCALBKG_PIXELS:
                vals.append(0.0)
            else:
                est, k = clipped_mode(use)
                nclip = max(nclip, k)
                vals.append(est)
    return {'values': vals, 'nusable': nus, 'tie': len(seen) > 1, 'nclipped': nclip, 'footprint': sorted(foot)}
