"""C10 recipes for two argument classes the image-centred recipes of
``registry_recipes`` do not enumerate:

* CONTAINER ARGUMENTS -- ``dict`` / ``list`` arguments and the dictionaries a
  caller unpacks into ``**kwargs`` (with the mutable values inside them): the
  callee merges defaults into them, removes the keys it sets itself, appends,
  sorts or converts.  Whether it does so on a copy depends on WHAT is in the
  container, so the *form* of the container is the axis: every subset of its
  optional entries from empty to complete (full product with the neighbouring
  axes: which columns the table has, the container class, the class of the
  nested values), plus forms the call rejects (it raises -- maybe after the merge
  has happened).  Every container is caller-held and snapshotted deeply (keys in
  order, values, nested containers) -- ``CONTAINER_ARGS`` lists callable ->
  arguments -> forms for the evidence.
* STAR GEOMETRIES -- ``EPSFStar`` / ``LinkedEPSFStar`` objects handed to
  ``EPSFFitter`` / ``EPSFBuilder``: the code deep-copies a star before it writes
  the fitted centre / flux / status into it, on every path separately.  Which
  path a star takes depends on where its ``cutout_center`` lies relative to the
  cutout edge and on ``fit_boxsize`` (fit box inside the cutout: fitted; sticking
  out / outside: early exit, flagged), and the builder
  excludes failed stars only after its third iteration.  ``STAR_GEOMS`` x
  ``FIT_BOXSIZES`` x ``STAR_KINDS`` x ``EPSF_ENTRIES`` is enumerated in full.

No expected values here: the oracle is C10's "snapshot before == after".
"""
import collections
import itertools

import numpy as np

from .registry import recipe, SHAPE, XPOS, YPOS

# ------------------------------------------------------------------------------------------------------------------------
# container arguments
# ------------------------------------------------------------------------------------------------------------------------
# callable -> {argument: forms}: what the recipes below enumerate (reported under coverage.container_arguments)
CONTAINER_ARGS = collections.OrderedDict()


def _doc(callable_name, **forms):
    CONTAINER_ARGS.setdefault(callable_name, collections.OrderedDict()).update(forms)


def _subsets(items):
    """Every subset of ``items`` (tuples), smallest first, order kept."""
    out = []
    for n in range(len(items) + 1):
        out += list(itertools.combinations(items, n))
    return out


DICT_CLASSES = collections.OrderedDict([('dict', dict), ('OrderedDict', collections.OrderedDict)])

# make_model_image: model parameter -> column name chosen by the caller
PM_COLUMN = {'x_0': 'xcentroid', 'y_0': 'ycentroid', 'flux': 'flux_f200w', 'fwhm': 'hwhm2'}
PM_VALUES = {'x_0': XPOS, 'y_0': YPOS, 'flux': np.array([9000.0, 7000.0, 6000.0]), 'fwhm': np.array([4.0, 4.5, 5.0])}
# how a parameter reaches the model: listed in params_map (column under the caller's name), column under the parameter's
# own name (default mapping), no column at all (value of the model; positions are required)
# (simplest first: the first form is the empty dictionary with a table that has x_0 and y_0 only)
PM_STATES = collections.OrderedDict([('x_0', ('own', 'mapped')), ('y_0', ('own', 'mapped')), ('flux', ('absent', 'own', 'mapped')),
                                     ('fwhm', ('absent', 'own', 'mapped'))])
PM_REJECTED = (('ok', None), ('key that is no model parameter', ('sigma', 'xcentroid')),
               ('value that is no column', ('fwhm', 'no_such_column')))

_doc('photutils.datasets.make_model_image',
     params_map='full product x_0 {listed, column under its own name} x y_0 {same} x flux {listed, own name, no column} x fwhm '
                '{same}: 36 forms from the empty dict to the complete mapping, x {dict, OrderedDict} x {valid, + a key that is no '
                'model parameter, + a value that is no column (the call raises)}; the table of each form is watched as well')


@recipe('containers[make_model_image params_map]', ['datasets.images.make_model_image'], numeric=False, axes=(), companions=False)
def _params_map_forms(c):
    from astropy.table import QTable
    from photutils.datasets import make_model_image
    from photutils.psf import CircularGaussianPRF
    model = c.hold('model', CircularGaussianPRF(fwhm=4.5))
    names = tuple(PM_STATES)
    for states in itertools.product(*(PM_STATES[n] for n in names)):
        for cname, cls in DICT_CLASSES.items():
            for rname, bad in PM_REJECTED:
                t = QTable()
                pm = cls()
                for n, s in zip(names, states):
                    if s == 'mapped':
                        t[PM_COLUMN[n]] = PM_VALUES[n].copy()
                        pm[n] = PM_COLUMN[n]
                    elif s == 'own':
                        t[n] = PM_VALUES[n].copy()
                if bad is not None:
                    pm[bad[0]] = bad[1]
                pm = c.hold('params_map', pm)
                tt = c.hold('params_table', t)
                lab = 'make_model_image[params_map: %s: %s%s]' % (cname, ', '.join(f'{n} {s}' for n, s in zip(names, states)),
                                                                  '' if bad is None else '; + ' + rname)
                c.step(lab, lambda: make_model_image(SHAPE, model, tt, params_map=pm, model_shape=(9, 9)), keep_output=False)


RANGE_CLASSES = collections.OrderedDict([('list', list), ('tuple', tuple), ('ndarray', np.array)])
RANGES = (('x_0', (5, 40)), ('y_0', (5, 35)), ('flux', (100.0, 1000.0)), ('fwhm', (3.0, 5.0)))

_doc('photutils.datasets.make_random_models_table',
     param_ranges='every subset of the entries {x_0, y_0, flux, fwhm} (empty .. complete: 16) x class of the (lower, upper) values '
                  '{list, tuple, ndarray} x {dict, OrderedDict}')
_doc('photutils.datasets.make_model_params',
     **{'**kwargs': 'dictionary unpacked by the caller: every subset of {fwhm, sigma, theta} (8) x class of the (lower, upper) values '
                    '{list, tuple, ndarray}; flux and border_size in the same class'})
_doc('photutils.psf.make_psf_model_image',
     **{'**kwargs': 'dictionary unpacked by the caller: every subset of the model parameters {x_fwhm, y_fwhm, theta} (8) x class of '
                    'the (lower, upper) values {list, tuple, ndarray}; flux in the same class; + a name that is no model parameter '
                    '(ignored or rejected)'})


@recipe('containers[parameter ranges]', ['datasets.model_params.make_random_models_table', 'datasets.model_params.make_model_params',
                                         'psf.simulation.make_psf_model_image'], numeric=False, axes=(), companions=False)
def _range_forms(c):
    from photutils.datasets import make_model_params, make_random_models_table
    from photutils.psf import GaussianPRF, make_psf_model_image
    for vname, vcls in RANGE_CLASSES.items():
        for sub in _subsets(RANGES):
            for cname, cls in DICT_CLASSES.items():
                ranges = c.hold('param_ranges', cls((k, vcls(v)) for k, v in sub))
                c.step(f'make_random_models_table[param_ranges: {cname} of {vname}: {", ".join(k for k, _ in sub) or "empty"}]',
                       lambda: make_random_models_table(4, ranges, seed=1), keep_output=False)
        for sub in _subsets((('fwhm', (3.0, 5.0)), ('sigma', (1.0, 2.0)), ('theta', (0.0, 1.5)))):
            kw = c.hold('kwargs', {k: vcls(v) for k, v in sub})
            flux = c.hold('flux', vcls((100.0, 1000.0)))
            border = c.hold('border_size', vcls((3, 4)))
            c.step(f'make_model_params[**kwargs of {vname}: {", ".join(kw) or "empty"}]',
                   lambda: make_model_params(SHAPE, 4, flux=flux, border_size=border, seed=1, **kw), keep_output=False)
        psf = c.hold('psf_model', GaussianPRF(flux=1.0, x_fwhm=4.0, y_fwhm=3.0))
        for sub in _subsets((('x_fwhm', (3.0, 5.0)), ('y_fwhm', (2.5, 4.0)), ('theta', (0.0, 60.0)))) + [(('no_such_parameter', (1.0, 2.0)),)]:
            kw = c.hold('kwargs', {k: vcls(v) for k, v in sub})
            flux = c.hold('flux', vcls((100.0, 1000.0)))
            c.step(f'make_psf_model_image[**kwargs of {vname}: {", ".join(kw) or "empty"}]',
                   lambda: make_psf_model_image(SHAPE, psf, 3, model_shape=(9, 9), flux=flux, seed=2, **kw), keep_output=False)


META_KEYS = (('telescope', 'none'), ('grid_xypos', [(1.0, 2.0)]), ('oversampling', [3, 3]), ('fill_value', 7.0))
GRID_XY = ((0, 0), (46, 0), (0, 40), (46, 40))

_doc('photutils.psf.grid_from_epsfs',
     meta='None, and every subset of the keys {telescope (unrelated), grid_xypos, oversampling, fill_value (the three the function '
          'sets itself; list values)} (empty .. complete: 16) x {dict, OrderedDict}',
     epsfs='list of 4 ImagePSF (each model watched) x the meta forms', grid_xypos='{None, list of tuples, list of lists, ndarray} x '
           'meta {None, empty, complete}')


@recipe('containers[grid_from_epsfs]', ['psf.model_helpers.grid_from_epsfs'], numeric=False, axes=(), companions=False)
def _grid_forms(c):
    from photutils.psf import ImagePSF, grid_from_epsfs
    from .registry_recipes import psf_image
    img = psf_image(2)
    eps = c.hold('epsfs', [ImagePSF(img * (1 + 0.01 * i), x_0=x0, y_0=y0, oversampling=2) for i, (x0, y0) in enumerate(GRID_XY)])
    metas = [('None', None)]
    for cname, cls in DICT_CLASSES.items():
        for sub in _subsets(META_KEYS):
            metas.append((f'{cname}: {", ".join(k for k, _ in sub) or "empty"}',
                          cls((k, (list(v) if isinstance(v, list) else v)) for k, v in sub)))
    for mname, meta in metas:
        meta = c.hold('meta', meta)
        c.step(f'grid_from_epsfs[meta: {mname}]', lambda: grid_from_epsfs(eps, meta=meta).data, keep_output=False)
    xy_forms = (('list of tuples', [tuple(map(float, p)) for p in GRID_XY]), ('list of lists', [list(map(float, p)) for p in GRID_XY]),
                ('ndarray', np.array(GRID_XY, dtype=float)))
    for xname, xy in xy_forms:
        for mname, meta in (metas[0], metas[1], metas[16]):
            xy = c.hold('grid_xypos', xy)
            meta = c.hold('meta', None if meta is None else type(meta)(meta))
            c.step(f'grid_from_epsfs[grid_xypos: {xname}; meta: {mname}]', lambda: grid_from_epsfs(eps, grid_xypos=xy, meta=meta).data,
                   keep_output=False)


_doc('photutils.centroids.centroid_sources',
     **{'**kwargs': 'dictionary unpacked by the caller, for centroid_quadratic every subset of {fit_boxsize [5, 5] (list), '
                    'search_boxsize [3, 3] (list), xpeak + ypeak} (8), for centroid_1dg / centroid_2dg {empty, error}; x positions '
                    '{one source, three sources} given as lists'})
_doc('photutils.psf.EPSFFitter', **{'**fitter_kwargs': 'dictionary unpacked by the caller: every subset of {maxiter, acc, weights '
                                                       '(ndarray; a key the class removes), x (list; removed)} (16), constructor only'})
_doc('photutils.aperture.aperture_photometry', apertures='list of 0 (rejected), 1, 2, 3 apertures (pixel apertures of mixed classes)')
_doc('photutils.psf.EPSFStars / LinkedEPSFStar', stars_list='list of 0, 1, 2, 3 EPSFStar objects (LinkedEPSFStar: 1, 2), a list holding '
     'a LinkedEPSFStar; the list and every star watched while the members are read')
_doc('photutils.psf.extract_stars', data='{NDData, [NDData], [NDData, NDData]} x catalogs {Table, [Table], [Table, Table]} (9; the '
     'combinations the function rejects raise)')


@recipe('containers[kwargs and lists]', ['centroids.core.centroid_sources', 'psf.epsf.EPSFFitter', 'aperture.photometry.aperture_photometry',
                                         'psf.epsf_stars.EPSFStars', 'psf.epsf_stars.LinkedEPSFStar', 'psf.epsf_stars.extract_stars'],
        numeric=False, axes=(), companions=False)
def _kwargs_and_lists(c):
    from astropy.nddata import NDData
    from astropy.table import Table
    from photutils.aperture import CircularAnnulus, CircularAperture, RectangularAperture, aperture_photometry
    from photutils.centroids import centroid_1dg, centroid_2dg, centroid_quadratic, centroid_sources
    from photutils.psf import EPSFFitter, EPSFStar, EPSFStars, LinkedEPSFStar, extract_stars
    from .registry_recipes import _wcs
    d = c.hold('data', c.clean() - 20.0)
    e = c.hold('error', c.clean('error'))
    for pname, n in (('one source', 1), ('three sources', 3)):
        x = c.hold('xpos', [float(v) for v in XPOS[:n]])
        y = c.hold('ypos', [float(v) for v in YPOS[:n]])
        for sub in _subsets((('fit_boxsize', [5, 5]), ('search_boxsize', [3, 3]), ('peak', None))):
            kw = {}
            for k, v in sub:
                if k == 'peak':
                    kw['xpeak'], kw['ypeak'] = int(XPOS[0]), int(YPOS[0])
                else:
                    kw[k] = list(v)
            if 'xpeak' in kw and n > 1:
                continue                   # (one peak position for several sources is not a valid call)
            kw = c.hold('kwargs', kw)
            c.step(f'centroid_sources[quadratic; {pname}; **kwargs: {", ".join(kw) or "empty"}]',
                   lambda: centroid_sources(d, x, y, box_size=9, centroid_func=centroid_quadratic, **kw), keep_output=False)
        for fname, fn in (('1dg', centroid_1dg), ('2dg', centroid_2dg)):
            for kw in ({}, {'error': e}):
                kw = c.hold('kwargs', kw)
                c.step(f'centroid_sources[{fname}; {pname}; **kwargs: {", ".join(kw) or "empty"}]',
                       lambda: centroid_sources(d, x, y, box_size=11, centroid_func=fn, **kw), keep_output=False)
    w = c.hold('fit_weights', np.ones((5, 5)))
    for sub in _subsets((('maxiter', 50), ('acc', 1e-6), ('weights', w), ('x', [1.0, 2.0]))):
        kw = c.hold('kwargs', dict(sub))
        c.step(f'EPSFFitter[**fitter_kwargs: {", ".join(kw) or "empty"}]', lambda: EPSFFitter(fit_boxsize=5, **kw).fitter_kwargs,
               keep_output=False)
    pos = [(15.0, 14.0), (31.0, 20.0)]
    all_aps = [CircularAperture(pos, 4.0), CircularAnnulus(pos, 5.0, 8.0), RectangularAperture(pos, 5.0, 3.0, theta=0.4)]
    for n in range(4):
        aps = c.hold('apertures', all_aps[:n])
        c.step(f'aperture_photometry[list of {n} apertures]', lambda: aperture_photometry(d, aps, error=e), keep_output=False)
    wcs = _wcs()

    def star(i, dy=0):
        x0, y0 = int(XPOS[i]) - 5, int(YPOS[i]) - 5 + dy
        return EPSFStar(d[y0:y0 + 11, x0:x0 + 11].copy(), cutout_center=(5.0, 5.0 - dy), origin=(x0, y0), wcs_large=wcs)
    for n in range(4):
        lst = c.hold('stars_list', [star(i) for i in range(n)])
        st = c.step(f'EPSFStars[list of {n} stars]', lambda: EPSFStars(lst), keep_output=False)
        if st is not None:
            c.members(f'EPSFStars[list of {n} stars]', st, only=('all_stars', 'all_good_stars', 'center_flat', 'cutout_center_flat',
                                                                 'n_stars', 'n_all_stars', 'n_good_stars'))
    for n in (1, 2):
        lst = c.hold('stars_list', [star(0, dy) for dy in range(n)])
        lk = c.step(f'LinkedEPSFStar[list of {n} stars]', lambda: LinkedEPSFStar(lst), keep_output=False)
        if lk is not None:
            outer = c.hold('outer_list', [lk, star(1)])
            st = c.step(f'EPSFStars[list holding a LinkedEPSFStar of {n}]', lambda: EPSFStars(outer), keep_output=False)
            if st is not None:
                c.members(f'EPSFStars[list holding a LinkedEPSFStar of {n}]', st, only=('all_stars', 'all_good_stars', 'center_flat',
                                                                                        'n_stars', 'n_all_stars', 'n_good_stars'))
    sky = wcs.pixel_to_world(XPOS[:2], YPOS[:2])

    def nd(off):
        return NDData(d + off, wcs=wcs)
    for dname, mk in (('NDData', lambda: nd(0.0)), ('[NDData]', lambda: [nd(0.0)]), ('[NDData, NDData]', lambda: [nd(0.0), nd(1.0)])):
        for tname, mt in (('Table', lambda: Table({'skycoord': sky})), ('[Table]', lambda: [Table({'skycoord': sky})]),
                          ('[Table, Table]', lambda: [Table({'x': XPOS[:2].copy(), 'y': YPOS[:2].copy()}),
                                                      Table({'x': XPOS[:2].copy(), 'y': YPOS[:2].copy()})])):
            data = c.hold('nddata', mk())
            cats = c.hold('catalogs', mt())
            c.step(f'extract_stars[data: {dname}; catalogs: {tname}]', lambda: extract_stars(data, cats, size=11), keep_output=False)


# ------------------------------------------------------------------------------------------------------------------------
# star geometries of EPSFFitter / EPSFBuilder
# ------------------------------------------------------------------------------------------------------------------------
STAR_SIZE = 11                      # cutouts are 11 x 11 (centre pixel 5)
OFF = (0.2, 0.1)                    # generic sub-pixel offset of the catalogue position ("inaccurate position")
# name -> cutout_center (x, y) of the ODD star (star 0; the other two stars are centred), None: all three centred.
# Distances are to the nearest cutout edge in pixels; the default fit box (5) needs 2.
STAR_GEOMS = collections.OrderedDict([
    ('base', None),                         # every star centred: (5.2, 5.1)
    ('margin2', (2 + OFF[0], 5 + OFF[1])),  # fit box 5 touches the left edge and still fits (boundary value, fitted)
    ('left', (1 + OFF[0], 5 + OFF[1])),     # sticks out by one pixel on the left: early exit
    ('right', (9 + OFF[0], 5 + OFF[1])),
    ('bottom', (5 + OFF[0], 1 + OFF[1])),
    ('top', (5 + OFF[0], 9 + OFF[1])),
    ('corner', (1 + OFF[0], 1 + OFF[1])),   # both axes
    ('on_edge', (0.0, 5 + OFF[1])),         # centre on the first pixel column
    ('outside', (-4 + OFF[0], 5 + OFF[1])),  # centre outside the cutout: the fit box does not overlap it at all
    ('all_off', 'all'),                     # every star off-centre ('left'): every fit fails (the builder raises)
])
# (fit_boxsize=None -- "use the entire star image" -- is rejected by the constructor of the pinned tree: TypeError in as_pair)
FIT_BOXSIZES = collections.OrderedDict([('5', 5), ('(3, 7)', (3, 7)), ('11 (== cutout)', 11), ('13 (> cutout)', 13)])
STAR_KINDS = ('EPSFStar', 'LinkedEPSFStar: odd star first', 'LinkedEPSFStar: odd star second')
EPSF_ENTRIES = ('EPSFFitter()', 'EPSFBuilder()[maxiters=1]', 'EPSFBuilder()[maxiters=5, no convergence]', 'build_epsf[init_epsf, maxiters=1]')
# quick tier sub-product (fully enumerated): see ``star_steps``
QUICK_FIT_BOXSIZES = ('5', '11 (== cutout)')


def _make_star(arr, i, center, wcs):
    """Star ``i`` of the scene in an 11x11 cutout placed so that the source
    lies at ``center`` (x, y) of the cutout."""
    from photutils.psf import EPSFStar
    cx, cy = center
    x0 = int(XPOS[i]) - int(np.floor(cx))
    y0 = int(YPOS[i]) - int(np.floor(cy))
    x0 = min(max(x0, 0), SHAPE[1] - STAR_SIZE)
    y0 = min(max(y0, 0), SHAPE[0] - STAR_SIZE)
    return EPSFStar(arr[y0:y0 + STAR_SIZE, x0:x0 + STAR_SIZE].copy(), cutout_center=(float(cx), float(cy)), origin=(x0, y0), wcs_large=wcs)


def _make_stars(arr, geom, kind, wcs):
    from photutils.psf import EPSFStars, LinkedEPSFStar
    centred = (5 + OFF[0], 5 + OFF[1])
    g = STAR_GEOMS[geom]
    centers = [centred] * 3 if g is None else ([STAR_GEOMS['left']] * 3 if g == 'all' else [g, centred, centred])
    lst = [_make_star(arr, i, centers[i], wcs) for i in range(3)]
    if kind != 'EPSFStar':
        # the same physical star cut from a second image (here: the same pixels + 1): centred, unless every star is off-centre
        twin = _make_star(arr + 1.0, 0, centers[0] if g == 'all' else centred, wcs)
        lst[0] = LinkedEPSFStar([lst[0], twin] if kind.endswith('first') else [twin, lst[0]])
    return EPSFStars(lst)


def star_steps(full):
    """(fit_boxsize name, kind, entry) of one star geometry.  ``full``
    (thorough): FIT_BOXSIZES x STAR_KINDS x EPSF_ENTRIES = 4 x 3 x 4 = 48; quick:
    QUICK_FIT_BOXSIZES x STAR_KINDS x EPSF_ENTRIES without the linked kinds of
    the five-iteration builder = 2 x (3 x 4 - 2) = 20."""
    out = []
    for b in FIT_BOXSIZES:
        if not full and b not in QUICK_FIT_BOXSIZES:
            continue
        for kind in STAR_KINDS:
            for entry in EPSF_ENTRIES:
                if not full and kind != 'EPSFStar' and entry.startswith('EPSFBuilder()[maxiters=5'):
                    continue
                out.append((b, kind, entry))
    return out


_EPSF0 = {}


def _epsf0(arr, wcs):
    """An ePSF to fit with (set-up, built once per process from the centred stars)."""
    from photutils.psf import EPSFBuilder
    if 'epsf' not in _EPSF0:
        b = EPSFBuilder(oversampling=2, maxiters=2, progress_bar=False, norm_radius=4.5, recentering_maxiters=3)
        _EPSF0['epsf'] = b(_make_stars(arr, 'base', 'EPSFStar', wcs))[0]
    return _EPSF0['epsf'].copy()


@recipe('EPSF[star geometry]', ['psf.epsf.EPSFBuilder', 'psf.epsf.EPSFFitter', 'psf.epsf_stars.EPSFStar', 'psf.epsf_stars.EPSFStars',
                                'psf.epsf_stars.LinkedEPSFStar'], numeric=False, axes=(), geoms=tuple(STAR_GEOMS), companions=False)
def _epsf_star_geometry(c):
    from photutils.psf import EPSFBuilder, EPSFFitter
    from .registry_recipes import _wcs
    wcs = _wcs()
    arr = c.clean(region=(slice(None), slice(None))) - 20.0
    epsf = c.hold('epsf', _epsf0(arr, wcs))
    for bname, kind, entry in star_steps(full=c.full):
        box = FIT_BOXSIZES[bname]
        stars = c.hold('stars', _make_stars(arr, c.geom, kind, wcs))
        fitter = EPSFFitter(fit_boxsize=box)
        lab = f'{entry}[fit_boxsize={bname}; {kind}]'
        if entry == 'EPSFFitter()':
            c.step(lab, lambda: fitter(epsf, stars), keep_output=False)
            continue
        five = 'maxiters=5' in entry
        builder = EPSFBuilder(oversampling=2, maxiters=5 if five else 1, progress_bar=False, norm_radius=4.5, recentering_maxiters=3,
                              fitter=fitter, center_accuracy=1e-7 if five else 1e-3)
        if entry.startswith('build_epsf'):
            c.step(lab, lambda: builder.build_epsf(stars, init_epsf=epsf), keep_output=False)
        else:
            c.step(lab, lambda: builder(stars), keep_output=False)
