"""C03: the explicit classification of every output column / property as
position-like or position-free, and the engine that applies the metamorphic
relation to a (base run, transformed run) pair.

entry = (kind, partner, tolerance class, footprint group)

kinds
  id       row identifier, must be equal
  meta     plain python value, must be equal
  null     must be None for every row (sky_* without a WCS)
  inv      position-free: unchanged by a shift and by transposition
  swap     position-free member of an x/y pair: unchanged by a shift, takes the partner's value on transposition
  x, y     position: + dx / + dy on a shift, takes the partner's value on transposition
  xy, yx   (.., 2) positions in (x, y) / (y, x) order
  cxy, cyx (.., 2) cutout-relative pairs: unchanged by a shift, reversed on transposition
  mat      (.., n, n) image moments indexed [y-power, x-power]: transposed on transposition
  sym2     (.., 2, 2) tensors in (x, y) order: both axes reversed on transposition
  ang_deg  orientation in degrees mod 180: theta -> 90 - theta on transposition (ang_rad: radians); rows flagged
           ``ambig`` (isotropic second moments / a == b: orientation undefined) accept any finite angle
  img      one 2-D cutout per row: unchanged by a shift, transposed on transposition
  bbox / slices / aper / cutoutimg : objects, expanded into sub-columns of the kinds above
"""
import math

import numpy as np

from .c03_core import CALIB, expected, img_diff, num_diff, strip

S, L, K, KL, W = 'seg', 'lb', 'kron', 'kronlb', 'win'

SOURCECATALOG = {
    'area': ('inv', None, 'rel', S),
    'background': ('img', None, 'rel', S),
    'background_centroid': ('inv', None, 'rel', S),
    'background_ma': ('img', None, 'rel', S),
    'background_mean': ('inv', None, 'rel', S),
    'background_sum': ('inv', None, 'rel', S),
    'bbox': ('bbox', None, 'exact', S),
    'bbox_xmax': ('x', 'bbox_ymax', 'exact', S),
    'bbox_xmin': ('x', 'bbox_ymin', 'exact', S),
    'bbox_ymax': ('y', 'bbox_xmax', 'exact', S),
    'bbox_ymin': ('y', 'bbox_xmin', 'exact', S),
    'centroid': ('xy', None, 'pos', S),
    'centroid_quad': ('xy', None, 'pos', S),
    'centroid_win': ('xy', None, 'fit', W),
    'convdata': ('img', None, 'rel', S),
    'convdata_ma': ('img', None, 'rel', S),
    'covar_sigx2': ('swap', 'covar_sigy2', 'rel', S),
    'covar_sigxy': ('inv', None, 'rel', S),
    'covar_sigy2': ('swap', 'covar_sigx2', 'rel', S),
    'covariance': ('sym2', None, 'rel', S),
    'covariance_eigvals': ('inv', None, 'rel', S),
    'cutout_centroid': ('cxy', None, 'pos', S),
    'cutout_centroid_quad': ('cxy', None, 'pos', S),
    'cutout_centroid_win': ('cxy', None, 'fit', W),
    'cutout_maxval_index': ('cyx', None, 'exact', S),
    'cutout_minval_index': ('cyx', None, 'exact', S),
    'cxx': ('swap', 'cyy', 'rel', S),
    'cxy': ('inv', None, 'rel', S),
    'cyy': ('swap', 'cxx', 'rel', S),
    'data': ('img', None, 'rel', S),
    'data_ma': ('img', None, 'rel', S),
    'eccentricity': ('inv', None, 'rel', S),
    'ellipticity': ('inv', None, 'rel', S),
    'elongation': ('inv', None, 'rel', S),
    'equivalent_radius': ('inv', None, 'rel', S),
    'error': ('img', None, 'rel', S),
    'error_ma': ('img', None, 'rel', S),
    'extra_properties': ('meta', None, 'exact', S),
    'fwhm': ('inv', None, 'rel', S),
    'gini': ('inv', None, 'rel', S),
    'inertia_tensor': ('sym2', None, 'mom', S),
    'isscalar': ('meta', None, 'exact', S),
    'kron_aperture': ('aper', None, 'rel', K),
    'kron_flux': ('inv', None, 'geom', KL),
    'kron_fluxerr': ('inv', None, 'geom', KL),
    'kron_radius': ('inv', None, 'rel', K),
    'label': ('id', None, 'exact', S),
    'labels': ('id', None, 'exact', S),
    'local_background': ('inv', None, 'rel', L),
    'local_background_aperture': ('aper', None, 'rel', S),
    'max_value': ('inv', None, 'rel', L),
    'maxval_index': ('yx', None, 'exact', S),
    'maxval_xindex': ('x', 'maxval_yindex', 'exact', S),
    'maxval_yindex': ('y', 'maxval_xindex', 'exact', S),
    'min_value': ('inv', None, 'rel', L),
    'minval_index': ('yx', None, 'exact', S),
    'minval_xindex': ('x', 'minval_yindex', 'exact', S),
    'minval_yindex': ('y', 'minval_xindex', 'exact', S),
    'moments': ('mat', None, 'mom', S),
    'moments_central': ('mat', None, 'mom', S),
    'nlabels': ('meta', None, 'exact', S),
    'orientation': ('ang_deg', None, 'rel', S),
    'perimeter': ('inv', None, 'rel', S),
    'properties': ('meta', None, 'exact', S),
    'segment': ('img', None, 'exact', S),
    'segment_area': ('inv', None, 'rel', S),
    'segment_flux': ('inv', None, 'rel', L),
    'segment_fluxerr': ('inv', None, 'rel', S),
    'segment_ma': ('img', None, 'exact', S),
    'semimajor_sigma': ('inv', None, 'rel', S),
    'semiminor_sigma': ('inv', None, 'rel', S),
    'sky_bbox_ll': ('null', None, 'exact', S),
    'sky_bbox_lr': ('null', None, 'exact', S),
    'sky_bbox_ul': ('null', None, 'exact', S),
    'sky_bbox_ur': ('null', None, 'exact', S),
    'sky_centroid': ('null', None, 'exact', S),
    'sky_centroid_icrs': ('null', None, 'exact', S),
    'sky_centroid_quad': ('null', None, 'exact', S),
    'sky_centroid_win': ('null', None, 'exact', S),
    'slices': ('slices', None, 'exact', S),
    'xcentroid': ('x', 'ycentroid', 'pos', S),
    'xcentroid_quad': ('x', 'ycentroid_quad', 'pos', S),
    'xcentroid_win': ('x', 'ycentroid_win', 'fit', W),
    'ycentroid': ('y', 'xcentroid', 'pos', S),
    'ycentroid_quad': ('y', 'xcentroid_quad', 'pos', S),
    'ycentroid_win': ('y', 'xcentroid_win', 'fit', W),
    # results of the public methods (called by the harness with fixed arguments)
    'circular_photometry.flux': ('inv', None, 'geom', 'circ'),
    'circular_photometry.fluxerr': ('inv', None, 'geom', 'circ'),
    'kron_photometry.flux': ('inv', None, 'geom', KL),
    'kron_photometry.fluxerr': ('inv', None, 'geom', KL),
    'fluxfrac_radius(0.5)': ('inv', None, 'fit', KL),
    'fluxfrac_radius(0.8)': ('inv', None, 'fit', KL),
    'make_circular_apertures': ('aper', None, 'rel', S),
    'make_kron_apertures': ('aper', None, 'rel', K),
    'make_cutouts': ('cutoutimg', None, 'rel', 'cut'),
}

A = 'ap'
APERTURESTATS = {
    'bbox': ('bbox', None, 'exact', A),
    'bbox_xmax': ('x', 'bbox_ymax', 'exact', A),
    'bbox_xmin': ('x', 'bbox_ymin', 'exact', A),
    'bbox_ymax': ('y', 'bbox_xmax', 'exact', A),
    'bbox_ymin': ('y', 'bbox_xmin', 'exact', A),
    'biweight_location': ('inv', None, 'rel', A),
    'biweight_midvariance': ('inv', None, 'rel', A),
    'center_aper_area': ('inv', None, 'rel', A),
    'centroid': ('xy', None, 'pos', A),
    'covar_sigx2': ('swap', 'covar_sigy2', 'rel', A),
    'covar_sigxy': ('inv', None, 'rel', A),
    'covar_sigy2': ('swap', 'covar_sigx2', 'rel', A),
    'covariance': ('sym2', None, 'rel', A),
    'covariance_eigvals': ('inv', None, 'rel', A),
    'cutout_centroid': ('cxy', None, 'pos', A),
    'cxx': ('swap', 'cyy', 'rel', A),
    'cxy': ('inv', None, 'rel', A),
    'cyy': ('swap', 'cxx', 'rel', A),
    'data_cutout': ('img', None, 'rel', A),
    'data_sumcutout': ('img', None, 'geom', A),
    'eccentricity': ('inv', None, 'rel', A),
    'ellipticity': ('inv', None, 'rel', A),
    'elongation': ('inv', None, 'rel', A),
    'error_sumcutout': ('img', None, 'geom', A),
    'fwhm': ('inv', None, 'rel', A),
    'gini': ('inv', None, 'rel', A),
    'id': ('id', None, 'exact', A),
    'ids': ('id', None, 'exact', A),
    'inertia_tensor': ('sym2', None, 'mom', A),
    'isscalar': ('meta', None, 'exact', A),
    'mad_std': ('inv', None, 'rel', A),
    'max': ('inv', None, 'rel', A),
    'mean': ('inv', None, 'rel', A),
    'median': ('inv', None, 'rel', A),
    'min': ('inv', None, 'rel', A),
    'mode': ('inv', None, 'rel', A),
    'moments': ('mat', None, 'mom', A),
    'moments_central': ('mat', None, 'mom', A),
    'n_apertures': ('meta', None, 'exact', A),
    'orientation': ('ang_deg', None, 'rel', A),
    'properties': ('meta', None, 'exact', A),
    'semimajor_sigma': ('inv', None, 'rel', A),
    'semiminor_sigma': ('inv', None, 'rel', A),
    'sky_centroid': ('null', None, 'exact', A),
    'sky_centroid_icrs': ('null', None, 'exact', A),
    'std': ('inv', None, 'rel', A),
    'sum': ('inv', None, 'geom', A),
    'sum_aper_area': ('inv', None, 'geom', A),
    'sum_err': ('inv', None, 'geom', A),
    'var': ('inv', None, 'rel', A),
    'xcentroid': ('x', 'ycentroid', 'pos', A),
    'ycentroid': ('y', 'xcentroid', 'pos', A),
}

# aperture_photometry table; aperture_sum_<k> belongs to footprint group 'ap<k>'
APERTURE_PHOTOMETRY = {
    'id': ('id', None, 'exact', 'all'),
    'xcenter': ('x', 'ycenter', 'pos', 'all'),
    'ycenter': ('y', 'xcenter', 'pos', 'all'),
}
for _k in range(8):
    APERTURE_PHOTOMETRY[f'aperture_sum_{_k}'] = ('inv', None, 'geom', f'ap{_k}')
    APERTURE_PHOTOMETRY[f'aperture_sum_err_{_k}'] = ('inv', None, 'geom', f'ap{_k}')

I = 'int'      # interior rows (detected-row tables)
FIND_PEAKS = {
    'id': ('rowid', None, 'exact', I),
    'x_peak': ('x', 'y_peak', 'exact', I),
    'y_peak': ('y', 'x_peak', 'exact', I),
    'peak_value': ('inv', None, 'exact', I),
    'x_centroid': ('x', 'y_centroid', 'pos', I),
    'y_centroid': ('y', 'x_centroid', 'pos', I),
}
DAOSTARFINDER = {
    'id': ('rowid', None, 'exact', I),
    'xcentroid': ('x', 'ycentroid', 'pos', I),
    'ycentroid': ('y', 'xcentroid', 'pos', I),
    'sharpness': ('inv', None, 'rel', I),
    'roundness1': ('inv', None, 'rel', I),
    'roundness2': ('inv', None, 'rel', I),
    'npix': ('inv', None, 'exact', I),
    'peak': ('inv', None, 'rel', I),
    'flux': ('inv', None, 'rel', I),
    'mag': ('inv', None, 'rel', I),
    'daofind_mag': ('inv', None, 'rel', I),
}
IRAFSTARFINDER = {
    'id': ('rowid', None, 'exact', I),
    'xcentroid': ('x', 'ycentroid', 'pos', I),
    'ycentroid': ('y', 'xcentroid', 'pos', I),
    'fwhm': ('inv', None, 'rel', I),
    'sharpness': ('inv', None, 'rel', I),
    'roundness': ('inv', None, 'rel', I),
    'pa': ('ang_deg', None, 'rel', I),
    'npix': ('inv', None, 'exact', I),
    'peak': ('inv', None, 'rel', I),
    'flux': ('inv', None, 'rel', I),
    'mag': ('inv', None, 'rel', I),
}
STARFINDER = {
    'id': ('rowid', None, 'exact', I),
    'xcentroid': ('x', 'ycentroid', 'pos', I),
    'ycentroid': ('y', 'xcentroid', 'pos', I),
    'fwhm': ('inv', None, 'rel', I),
    'roundness': ('inv', None, 'rel', I),
    'pa': ('ang_deg', None, 'rel', I),
    'max_value': ('inv', None, 'rel', I),
    'flux': ('inv', None, 'rel', I),
    'mag': ('inv', None, 'rel', I),
}
P = 'prof'
PROFILES = {
    'xycen': ('xy', None, 'pos', P),
    'radii': ('inv', None, 'exact', P),
    'radius': ('inv', None, 'exact', P),
    'profile': ('inv', None, 'geom', P),
    'profile_error': ('inv', None, 'geom', P),
    'area': ('inv', None, 'geom', P),
    'apertures': ('aper', None, 'rel', P),
    'gaussian_fit.amplitude': ('inv', None, 'fit', P),
    'gaussian_fit.mean': ('inv', None, 'fit', P),
    'gaussian_fit.stddev': ('inv', None, 'fit', P),
    'gaussian_profile': ('inv', None, 'fit', P),
    'gaussian_fwhm': ('inv', None, 'fit', P),
    'data_radius': ('sorted', 'data_profile', 'pos', P),      # (radius, value) pairs compared as a multiset
    'data_profile': ('skip-with:data_radius', None, 'pos', P),
    'calc_ee_at_radius': ('inv', None, 'geom', P),
    'calc_radius_at_ee': ('inv', None, 'geom', P),
    'normalized.profile': ('inv', None, 'geom', P),
}
CENTROIDS = {
    # centroid functions called on cutouts made by the harness: cutout-relative (x, y) pairs
    'centroid_com': ('cxy', None, 'pos', 'all'),
    'centroid_quadratic': ('cxy', None, 'pos', 'all'),
    'centroid_quadratic(peak,box)': ('cxy', None, 'pos', 'all'),
    'centroid_1dg': ('cxy', None, 'fit', 'all'),
    'centroid_2dg': ('cxy', None, 'fitl', 'all'),
}
# centroid_sources: image coordinates
for _tag, _tol in (('com', 'pos'), ('quadratic', 'pos'), ('2dg', 'fitl'), ('1dg,error', 'fit'), ('2dg,error', 'fitl'),
                   ('com,footprint', 'pos'), ('quadratic,xypeak', 'pos')):
    CENTROIDS[f'centroid_sources({_tag}).x'] = ('x', f'centroid_sources({_tag}).y', _tol, 'all')
    CENTROIDS[f'centroid_sources({_tag}).y'] = ('y', f'centroid_sources({_tag}).x', _tol, 'all')

SEGM = {       # attributes of the SegmentationImage returned by detect_sources / deblend_sources
    'labels': ('id', None, 'exact', 'all'),
    'areas': ('inv', None, 'exact', 'all'),
    'bbox': ('bbox', None, 'exact', 'all'),
    'slices': ('slices', None, 'exact', 'all'),
}

TABLES = {'detect_sources': SEGM, 'deblend_sources': SEGM, 'make_model_image': {},
          'SourceCatalog': SOURCECATALOG, 'ApertureStats': APERTURESTATS, 'aperture_photometry': APERTURE_PHOTOMETRY,
          'find_peaks': FIND_PEAKS, 'DAOStarFinder': DAOSTARFINDER, 'IRAFStarFinder': IRAFSTARFINDER,
          'StarFinder': STARFINDER, 'RadialProfile': PROFILES, 'CurveOfGrowth': PROFILES, 'centroids': CENTROIDS}


# ----------------------------------------------------------------------------
class Res:
    """Normalised result of one API call."""

    def __init__(self, api, n=None, detected=False):
        self.api = api
        self.n = n
        self.detected = detected       # rows are discovered by the call (finders) rather than given
        self.cols = {}                 # name -> dict(kind, partner, tol, foot, v, unit, extra)
        self.frames = {}               # name -> full-frame array (label map, rendered image), tol
        self.foot = {}                 # group -> bool rows
        self.unknown = []
        self.error = None
        self.rowxy = None              # (x, y) of detected rows, for the interior filter
        self.margin = 0.0
        self.tag = ''                  # named predicate on the configuration, becomes part of the violation site

    def put(self, name, kind, partner, tol, foot, v, **extra):
        v, unit = strip(v)
        self.cols[name] = {'kind': kind, 'partner': partner, 'tol': tol, 'foot': foot, 'v': v, 'unit': unit,
                           'extra': extra}

    def add(self, name, raw, table=None):
        table = TABLES[self.api] if table is None else table
        if name not in table:
            self.unknown.append(name)
            return
        kind, partner, tol, foot = table[name]
        if kind == 'bbox':
            seq = raw if isinstance(raw, (list, tuple)) else [raw]
            self.put(name + '.min', 'xy', None, 'exact', foot, np.array([[b.ixmin, b.iymin] for b in seq]))
            self.put(name + '.max', 'xy', None, 'exact', foot, np.array([[b.ixmax, b.iymax] for b in seq]))
        elif kind == 'slices':
            self.put(name + '.start', 'yx', None, 'exact', foot, np.array([[s[0].start, s[1].start] for s in raw]))
            self.put(name + '.stop', 'yx', None, 'exact', foot, np.array([[s[0].stop, s[1].stop] for s in raw]))
        elif kind == 'aper':
            self.add_apertures(name, raw, tol, foot)
        elif kind == 'cutoutimg':
            self.put(name + '.data', 'img', None, tol, foot, [None if c is None else c.data for c in raw])
            self.put(name + '.xyorigin', 'xy', None, 'exact', foot,
                     np.array([[np.nan, np.nan] if c is None else c.xyorigin for c in raw], float))
            self.put(name + '.bbox_original.min', 'xy', None, 'exact', foot,
                     np.array([[np.nan, np.nan] if c is None else [c.bbox_original.ixmin, c.bbox_original.iymin]
                               for c in raw], float))
        elif kind == 'mat' or (kind == 'sym2' and tol == 'mom'):
            self.put(name, kind, partner, 'rel', foot, raw, mom=True)
        elif kind == 'ang_deg':
            self.put(name, kind, partner, tol, foot, raw, period=180.0)
        else:
            self.put(name, kind, partner, tol, foot, raw)

    def add_apertures(self, name, seq, tol, foot):
        """Expand a list of apertures (or None) into numeric sub-columns."""
        seq = list(seq) if isinstance(seq, (list, tuple, np.ndarray)) else [seq]
        cls, pos, theta = [], [], []
        round_ = np.zeros(len(seq), bool)
        shape = {}
        tens = {}
        for i, a in enumerate(seq):
            if a is None:
                cls.append('None')
                pos.append([np.nan, np.nan])
                theta.append(np.nan)
                continue
            cls.append(type(a).__name__)
            pos.append(np.asarray(a.positions, float).reshape(-1)[:2])
            th = getattr(a, 'theta', None)
            thv = np.nan if th is None else (float(th.to('rad').value) if hasattr(th, 'to') else float(th))
            if type(a).__name__.startswith('Rectangular'):
                # (w, h, theta) and (h, w, theta +- 90deg) are the same rectangle: compare the shape
                # tensor R diag(w^2, h^2) R^T in (x, y) order instead of the raw parameters
                c, s_ = math.cos(thv), math.sin(thv)
                pairs = [('w', 'h')] if hasattr(a, 'w') else [('w_in', 'h_in'), ('w_out', 'h_out')]
                for wn, hn in pairs:
                    w2, h2 = float(getattr(a, wn)) ** 2, float(getattr(a, hn)) ** 2
                    t = np.array([[w2 * c * c + h2 * s_ * s_, (w2 - h2) * c * s_],
                                  [(w2 - h2) * c * s_, w2 * s_ * s_ + h2 * c * c]])
                    tens.setdefault(wn + hn, np.full((len(seq), 2, 2), np.nan))[i] = t
                theta.append(np.nan)
                continue
            theta.append(thv)
            if hasattr(a, 'a') and hasattr(a, 'b') and abs(float(a.a) - float(a.b)) <= 1e-9 * abs(float(a.a)):
                round_[i] = True        # an ellipse with a == b is a circle: its theta has no meaning (rule 1)
            for p in a._params:
                if p in ('positions', 'theta'):
                    continue
                shape.setdefault(p, np.full(len(seq), np.nan))[i] = float(getattr(a, p))
        self.put(name + '.class', 'meta', None, 'exact', foot, cls)
        self.put(name + '.positions', 'xy', None, 'pos', foot, np.array(pos, float))
        for p, v in shape.items():
            # a, b, r, r_in, r_out, w, h ... are invariant: transposition maps (a, b, theta) -> (a, b, 90deg - theta)
            self.put(f'{name}.{p}', 'inv', None, tol, foot, v)
        for p, v in tens.items():
            self.put(f'{name}.tensor_{p}', 'sym2', None, tol, foot, v)
        th = np.array(theta, float)
        # rectangles built with theta = 0 by SourceCatalog (local background) are transposed by swapping
        # width and height instead of rotating: handled in the engine via 'rect0'
        self.put(name + '.theta', 'ang_rad', None, tol, foot, th, period=math.pi, ambig=round_)


# ----------------------------------------------------------------------------
def _rows(v, ok):
    if ok is None:
        return v
    if isinstance(v, np.ndarray):
        return v[ok] if v.ndim and v.shape[0] == len(ok) else v
    if isinstance(v, (list, tuple)) and len(v) == len(ok):
        return [x for x, k in zip(v, ok) if k]
    return v


def compare(acc, case, base, new, T, viol, stats):
    """Apply the relation to every column of ``base``/``new``. ``viol(clause, site, obs, exp, detail)``
    records a violation; ``stats`` is a Counter."""
    api = base.api + base.tag
    if base.error is not None or new.error is not None:
        if base.error != new.error:
            viol('raises', f'{api}:{(new.error or base.error).split(":")[0]}', new.error, base.error,
                 'the call raised for one of the two equivalent inputs')
        return
    # ---- full-frame outputs (label maps, rendered images) ----------------
    for name, (arr, tol) in base.frames.items():
        other = new.frames.get(name)
        if other is None:
            viol('frame-missing', f'{api}.{name}', None, 'array', '')
            continue
        if arr[0] is None or other[0][0] is None:
            stats['frames_compared'] += 1
            if (arr[0] is None) != (other[0][0] is None):
                viol(f'{T.kind}:frame', f'{api}.{name}', 'None' if other[0][0] is None else 'array',
                     'None' if arr[0] is None else 'array', 'one of the two runs returned no result')
            continue
        exp = T.img(arr[0]) if T.kind != 'id' else arr[0]
        d = num_diff(other[0][0], exp, tol)
        stats['frames_compared'] += 1
        if d is not None:
            viol(f'{T.kind}:frame', f'{api}.{name}', d, 'equal after shifting', d)
    # ---- row selection -------------------------------------------------------
    okb = okn = None
    if base.detected:
        # rows whose kernel / box footprint lies inside the original frame, in both tables
        okb = base.foot['int']
        okn = new.foot['int']
        stats['rows_excluded_by_footprint'] += int((~okb).sum())
        if int(okb.sum()) != int(okn.sum()):
            viol('rows', f'{api}:interior-row-count', int(okn.sum()), int(okb.sum()),
                 f'number of rows with footprint inside the original frame differs (positions in base-frame '
                 f'coordinates; only in base: {only_xy(base, okb, new, okn)}; only in new: {only_xy(new, okn, base, okb)})')
            return
        if T.kind == 'T':
            raise RuntimeError('detected-row tables are not transposed')
    for name, cb in base.cols.items():
        cn = new.cols.get(name)
        site = f'{api}.{name}'
        if cn is None:
            viol('column-missing', site, 'missing', 'present', '')
            continue
        kind = cb['kind']
        if kind.startswith('skip-with'):
            continue
        if cb['unit'] != cn['unit']:
            viol('unit', site, cn['unit'], cb['unit'], '')
            continue
        vb, vn = cb['v'], cn['v']
        if kind == 'meta':
            if base.detected:
                continue
            if T.kind == 'shift' and cb['foot'] in base.foot and isinstance(vb, list):
                vb, vn = _rows(vb, base.foot[cb['foot']]), _rows(vn, base.foot[cb['foot']])
            same = (list(vb) == list(vn)) if isinstance(vb, (list, tuple, np.ndarray)) else (vb == vn)
            if not same:
                viol(f'{T.kind}:meta', site, vn, vb, '')
            continue
        if base.detected:
            rb, rn = okb, okn
        elif T.kind == 'shift':
            rb = rn = base.foot.get(cb['foot'])
            if rb is None:
                raise RuntimeError(f'no footprint group {cb["foot"]!r} for {site}')
            stats['rowvalues_excluded_by_footprint'] += int((~rb).sum())
        else:
            rb = rn = None
        if kind == 'null':
            if any(x is not None for x in np.asarray(vn, dtype=object).ravel().tolist()):
                viol('null', site, 'not None', None, '')
            continue
        if kind == 'rowid':
            ids = np.asarray(vn)
            if not np.array_equal(ids, np.arange(1, len(ids) + 1)):
                viol('rowid', site, ids.tolist(), '1..N', '')
            continue
        vb, vn = _rows(vb, rb), _rows(vn, rn)
        if rb is not None and not int(np.sum(rb)):
            continue
        if kind == 'img':
            bad = None
            for i, (a, b) in enumerate(zip(vb, vn)):
                if a is None or b is None:
                    if (a is None) != (b is None):
                        bad = f'row {i}: None vs array'
                    continue
                a, _ = strip(a)
                b, _ = strip(b)
                e = a.T if T.kind == 'T' else a
                d = img_diff(b, e, cb['tol'])
                if d is not None:
                    bad = f'row {i}: {d}'
                    break
            stats['values_compared'] += len(vb)
            if bad:
                viol(f'{T.kind}:cutout', site, bad, 'same cutout' + (' transposed' if T.kind == 'T' else ''), bad)
            continue
        if kind == 'sorted':
            pb, pn = _rows(base.cols[cb['partner']]['v'], rb), _rows(new.cols[cb['partner']]['v'], rn)
            bad = None
            for i in range(len(vb)):
                eb = np.array(sorted(zip(np.round(vb[i], 9).tolist(), np.asarray(pb[i], float).tolist())))
                en = np.array(sorted(zip(np.round(vn[i], 9).tolist(), np.asarray(pn[i], float).tolist())))
                d = num_diff(en, eb, 'pos')
                if d is not None:
                    bad = f'row {i}: {d}'
                    break
            if bad:
                viol(f'{T.kind}:multiset', site, bad, 'same (radius, value) multiset', bad)
            continue
        vb = np.asarray(vb)
        vn = np.asarray(vn)
        if kind == 'id':
            if not np.array_equal(vb, vn):
                viol(f'{T.kind}:id', site, vn.tolist(), vb.tolist(), '')
            continue
        pv = None
        if T.kind == 'T' and cb['partner'] is not None:
            pv = np.asarray(_rows(base.cols[cb['partner']]['v'], rb))
        extra = cb['extra']
        scale = None
        if extra.get('mom'):
            scale = extra.get('scale')
            scale = _rows(scale, rb) if scale is not None else None
            if scale is not None and T.kind == 'T' and kind == 'mat':
                scale = np.swapaxes(scale, -1, -2)
        exp = expected(kind, vb, pv, T)
        amb = extra.get('ambig')
        if amb is not None and kind in ('ang_deg', 'ang_rad'):
            # rows whose second moments are isotropic (single pixel, a == b): the orientation is undefined, any
            # finite value is accepted (soundness rule 1)
            amb = np.asarray(_rows(np.asarray(amb, bool), rb), bool)
            vn = np.where(amb & np.isfinite(np.asarray(vn, float)), exp, vn)
            stats['orientation_values_ambiguous'] += int(amb.sum())
        tol = cb['tol']
        if T.kind == 'shift':
            # a shift hands the routine bit-identical cutouts: results that are only ftol-accurate under
            # transposition (2-D Gaussian fits) can be held to a tighter class under translation
            tol = extra.get('tol_shift', tol)
        d = num_diff(vn, exp, tol, period=extra.get('period'), scale=scale)
        stats['values_compared'] += int(np.size(vb))
        if vb.dtype.kind == 'f' and np.shape(vb) == np.shape(vn):
            # "no result" in both runs (fully masked / negative-flux rows, failed fits): agreement on NaN is
            # demanded, but such values say nothing about registration -- counted so the evidence shows how many
            stats['values_nan_in_both_runs'] += int(np.sum(np.isnan(vb) & np.isnan(np.asarray(vn, float))))
        if kind in ('x', 'y', 'xy', 'yx'):
            stats['position_values_compared'] += int(np.size(vb))
        if CALIB is not None and '_last' in CALIB:
            key = (api, name, T.kind)
            CALIB[key] = max(CALIB.get(key, 0.0), CALIB.pop('_last'))
        if d is not None:
            clause = {'x': 'position', 'y': 'position', 'xy': 'position', 'yx': 'position'}.get(kind, 'value')
            viol(f'{T.kind}:{clause}', site, d, describe_expect(kind, T), d)


def describe_expect(kind, T):
    if T.kind == 'shift':
        if kind in ('x', 'y', 'xy', 'yx'):
            return f'base value + ({T.dx},{T.dy})'
        return 'unchanged'
    return {'x': "partner's value", 'y': "partner's value", 'swap': "partner's value", 'xy': 'pair reversed',
            'yx': 'pair reversed', 'cxy': 'pair reversed', 'cyx': 'pair reversed', 'mat': 'matrix transposed',
            'sym2': 'axes reversed', 'ang_deg': '90deg - theta (mod 180)', 'ang_rad': 'pi/2 - theta (mod pi)'}.get(kind, 'unchanged')


def short_xy(res, ok, limit=8):
    if res.rowxy is None:
        return []
    x, y = res.rowxy
    return [(round(float(a), 2), round(float(b), 2)) for a, b in zip(np.asarray(x)[ok], np.asarray(y)[ok])][:limit]


def only_xy(a, oka, b, okb):
    """Row positions (rounded, base-frame coordinates) of ``a`` that have no partner in ``b``."""
    pa, pb = short_xy(a, oka, None), set(short_xy(b, okb, None))
    return [p for p in pa if p not in pb][:8]
