"""Registry of photutils public entry points + call recipes, shared by C10
(no call modifies what the caller passed in) and C15 (results do not depend on
the representation of the same numbers).

* ``walk_public()`` walks every ``photutils.*`` module's ``__all__`` and
  returns every public callable.  Each one is either *covered* by at least one
  recipe (``RECIPES[...].covers``) or listed in ``UNCOVERED`` with a reason;
  anything else is reported by ``coverage()`` as ``unclassified`` -- a new
  public function shows up as a coverage gap in the evidence, it is never
  silently dropped.
* a *recipe* is a plain function ``recipe(c)`` receiving a context ``c``
  (class ``Ctx``) that hands out the arguments in the requested
  *representation*, *data condition* and *geometry* (``c.data()``,
  ``c.error()``, ``c.mask()``, ``c.arg(name, array)`` for every other array
  argument, ``c.hold(name, obj)`` for every other caller-held object) and
  executes the calls as named *steps* (``c.step(label, thunk)``).  After every
  step (whether it returned or raised) all caller-held objects are compared
  with the snapshot taken before the first step.  For catalog-like classes
  ``c.members(label, obj)`` evaluates every public property and every public
  method callable without arguments as one step each.
* the same recipes serve C15: the context records the (normalised) output of
  every step, and C15 compares them between representations.

* C10 additionally singles out every array argument handed out through the
  context in turn ("one companion at a time", representation
  ``'companion:<kind>:<slot>'``, see ``COMPANION_KINDS_*`` / ``Ctx._alone``) and
  enumerates the forms of every Table-valued argument (``registry_recipes``:
  ``init_table_forms``, ``_params_table_forms``, ``_catalog_forms``).

The recipes contain no expected values: C10's oracle is "snapshot before ==
snapshot after", C15's oracle is "output(representation) == output(float64)".
"""
import collections
import importlib
import inspect
import pkgutil
import warnings

import numpy as np

from ..snapshot import digest, Unmergeable, short  # noqa: F401 (short re-exported)

# --------------------------------------------------------------------------
# public API walk
# --------------------------------------------------------------------------
_SKIP_MODULE_PARTS = ('.tests', '.extern', 'conftest', '._dev', '.version')


def walk_public():
    """{fully qualified name: 'class' | 'function'} of every public callable
    named in a ``__all__`` of a photutils module."""
    import photutils
    out = {}
    for m in pkgutil.walk_packages(photutils.__path__, 'photutils.'):
        n = m.name
        if any(p in n for p in _SKIP_MODULE_PARTS):
            continue
        try:
            mod = importlib.import_module(n)
        except Exception:  # optional dependency missing: listed, not dropped
            out[n + '.<import failed>'] = 'module'
            continue
        for name in (getattr(mod, '__all__', None) or ()):
            obj = getattr(mod, name, None)
            if callable(obj):
                out[f'{n}.{name}'] = 'class' if inspect.isclass(obj) else 'function'
    return out


# Public callables without a recipe, with the reason.  (Everything here is
# reported in the evidence under coverage.uncovered.)
UNCOVERED = {
    'photutils.datasets.load.load_irac_psf': 'file / remote data loader',
    'photutils.datasets.load.load_simulated_hst_star_image': 'file / remote data loader',
    'photutils.datasets.load.load_spitzer_catalog': 'file / remote data loader',
    'photutils.datasets.load.load_spitzer_image': 'file / remote data loader',
    'photutils.datasets.load.load_star_image': 'file / remote data loader',
}

# Abstract base classes, mixins and descriptor classes cannot be called on their own.  They count as covered through a
# concrete class (value: its qualified name) when ``coverage()`` can verify that (a) the concrete class derives from it /
# uses the descriptor, (b) a recipe covers the concrete class and (c) every public member the base class or mixin defines
# is called on instances of the concrete class -- by a pass of ``Ctx.members`` or by an explicit recipe step
# (``registry_members.not_evaluated``); descriptors: through the constructor and the attribute-assignment steps of the
# aperture recipes.  Anything that fails the verification is reported as unclassified.
VIA_CONCRETE = {
    'photutils.aperture.attributes.ApertureAttribute': 'photutils.aperture.circle.CircularAperture',
    'photutils.aperture.attributes.PixelPositions': 'photutils.aperture.circle.CircularAperture',
    'photutils.aperture.attributes.PositiveScalar': 'photutils.aperture.circle.CircularAperture',
    'photutils.aperture.attributes.ScalarAngle': 'photutils.aperture.ellipse.SkyEllipticalAperture',
    'photutils.aperture.attributes.ScalarAngleOrValue': 'photutils.aperture.ellipse.EllipticalAperture',
    'photutils.aperture.attributes.SkyCoordPositions': 'photutils.aperture.circle.SkyCircularAperture',
    'photutils.aperture.circle.CircularMaskMixin': 'photutils.aperture.circle.CircularAperture',
    'photutils.aperture.ellipse.EllipticalMaskMixin': 'photutils.aperture.ellipse.EllipticalAperture',
    'photutils.aperture.rectangle.RectangularMaskMixin': 'photutils.aperture.rectangle.RectangularAperture',
    'photutils.aperture.core.Aperture': 'photutils.aperture.circle.CircularAperture',
    'photutils.aperture.core.PixelAperture': 'photutils.aperture.circle.CircularAperture',
    'photutils.aperture.core.SkyAperture': 'photutils.aperture.circle.SkyCircularAperture',
    'photutils.background.core.BackgroundBase': 'photutils.background.core.MeanBackground',
    'photutils.background.core.BackgroundRMSBase': 'photutils.background.core.StdBackgroundRMS',
    'photutils.detection.core.StarFinderBase': 'photutils.detection.daofinder.DAOStarFinder',
    'photutils.profiles.core.ProfileBase': 'photutils.profiles.radial_profile.RadialProfile',
    'photutils.psf.model_plotting.ModelGridPlotMixin': 'photutils.psf.gridded_models.GriddedPSFModel',
    'photutils.psf.photometry.ModelImageMixin': 'photutils.psf.photometry.PSFPhotometry',
}

# plotting / patch methods: not called by the first pass of ``Ctx.members`` (C15 compares numbers); the second pass
# (C10, ``Ctx._member_extras``) calls them with non-default arguments
PLOT_PREFIXES = ('plot', 'imshow', 'as_artist', 'to_patches', 'make_cmap')
# documented in-place mutators of their own object (exempt by the property text)
MUTATORS = {'relabel_consecutive', 'remove_border_labels', 'remove_masked_labels', 'reassign_label',
            'reassign_labels', 'keep_label', 'keep_labels', 'remove_label', 'remove_labels',
            'add_extra_property', 'remove_extra_property', 'remove_extra_properties', 'rename_extra_property',
            'reset_ids', 'append', 'extend', 'insert', 'sort', 'fix_geometry', 'update', 'update_sma', 'reset_sma',
            'set_threshold', 'constrain_centers', 'register_epsf', 'reset_cmap'}

# --------------------------------------------------------------------------
# the scene
# --------------------------------------------------------------------------
SHAPE = (41, 47)
# amplitude, x0, y0, sigma_x, sigma_y, theta
# the 4th source blends with the 2nd (one segment at the detection threshold, two peaks: deblending really splits it)
SOURCES = ((800., 15.0, 14.0, 2.5, 1.6, 0.5), (600., 31.0, 20.0, 2.0, 2.0, 0.0), (500., 22.0, 31.0, 3.0, 1.5, 2.0),
           (450., 36.5, 23.0, 1.8, 1.8, 0.0))
XPOS = np.array([15.0, 31.0, 22.0])
YPOS = np.array([14.0, 20.0, 31.0])
CUT = (slice(5, 24), slice(5, 26))         # single-source cutout around source 0 (19 x 21, centre (10, 9))
NONFINITE_DATA = (((14, 17), np.nan), ((19, 31), np.inf), ((30, 21), np.nan), ((3, 3), -np.inf))
NONFINITE_ERR = (((13, 15), np.nan),)
NEGATIVE_PIX = ((17, 13), (18, 33), (33, 20), (12, 16))     # inside the star cutouts / apertures
MA_MASK_PIX = ((13, 17), (21, 32), (5, 5))                  # mask of the 'ma_masked' representation
ARG_MASK_PIX = {'masked': ((14, 16), (20, 30), (31, 22), (2, 40)), 'nonfinite': ((8, 40), (12, 13)),
                'nonfinite_error': ((8, 40), (12, 13))}

CONDITIONS = ('clean', 'negatives', 'nonfinite', 'nonfinite_error', 'masked', 'int')
MASKFORMS = ('cond', 'none', 'empty')
C10_REPS_QUICK = ('ndarray', 'ma_nomask', 'ma_empty', 'ma_masked', 'quantity', 'view', 'nddata')
C10_REPS_THOROUGH = C10_REPS_QUICK + ('strided', 'fortran', 'float32', 'bigendian', 'ma_error')
# --- one companion at a time (C10) ---------------------------------------------
# 'companion:<kind>:<slot>': the image and every other argument are plain C-contiguous ndarrays, the array argument
# <slot> alone (error, background, threshold / convolved / gain map, kernel, weights, footprint, mask, coordinate
# arrays ...) is handed over as
#   'ma'        a MaskedArray that owns a real mask array with True pixels,
#   'ma_empty'  a MaskedArray that owns a real, all-False mask array,
#   'strided'   a non-contiguous view (every second element along each axis) of a larger array (the parent is watched).
# The MaskedArray kinds apply to two-dimensional float arrays (images, kernels, weights); one-dimensional arrays,
# coordinate lists and boolean masks are handed over as ndarrays only ("layout" kinds).
COMPANION_KINDS_QUICK = ('ma', 'strided')
COMPANION_KINDS_THOROUGH = ('ma', 'ma_empty', 'strided')
COMPANION_LAYOUT_KINDS = ('strided',)
C15_REPS = ('f4', 'i4', 'i8', 'be', 'F', 'strided', 'ma_empty', 'ma_nomask', 'nddata', 'quantity')
C15_MIXED = ('mixed_data', 'mixed_companion')
NDDATA_REPS = ('nddata', 'nddata_q')      # 'nddata_q' (C15): NDData with a unit + Quantity companions
# --- forms of an NDData container (C15) -----------------------------------------
# An NDData holds the 1-sigma errors as an *uncertainty object* of one of three types, with or without a unit of its own:
#   '<nddata | nddata_q>+<type>[+<unit>][+ccd]'
#   type : std   StdDevUncertainty(sigma)          var   VarianceUncertainty(sigma**2)        ivar  InverseVariance(1 / sigma**2)
#   unit : (none) the uncertainty has no unit of its own (unit-less NDData; unit-ful NDData: it inherits the container's)
#          unit   it carries the unit explicitly (Jy, Jy**2, Jy**-2)       -- unit-ful NDData only
#          other  the same physical values in mJy (mJy**2, mJy**-2): numbers x 1e3 (1e6, 1e-6)    -- unit-ful NDData only
#   ccd  : the container is a CCDData (the NDData subclass that demands a unit) -- unit-ful only
# ('nddata' / 'nddata_q' themselves are std without a unit of its own.)  Full product type x unit form per container
# kind, plus the CCDData class for the plain form: every one holds exactly the numbers of (data, error=sigma, mask).
NDDATA_UNC_TYPES = ('std', 'var', 'ivar')
NDDATA_UNC_UNITS = ('unit', 'other')
NDDATA_FORMS = tuple(f'nddata+{t}' for t in NDDATA_UNC_TYPES[1:]) + tuple(
    f'nddata_q+{t}' + (f'+{m}' if m else '') for t in NDDATA_UNC_TYPES for m in ('',) + NDDATA_UNC_UNITS if (t, m) != ('std', '')) \
    + ('nddata_q+std+ccd',)


def nddata_base(rep):
    """'nddata' / 'nddata_q' for an NDData representation or one of its forms, else None."""
    b = rep.split('+', 1)[0]
    return b if b in NDDATA_REPS else None


def nddata_uncertainty(form, sigma, unit):
    """The uncertainty object of an NDData form (tokens after the base name) holding the 1-sigma errors ``sigma``;
    ``unit``: the unit of the container (None: unit-less)."""
    import astropy.units as u
    from astropy.nddata import InverseVariance, StdDevUncertainty, VarianceUncertainty
    tokens = set(form)
    kind = ([t for t in NDDATA_UNC_TYPES if t in tokens] or ['std'])[0]
    cls, power = {'std': (StdDevUncertainty, 1), 'var': (VarianceUncertainty, 2), 'ivar': (InverseVariance, -2)}[kind]
    own = None
    sigma = np.array(sigma, dtype=float)
    if tokens & set(NDDATA_UNC_UNITS):
        if unit is None:
            raise NotApplicable('an uncertainty with a unit of its own in a unit-less NDData')
        if 'other' in tokens:
            sigma = sigma * 1000.0
            unit = u.mJy
        own = unit if power == 1 else unit ** power     # (Jy ** 1 is an equal but not identical unit object)
    return cls(sigma ** power, unit=own)
# --- dtype x byte-order axis (C15) -------------------------------------------
# numpy dtype string of every dtype-only representation (C-contiguous ndarray).
DTYPE_OF_REP = collections.OrderedDict([
    ('f4', '<f4'), ('float32', '<f4'), ('be', '>f8'), ('bigendian', '>f8'), ('i4', '<i4'), ('i8', '<i8'),
    ('i2', '<i2'), ('i1', '|i1'), ('u1', '|u1'), ('u2', '<u2'), ('u4', '<u4'), ('u8', '<u8'),
    ('be_f4', '>f4'), ('be_i2', '>i2'), ('be_i4', '>i4'), ('be_i8', '>i8'), ('be_u2', '>u2'), ('be_u4', '>u4'), ('be_u8', '>u8'),
])
# full product {f8, f4, i1, i2, i4, i8, u1, u2, u4, u8} x {little, big endian} minus the float64 little-endian baseline
# (one-byte types have no byte order); the first four are the members of C15_REPS above
C15_DTYPE_REPS = ('f4', 'i4', 'i8', 'be', 'i2', 'i1', 'u1', 'u2', 'u4', 'u8',
                  'be_f4', 'be_i2', 'be_i4', 'be_i8', 'be_u2', 'be_u4', 'be_u8')
# A dtype can only hold "the same numbers" if the numbers fit: the *value domain* of a run clips the image-like
# arguments (data after the caller's background subtraction, error, background, convolved data) to the range every
# dtype of the class holds; the float64 baseline of a representation is run in the same domain.
DOMAINS = collections.OrderedDict([('full', (None, None)),       # the scene as it is (|values| < 2**15): signed types >= 16 bit, floats
                                   ('nonneg', (0.0, None)),      # negative pixels clipped to 0: unsigned types >= 16 bit
                                   ('byte', (0.0, 127.0))])      # a faint 7-bit image: uint8 and int8 (see BYTE_SCALE)
# The 'byte' domain is a fainter exposure of the same scene: data, background and every threshold-like scalar are
# multiplied by BYTE_SCALE (the brightest pixel, about 830, becomes about 124) and the images rounded to integers
# again; the error map is left as it is (values 4..30: they fit, and their squares do not fit into 8 bits).
BYTE_SCALE = 0.15
DOMAIN_OF_REP = {'u2': 'nonneg', 'u4': 'nonneg', 'u8': 'nonneg', 'be_u2': 'nonneg', 'be_u4': 'nonneg', 'be_u8': 'nonneg',
                 'u1': 'byte', 'i1': 'byte'}
# --- one companion at a time (C15) --------------------------------------------
# 'solo_plain:<slot>': data and every companion carry the unit, <slot> alone is a plain number;
# 'solo_unit:<slot>':  data and every companion are plain, <slot> alone carries the unit;
# 'other_unit:<slot>': everything carries the unit, <slot> is given in a convertible but different unit (mJy instead
#                      of Jy, the numbers multiplied by 1000: the same physical quantity)
C15_SOLO = ('solo_plain', 'solo_unit', 'other_unit')
# thorough tier: the full product (dtype x byte order) x memory layout, written 'dtype@layout'
C15_LAYOUTS = ('F', 'strided')

# --- geometry axis (C10) ----------------------------------------------------
# Whether an intermediate array of the implementation is a *view* of the
# caller's buffer or a copy depends on shape relations between the image and
# the box / cutout / aperture / segment / kernel worked on: a slice that spans
# every column of a C-contiguous image is itself contiguous, so reshape / ravel
# of it stay views; a cutout that lies inside the image is a view, one that
# sticks out is rebuilt as a copy; a 1-row or 1-column image makes axis
# reductions and ``atleast_2d`` degenerate.  A *frame* is the sub-region of the
# scene that is handed to the API as "the image"; every frame is cut so that the
# 9x9 pixel block centred on source 0 (x=15, y=14) -- the box / aperture bounding
# box / fit box / segment the recipes work on -- has the stated relation to it.
SRC0 = (15, 14)                                  # x, y of source 0 (integer pixel)
BLOCK = (slice(10, 19), slice(11, 20))           # the 9x9 block around it
FRAMES = collections.OrderedDict([
    ('base', None),                                      # 41x47: block strictly inside the image
    ('tight', (slice(10, 19), slice(11, 20))),           # 9x9:  block == image
    ('fullwidth', (slice(0, 41), slice(11, 20))),        # 41x9: block spans every column (a C-contiguous run of rows)
    ('fullheight', (slice(10, 19), slice(0, 47))),       # 9x47: block spans every row (a Fortran-contiguous run of columns)
    ('under', (slice(11, 18), slice(12, 19))),           # 7x7:  image smaller than the block on every side (== the 7x7 StarFinder kernel)
    ('five', (slice(12, 17), slice(13, 18))),            # 5x5:  == the 5x5 kernels of DAOStarFinder / IRAFStarFinder(fwhm=4)
    ('row', (slice(14, 15), slice(0, 47))),              # 1x47: one-row image through the source
    ('col', (slice(0, 41), slice(17, 18))),              # 41x1: one-column image through the source
])
# Geometries that differ from 'base' / 'tight' only for Fortran-ordered data (a run of complete columns is contiguous in
# Fortran order only): enumerated where the 'fortran' representation is, i.e. in the thorough tier.
GEOMS_THOROUGH_ONLY = ('fullheight',)
# Extra "bad" pixels used for every geometry other than 'base' (the base scene is
# shared with C15 and stays as it was), placed in row 14 and column 17 so that
# the one-row / one-column frames (and the small frames) contain a pixel of
# every kind a clean-up branch writes to.  (14, 17) itself is the NaN data pixel.
EXTRA_NONFINITE_ERR = (((14, 13), np.nan), ((11, 17), np.inf))
EXTRA_NEGATIVE_PIX = ((14, 18), (16, 17))
EXTRA_MA_MASK_PIX = ((14, 12),)                          # (13, 17) is already in column 17
EXTRA_ARG_MASK_PIX = {'masked': ((15, 17),), 'nonfinite': ((14, 14), (12, 17)), 'nonfinite_error': ((14, 14), (12, 17))}


def _gauss2d(a, x0, y0, sx, sy, th, xx, yy):
    ct, st = np.cos(th), np.sin(th)
    xr = (xx - x0) * ct + (yy - y0) * st
    yr = -(xx - x0) * st + (yy - y0) * ct
    return a * np.exp(-0.5 * ((xr / sx) ** 2 + (yr / sy) ** 2))


_SCENE_CACHE = {}


def truth(seed):
    """Noise-free sources, the noise realisation and the 1-sigma error map."""
    if seed not in _SCENE_CACHE:
        yy, xx = np.mgrid[0:SHAPE[0], 0:SHAPE[1]]
        src = np.zeros(SHAPE)
        for s in SOURCES:
            src += _gauss2d(*s, xx, yy)
        rng = np.random.default_rng(1000 + seed)
        noise = rng.normal(0.0, 3.0, SHAPE)
        _SCENE_CACHE[seed] = (src, noise)
    src, noise = _SCENE_CACHE[seed]
    return src.copy(), noise.copy()


def scene(cond, seed, integer=False, maskform='cond', extra=False):
    """-> dict(data, error, background, mask) of float64 / bool ndarrays.

    mask argument by condition (maskform 'cond'): clean/int -> None; negatives
    -> all-False array; nonfinite* -> a few True pixels that do NOT coincide
    with the non-finite pixels (so code that ORs the two really changes
    something); masked -> True pixels inside the sources.  maskform 'none' /
    'empty' force None / an all-False array for every condition (thorough).
    ``extra``: also place the EXTRA_* pixels (geometries other than 'base')."""
    src, noise = truth(seed)
    if cond == 'negatives':
        data = src + noise                     # background-subtracted: noise has negative excursions
        for (y, x) in NEGATIVE_PIX + (EXTRA_NEGATIVE_PIX if extra else ()):
            data[y, x] = -7.5 - 0.25 * x
    else:
        data = src + noise + 20.0              # strictly positive
    error = np.sqrt(np.abs(src) + 9.0) + 1.0
    background = 20.0 + 0.05 * np.mgrid[0:SHAPE[0], 0:SHAPE[1]][1] + 0.0 * src
    mask = None
    if (cond in ('negatives', 'nonfinite', 'nonfinite_error', 'masked') and maskform != 'none') or maskform == 'empty':
        mask = np.zeros(SHAPE, bool)
        if maskform == 'cond':
            for (y, x) in ARG_MASK_PIX.get(cond, ()) + (EXTRA_ARG_MASK_PIX.get(cond, ()) if extra else ()):
                mask[y, x] = True
    if cond in ('nonfinite', 'nonfinite_error'):
        for (y, x), v in NONFINITE_DATA:
            data[y, x] = v
    if cond == 'nonfinite_error':
        for (y, x), v in NONFINITE_ERR + (EXTRA_NONFINITE_ERR if extra else ()):
            error[y, x] = v
    if cond == 'int' or integer:
        data = np.round(data)
        error = np.round(error)
        background = np.round(background)
    return {'data': data, 'error': error, 'background': background, 'mask': mask}


# --------------------------------------------------------------------------
# snapshots of caller-held objects (component-wise, so a change can be named)
# --------------------------------------------------------------------------
def _has_unmergeable(d):
    if isinstance(d, Unmergeable):
        return True
    if isinstance(d, tuple):
        return any(_has_unmergeable(x) for x in d)
    return False


def _lazy_names(cls):
    from astropy.utils import lazyproperty
    names = set()
    for k in dir(cls):
        try:
            a = inspect.getattr_static(cls, k)
        except AttributeError:
            continue
        if isinstance(a, lazyproperty):
            names.add(k)
    return names


def _is_phot(v):
    t = type(v)
    return t.__module__.startswith('photutils.') and hasattr(v, '__dict__') and not hasattr(v, 'param_names')


def snap(obj):
    """dict component -> digest.  Components that are *caches* of a photutils
    object (lazyproperty values appearing in ``__dict__``) are not part of the
    value: a cache that gets filled is not a modification, so only the
    components present before the call are compared (see ``changed``)."""
    import astropy.units as u
    from astropy.nddata import NDData
    from astropy.table import Table
    if isinstance(obj, u.Quantity):
        return {'unit': str(obj.unit), 'dtype': obj.dtype.str, 'shape': obj.shape, 'values': digest(np.asarray(obj.value))}
    if isinstance(obj, np.ma.MaskedArray):
        return {'dtype': obj.dtype.str, 'shape': obj.shape, 'data': digest(np.asarray(obj.data)),
                'mask': digest(np.ma.getmaskarray(obj)),     # nomask and an all-False mask array are the same mask
                'fill_value': repr(obj.fill_value), 'hardmask': bool(obj.hardmask)}
    if isinstance(obj, np.ndarray):
        return {'dtype': obj.dtype.str, 'shape': obj.shape, 'values': digest(obj)}
    if isinstance(obj, NDData):
        return {'data': snap(obj.data), 'mask': None if obj.mask is None else snap(obj.mask),
                'unit': str(obj.unit), 'uncertainty': None if obj.uncertainty is None else snap(obj.uncertainty.array),
                'uncertainty_unit': None if obj.uncertainty is None else str(obj.uncertainty.unit),
                'meta': digest(dict(obj.meta))}
    if isinstance(obj, Table):
        # deep: class, column order, per column values / dtype / shape / unit / mask / class / info (format, description,
        # meta), table meta.  A column that is added, dropped, renamed, reordered, converted or re-typed is named.
        out = {'class': type(obj).__name__, 'colnames': tuple(obj.colnames), 'meta': digest(dict(obj.meta))}
        for n in obj.colnames:
            col = obj[n]
            comp = dict(snap(u.Quantity(col)) if isinstance(col, u.Quantity) else snap(np.asarray(col)))
            comp['unit'] = str(getattr(col, 'unit', None))
            comp['class'] = type(col).__name__
            cm = getattr(col, 'mask', None)
            if cm is not None and not isinstance(col, u.Quantity):
                comp['mask'] = digest(np.array(np.broadcast_to(cm, np.shape(col))))
            info = getattr(col, 'info', None)
            if info is not None:
                try:
                    comp['info'] = (repr(info.format), repr(info.description), digest(dict(info.meta or {})))
                except Exception:     # a mixin column without these attributes
                    pass
            out[f'column {n!r}'] = comp
        return out
    if isinstance(obj, (list, tuple)):
        out = {f'[{i}]': snap(x) for i, x in enumerate(obj)}
        out['(class)'] = type(obj).__name__
        out['(length)'] = len(obj)
        return out
    if isinstance(obj, dict):
        # deep: class, keys in order, every value (nested containers recursively): an entry that is added, dropped,
        # replaced or moved is named
        out = {f'[{k!r}]': snap(v) for k, v in obj.items()}
        out['(class)'] = type(obj).__name__
        out['(key order)'] = tuple(repr(k) for k in obj)
        return out
    tname = type(obj).__module__ + '.' + type(obj).__qualname__
    try:
        from astropy.modeling import Model
    except Exception:  # pragma: no cover
        Model = ()
    if isinstance(obj, Model):
        out = {'type': tname}
        for name in obj.param_names:
            p = getattr(obj, name)
            out['param:' + name] = (digest(np.asarray(p.value)), bool(p.fixed), repr(p.bounds), repr(p.tied), str(p.unit))
        for k in ('data', 'grid_xypos', 'oversampling', 'origin', 'fill_value', 'meta'):
            try:
                v = getattr(obj, k)
            except Exception:
                continue
            d = digest(dict(v) if k == 'meta' else v)
            if not _has_unmergeable(d):
                out['attr:' + k] = d
        if hasattr(obj, 'left') and hasattr(obj, 'right'):
            out['left'] = snap(obj.left)
            out['right'] = snap(obj.right)
        return out
    if tname.startswith('photutils.') and hasattr(obj, '__dict__'):
        lazy = _lazy_names(type(obj))
        out = {'type': tname}
        for k, v in vars(obj).items():
            key = ('cache:' if k in lazy else 'attr:') + k
            if _is_phot(v) or (isinstance(v, (list, tuple)) and any(_is_phot(x) for x in v)):
                out[key] = snap(v)       # nested photutils objects: their caches are not values either
                continue
            d = digest(v)
            if _has_unmergeable(d):
                continue
            out[key] = d
        return out
    d = digest(obj)
    if _has_unmergeable(d):
        return {'unwatchable': tname}
    return {'digest': d}


def changed(before, after, path=''):
    """List of component paths that differ between two ``snap`` results.
    Cached lazy values that were absent before are ignored."""
    out = []
    if isinstance(before, dict) and isinstance(after, dict):
        for k in before:
            if k not in after:
                if not str(k).startswith('cache:'):
                    out.append(f'{path}{k} (removed)')
                continue
            out += changed(before[k], after[k], f'{path}{k}.')
        for k in after:
            if k not in before and not str(k).startswith('cache:'):
                out.append(f'{path}{k} (added)')
        return out
    if before != after:
        out.append(path.rstrip('.') or 'value')
    return out


# --------------------------------------------------------------------------
# output normalisation for C15
# --------------------------------------------------------------------------
class Raised:
    def __init__(self, exc):
        self.type = type(exc).__name__
        self.msg = str(exc)[:300]
        import astropy.units as u
        # astropy's UnitConversionError / UnitTypeError derive from ValueError / TypeError, the plain UnitsError
        # (astropy >= 7) only from Exception: raising it is a deliberate rejection of the units as well
        self.is_rejection = isinstance(exc, (ValueError, TypeError, u.UnitsError))

    def __repr__(self):
        return f'raised {self.type}: {self.msg}'


def norm(x, _depth=0):
    """Normalise an output for cross-representation comparison:
    ('num', float64 ndarray (masked -> NaN), unit string or None) for numeric
    leaves, dict / list containers, ('str', ...) for strings, None, or
    ('opaque', type name) for values that carry no number."""
    import astropy.units as u
    from astropy.table import Table, Row
    from astropy.coordinates import SkyCoord
    if _depth > 6:
        return ('opaque', 'deep')
    if x is None:
        return None
    if isinstance(x, Raised):
        return x
    if isinstance(x, (str, bytes)):
        return ('str', x)
    if isinstance(x, SkyCoord):
        return {'ra': norm(np.asarray(x.spherical.lon.deg), _depth + 1), 'dec': norm(np.asarray(x.spherical.lat.deg), _depth + 1)}
    if isinstance(x, Table):
        return {n: norm(x[n], _depth + 1) for n in x.colnames}
    if isinstance(x, Row):
        return {n: norm(x[n], _depth + 1) for n in x.colnames}
    if isinstance(x, u.Quantity):
        v = norm(np.asarray(x.value) if not isinstance(x.value, np.ma.MaskedArray) else x.value, _depth + 1)
        if isinstance(v, tuple) and v[0] == 'num':
            return ('num', v[1], str(x.unit))
        return v
    if isinstance(x, np.ma.MaskedArray):
        if x.dtype.kind in 'biuf':
            raw = np.ma.getdata(x)
            unit = str(raw.unit) if isinstance(raw, u.Quantity) else None
            vals = np.array(getattr(raw, 'value', raw), dtype=float)
            vals = np.where(np.ma.getmaskarray(x), np.nan, vals)
            return ('num', vals, unit)
        return ('opaque', 'masked ' + x.dtype.str)
    if isinstance(x, (np.ndarray, np.generic, int, float, bool)):
        a = np.asarray(x)
        if a.dtype.kind in 'biuf':
            return ('num', a.astype(float), None)
        if a.dtype == object:
            return [norm(v, _depth + 1) for v in a.ravel().tolist()]
        if a.dtype.kind in 'US':
            return ('str', a.tolist().__repr__())
        return ('opaque', a.dtype.str)
    if isinstance(x, (list, tuple)):
        return [norm(v, _depth + 1) for v in x]
    if isinstance(x, dict):
        return {str(k): norm(v, _depth + 1) for k, v in x.items()}
    if isinstance(x, slice):
        return ('num', np.array([x.start if x.start is not None else -1, x.stop if x.stop is not None else -1], float), None)
    tname = type(x).__module__ + '.' + type(x).__qualname__
    from astropy.nddata import NDData
    if isinstance(x, NDData):
        out = {'nddata.data': norm(x.data if x.unit is None else x.data * x.unit, _depth + 1)}
        if x.uncertainty is not None:
            out['nddata.uncertainty'] = norm(x.uncertainty.array, _depth + 1)
        return out
    if tname.startswith('photutils.'):
        # results that ARE numbers; every other photutils object (catalogs, finders, fit
        # objects) is compared through the steps that read its public members
        from photutils.aperture import Aperture, ApertureMask, BoundingBox
        from photutils.segmentation import Segment, SegmentationImage
        from photutils.utils.cutouts import CutoutImage
        if isinstance(x, SegmentationImage):
            return {'segm.data': norm(x.data, _depth + 1)}
        if isinstance(x, (ApertureMask, Segment, CutoutImage)):
            return {'data': norm(x.data, _depth + 1)}
        if isinstance(x, BoundingBox):
            return ('num', np.array([x.ixmin, x.ixmax, x.iymin, x.iymax], float), None)
        if isinstance(x, Aperture):
            return {k: norm(getattr(x, k), _depth + 1) for k in x._params}
        if hasattr(x, 'param_names') and hasattr(x, 'parameters'):
            return {'params': norm(np.asarray(x.parameters), _depth + 1)}
        return ('opaque', tname)
    return ('opaque', tname)


# --------------------------------------------------------------------------
# the context
# --------------------------------------------------------------------------
class Ctx:
    """Hands out arguments in one representation / data condition, executes
    steps, watches the caller-held objects."""

    def __init__(self, rep, cond, seed, integer_scene=False, scale=1.0, maskform='cond', geom='base', domain='full', extras=False, full=False):
        import astropy.units as u
        self.full = full                     # C10: recipes with a quick-tier sub-product enumerate their full product (thorough tier)
        self.domain = domain                 # value domain (C15): see DOMAINS
        # C10: ``members`` also calls the plotting / patch / region members and the members that need arguments, with the
        # NON-default argument sets of ``registry_members`` and watching the object itself; recipes run their
        # ``if c.extras:`` steps (C15 compares numbers and leaves them out)
        self.extras = extras
        self.masks_out = []                  # (name, 'all-False' | 'some-True', is a view) of every mask handed out
        # companion slots (C15, one companion at a time): every unit-ful companion argument handed out has a slot name
        # one companion at a time (C10): see COMPANION_KINDS_*
        self.rep_label = rep
        self.comp = None                     # (kind, slot)
        self.comp_applied = 0                # how often the slot was handed out in its representation
        self.array_slots = collections.OrderedDict()     # slot -> {'kinds': 'all' | 'layout', 'mask': follows the scene's mask argument}
        if rep.startswith('companion:'):
            _, kind, slot = rep.split(':', 2)
            self.comp = (kind, slot)
            rep = 'ndarray'
        self.nd_form = ()                    # C15: form of the NDData container (see NDDATA_FORMS)
        if nddata_base(rep) is not None and '+' in rep:
            rep, *form = rep.split('+')
            self.nd_form = tuple(form)
        self.solo = tuple(rep.split(':', 1)) if ':' in rep else None      # (mode, slot)
        self.slots = collections.OrderedDict()      # slot name -> number of hand-outs
        self.step_slots = {}                        # step label -> slots the call receives (directly or through an object built from them)
        self._slot_refs = {}                        # id(obj) -> (obj, {slots}): objects that carry a companion
        self._pending = set()                       # slots handed out outside a step and not yet attached to a held / carried object
        self._loose = set()                         # ... those of them that are scalars (not recognisable by identity)
        self._built = set()                         # ids of carried objects that are results of steps (stateful objects)
        self.step_built = {}                        # step label -> ids of such objects the call receives
        self.uncast = []                            # arguments left float64 because the integer dtype cannot hold their values
        self._running = None                        # slots handed out while the current step runs
        self.rep = rep
        self.cond = cond
        self.seed = seed
        if domain == 'byte':
            scale = scale * BYTE_SCALE
        self.scale = scale
        self.maskform = maskform
        self.geom = geom
        self.region = FRAMES.get(geom)      # recipes with their own geometry names call set_frame()
        self.sc = scene(cond, seed, integer=integer_scene, maskform=maskform, extra=(geom != 'base'))
        if scale != 1.0:
            for k in ('data', 'error', 'background'):
                if domain == 'byte':
                    if k != 'error':
                        self.sc[k] = np.round(self.sc[k] * scale)
                    continue
                self.sc[k] = self.sc[k] * scale
        self.unit = u.Jy
        self.held = collections.OrderedDict()
        self.before = None
        self.steps = []          # (label, 'ok' | 'raised:Type')
        self.out = collections.OrderedDict()
        self.changes = []        # (label, argname, [components])
        self.mix_steps = set()
        self.uses_companion = False
        self.uses_data = False

    # ---- representation helpers -------------------------------------------
    @property
    def unitful_data(self):
        return self.rep in ('quantity', 'mixed_data') or (self.solo is not None and self.solo[0] in ('solo_plain', 'other_unit'))

    @property
    def unitful_companion(self):
        return self.rep in ('quantity', 'mixed_companion', 'nddata_q')

    def slot_mode(self, slot):
        """'plain' | 'unit' | 'other' (convertible but different unit) for the
        companion ``slot`` in this representation."""
        if self.solo is not None:
            mode, s = self.solo
            if mode == 'solo_plain':
                return 'plain' if s == slot else 'unit'
            if mode == 'solo_unit':
                return 'unit' if s == slot else 'plain'
            if mode == 'other_unit':
                return 'other' if s == slot else 'unit'
        return 'unit' if self.unitful_companion else 'plain'

    def _companion(self, slot, value, unit=None, power=1):
        """``value`` as the companion ``slot``: a plain number, a Quantity in
        ``unit`` (default: the data unit) or the same physical quantity in the
        other unit (mJy in place of Jy; ``power``: the power of the data unit
        in ``unit``).  Records which step / object receives the slot."""
        import astropy.units as u
        self.uses_companion = True
        self.slots[slot] = self.slots.get(slot, 0) + 1
        mode = self.slot_mode(slot)
        if mode != 'plain':
            unit = self.unit if unit is None else unit
            value = value * unit
            if mode == 'other':
                value = value.to(unit * (u.mJy / u.Jy) ** power)
        if self._running is not None:
            self._running.add(slot)
        else:
            self._pending.add(slot)
        if isinstance(value, np.ndarray) and value.ndim:
            self._carry(value, {slot})       # an array is recognised by identity wherever it is passed
        elif self._running is None:
            self._loose.add(slot)            # a scalar made outside a step must be attached with hold() / carry()
        return value

    def _carry(self, obj, slots):
        if slots:
            old = self._slot_refs.get(id(obj))
            self._slot_refs[id(obj)] = (obj, set(slots) | (old[1] if old is not None and old[0] is obj else set()))

    def carry(self, obj):
        """``obj`` was built (outside a step) from the companions handed out
        since the last hold / carry / step: a call that receives it receives them."""
        self._carry(obj, self._pending)
        self._pending = set()
        self._loose = set()
        return obj

    def _slots_of(self, thunk):
        """Slots carried by the objects a step's thunk refers to."""
        out = set()
        for cell in (getattr(thunk, '__closure__', None) or ()):
            try:
                v = cell.cell_contents
            except ValueError:
                continue
            ref = self._slot_refs.get(id(v))
            if ref is not None and ref[0] is v:
                out |= ref[1]
        return out

    def q(self, value, name=None, unit=None, power=1, scaled=True, alone=True):
        """A threshold-like scalar (or array) carrying the data unit when the
        representation is unit-ful.  ``name``: companion slot (default: named
        after the value).  ``alone=False``: an array that becomes a table column
        (not an array argument: no companion slot of the C10 axis)."""
        if name is None:
            name = 'q=%g' % value if np.ndim(value) == 0 else 'q=array'
        if scaled:
            value = value * self.scale
        v = self._companion(name, value, unit=unit, power=power)
        if alone and isinstance(v, np.ndarray) and v.ndim and self.slot_mode(name) == 'plain':
            alt = self._alone(name, v)
            if alt is not None:
                self._carry(alt, {name})
                return alt
        return v

    def hold(self, name, obj):
        """Register a caller-held object to be watched (snapshot taken now if
        the first step has already run)."""
        self.held[name] = obj
        if self.before is not None:
            self.before[name] = snap(obj)
        if self._pending and not name.endswith('.base'):
            self.carry(obj)
        return obj

    def exempt(self, name):
        """Stop watching an object (documented in-place mutator of it follows)."""
        self.held.pop(name, None)
        self.held.pop(name + '.base', None)

    def _layout(self, name, a, fill, cast=True):
        """Memory layout / dtype part of the representation (no container).
        'dtype@layout' (C15, thorough): the cast first, then the layout."""
        rep = self.rep
        if '@' in rep:
            dt, rep = rep.split('@', 1)
            if cast and a.dtype.kind == 'f':
                a = self._cast(name, a, dt)
            cast = False
        if rep == 'view':
            parent = np.pad(a, 3, constant_values=fill)
            self.hold(name + '.base', parent)
            return parent[(slice(3, -3),) * a.ndim]
        if rep == 'strided':
            parent = a
            for ax in range(a.ndim):
                parent = np.repeat(parent, 2, ax)
            parent = parent.copy()
            self.hold(name + '.base', parent)
            return parent[(slice(None, None, 2),) * a.ndim]
        if rep in ('fortran', 'F'):
            return np.asfortranarray(a)
        if cast and a.dtype.kind == 'f':
            return self._cast(name, a, rep)
        return a.copy()

    def _cast(self, name, a, rep):
        """dtype part of the representation (always a new array)."""
        if rep in ('float32', 'f4'):
            return a.astype('<f4')
        if rep in ('bigendian', 'be'):
            return a.astype('>f8')
        if rep == 'i4':
            return a.astype('<i4')
        if rep == 'i8':
            return a.astype('<i8')
        if rep in DTYPE_OF_REP:
            # the remaining members of the dtype x byte-order axis; an integer type is used only where it holds
            # the numbers exactly (e.g. a kernel with values up to 300 stays float64 next to a uint8 image)
            b = a.astype(DTYPE_OF_REP[rep])
            if b.dtype.kind == 'f' or np.array_equal(b.astype(float), a):
                return b
            self.uncast.append(name)
        return a.copy()

    def _dom(self, a):
        """Clip an image-like argument to the value domain of the run."""
        lo, hi = DOMAINS[self.domain]
        if lo is None and hi is None:
            return a
        if self.domain == 'byte':
            a = np.round(a)
        return np.clip(a, lo, hi)

    def _cut(self, a, region):
        if region is None:
            region = self.region             # the frame of the geometry (None: the whole scene)
        return a if region is None else a[region]

    # ---- geometry helpers ---------------------------------------------------
    def set_frame(self, region):
        """The sub-region of the scene that is "the image" from now on."""
        self.region = region

    @property
    def origin(self):
        """(x0, y0) of the frame in scene pixels."""
        if self.region is None:
            return (0, 0)
        return (self.region[1].start or 0, self.region[0].start or 0)

    @property
    def shape(self):
        """Shape of the framed image."""
        return np.empty(SHAPE, bool)[self.region].shape if self.region is not None else SHAPE

    def fx(self, x):
        """Scene x coordinate(s) -> frame coordinates."""
        return x - self.origin[0]

    def fy(self, y):
        return y - self.origin[1]

    def sources(self):
        """(x, y) arrays of the catalogued sources in frame coordinates: all
        three for the whole scene; for a frame only source 0, moved onto the
        nearest pixel of the image where the frame does not contain its centre
        (the one-column frame runs through its wing)."""
        if self.region is None:
            return XPOS.copy(), YPOS.copy()
        x, y = self.src0()
        return np.array([x]), np.array([y])

    def src0(self):
        """Position of source 0 in frame coordinates (floats), clipped to the image."""
        ny, nx = self.shape
        return (float(min(max(self.fx(SRC0[0]), 0), nx - 1)), float(min(max(self.fy(SRC0[1]), 0), ny - 1)))

    def block_bbox(self):
        """(ixmin, ixmax, iymin, iymax) of the 9x9 block around source 0 in
        frame coordinates (not clipped: it sticks out of the 'under' frame)."""
        x0, y0 = self.origin
        return (BLOCK[1].start - x0, BLOCK[1].stop - x0, BLOCK[0].start - y0, BLOCK[0].stop - y0)

    def array(self, name, a, kind='data', mask_slot=False):
        """Wrap a float64 / bool ndarray ``a`` in the representation.
        kind 'data': primary image-like argument (containers + layout);
        'companion': unit-ful companion (error, background, threshold map);
        'plain': unit-less numeric argument such as a kernel (dtype + layout);
        'aux': any other array (layout only, never re-typed)."""
        a = np.array(a)
        rep = self.rep
        if kind in ('plain', 'aux') or a.dtype.kind == 'b':
            # 'aux' arrays (coordinate grids, masks): memory layouts only; 'plain' ones (kernels): by shape and dtype
            alt = self._alone(name, a, kinds='layout' if (kind == 'aux' or a.dtype.kind == 'b') else None, mask=mask_slot)
            if alt is not None:
                return self.hold(name, alt)
        if kind == 'plain':        # unit-less numeric argument (e.g. a kernel): dtype + layout only
            return self.hold(name, self._layout(name, a, 0))
        if kind == 'aux' or a.dtype.kind == 'b':
            return self.hold(name, self._layout(name, a, 0 if a.dtype.kind != 'b' else False, cast=False))
        if kind == 'companion':
            q = self._companion(name, self._dom(a))      # slot = the argument's name; hold() below attaches it to the object
            if self.slot_mode(name) != 'plain':
                return self.hold(name, q)
            a = q
            alt = self._alone(name, a)
            if alt is not None:
                return self.hold(name, alt)
            if rep == 'ma_error':
                return self.hold(name, np.ma.MaskedArray(a, mask=np.zeros(a.shape, bool)))
            return self.hold(name, self._layout(name, a, 1))
        if rep == 'ma_nomask':
            obj = np.ma.MaskedArray(a)
        elif rep in ('ma_empty', 'ma_error'):
            obj = np.ma.MaskedArray(a, mask=np.zeros(a.shape, bool))
        elif rep == 'ma_masked':
            m = np.zeros(a.shape, bool)
            m.flat[[a.size // 3, a.size // 2 + 3]] = True
            obj = np.ma.MaskedArray(a, mask=m)
        elif self.unitful_data:
            obj = a * self.unit
        else:
            obj = self._layout(name, a, 7)
        return self.hold(name, obj)

    # ---- one companion at a time (C10) ----------------------------------------
    def _alone(self, name, a, kinds=None, mask=False):
        """Register the array argument ``name`` as a companion slot; when this
        run singles it out ('companion:<kind>:<name>') return it in that
        representation (None otherwise: the caller hands it out as usual)."""
        if kinds is None:
            kinds = 'all' if (a.ndim == 2 and a.dtype.kind == 'f') else 'layout'
        self.array_slots.setdefault(name, {'kinds': kinds, 'mask': bool(mask)})
        if self.comp is None or self.comp[1] != name:
            return None
        kind = self.comp[0]
        if kind not in COMPANION_LAYOUT_KINDS and kinds != 'all':
            return None
        self.comp_applied += 1
        a = np.array(a)
        if kind == 'strided':
            parent = a
            for ax in range(a.ndim):
                parent = np.repeat(parent, 2, ax)
            parent = parent.copy()
            self.hold(name + '.base', parent)
            return parent[(slice(None, None, 2),) * a.ndim]
        if kind in ('ma', 'ma_empty'):
            m = np.zeros(a.shape, bool)
            if kind == 'ma':             # True pixels that do not coincide with the bad pixels of the scene
                m.flat[[a.size // 3, (a.size // 2 + 3) % a.size]] = True
            return np.ma.MaskedArray(a, mask=m)
        raise ValueError(f'unknown companion representation {kind!r}')

    def arg(self, name, a, kinds=None):
        """Any other array argument the caller holds (kernel, weights,
        footprint, coordinate arrays): handed over as it is -- and watched --
        except in the run that singles it out (see ``_alone``).  ``kinds``:
        'all' (MaskedArray kinds + layouts) or 'layout'; default by shape and
        dtype (two-dimensional float arrays: 'all')."""
        alt = self._alone(name, np.asarray(a), kinds=kinds)
        return self.hold(name, a if alt is None else alt)

    def data(self, region=None, name='data', nddata_ok=False, offset=0.0, nd_wcs=None):
        """The primary image in the requested representation (held).
        ``offset`` is added first (a caller subtracting the background)."""
        from astropy.nddata import NDData, StdDevUncertainty
        self.uses_data = True
        a = self._dom(self._cut(self.sc['data'], region) + offset * self.scale)     # ('byte' domain: rounded to integers again)
        if self.cond == 'int' and self.rep not in ('i4', 'i8', 'f4', 'float32', 'be', 'bigendian'):
            a = a.astype(np.int32)
        rep = self.rep
        if rep == 'ma_masked':
            m = np.zeros(self.sc['data'].shape, bool)
            for (y, x) in MA_MASK_PIX + (EXTRA_MA_MASK_PIX if self.geom != 'base' else ()):
                m[y, x] = True
            return self.hold(name, np.ma.MaskedArray(a.copy(), mask=self._cut(m, region).copy()))
        if rep in NDDATA_REPS:
            if not nddata_ok:
                raise NotApplicable('entry does not accept NDData')
            e = self._cut(self.sc['error'], region).copy()
            m = self._cut(self.sc['mask'], region).copy() if self.sc['mask'] is not None else None
            # 'nddata_q' (C15): the NDData carries the unit (its uncertainty inherits it), companions are Quantities
            if self.nd_form:                 # C15: uncertainty type x unit form x container class
                from astropy.nddata import CCDData
                unit = self.unit if rep == 'nddata_q' else None
                return self.hold(name, (CCDData if 'ccd' in self.nd_form else NDData)(
                    a.copy(), uncertainty=nddata_uncertainty(self.nd_form, e, unit), mask=m, wcs=nd_wcs, unit=unit))
            return self.hold(name, NDData(a.copy(), uncertainty=StdDevUncertainty(e), mask=m, wcs=nd_wcs,
                                          unit=self.unit if rep == 'nddata_q' else None))
        return self.array(name, a, kind='data')

    def error(self, region=None, name='error', kind='error'):
        """A companion array (error / background) in the representation."""
        self.uses_companion = True
        if self.rep in NDDATA_REPS and kind == 'error':
            return None
        return self.array(name, self._cut(self.sc[kind], region), kind='companion')

    def background(self, region=None, name='background'):
        return self.error(region, name, kind='background')

    def mask(self, region=None, name='mask', even_for_nddata=False):
        if (self.rep in NDDATA_REPS and not even_for_nddata) or self.sc['mask'] is None:
            return None
        return self._log_mask(name, self.array(name, self._cut(self.sc['mask'], region), kind='aux', mask_slot=True))

    def _log_mask(self, name, m):
        self.masks_out.append((name, 'some-True' if np.any(m) else 'all-False', m.base is not None))
        return m

    def own_mask(self, name, true_pixels):
        """A boolean mask-like argument the recipe builds itself (source mask,
        coverage mask): it follows the mask form of the run like ``mask()``
        does -- all-False where the scene's mask argument is an all-False array
        (condition 'negatives', mask form 'empty'), ``true_pixels`` otherwise --
        and the memory layout of the representation (a view of a larger array
        in 'view', with the parent watched)."""
        sm = self.sc['mask']
        a = np.array(true_pixels, dtype=bool)
        if sm is not None and not sm.any():
            a = np.zeros(a.shape, bool)
        return self._log_mask(name, self.array(name, a, kind='aux'))

    def clean(self, kind='data', region=None):
        """float64 clean scene array (for set-up work that is not under test)."""
        return self._cut(scene('clean', self.seed)[kind], region).copy()

    # ---- execution ---------------------------------------------------------
    def arm(self):
        self.before = {k: snap(v) for k, v in self.held.items()}

    def step(self, label, thunk, keep_output=True, mix=False, ignores=()):
        """``mix``: the call receives the data AND a unit-ful companion argument
        (error, background, threshold, flux): C15 demands that it raises when
        only one of the two carries units.  ``ignores``: companion slots carried
        by an object the call receives but documented not to be used by it."""
        if self.before is None:
            self.arm()
        if mix:
            self.mix_steps.add(label)
        if self._loose:
            raise AssertionError(f'recipe error before step {label!r}: scalar companion(s) {sorted(self._loose)} made outside a step '
                                 'must be attached to the object built from them with hold() / carry()')
        self._pending = set()
        # companions the call receives: carried by the objects the thunk refers to + handed out while it runs
        self._running = self._slots_of(thunk)
        self.step_built[label] = {id(cell.cell_contents) for cell in (getattr(thunk, '__closure__', None) or ())
                                  if _cell_filled(cell) and id(cell.cell_contents) in self._built}
        try:
            with warnings.catch_warnings():
                warnings.simplefilter('ignore')
                res = thunk()
        except NotApplicable:
            raise
        except Exception as e:  # the property covers calls that raise as well
            res = None
            status = 'raised:' + type(e).__name__
            self.out[label] = Raised(e)
        else:
            status = 'ok'
            if keep_output:
                self.out[label] = res
        finally:
            used, self._running = self._running, None
        used -= set(ignores)
        self.step_slots[label] = used
        if res is not None and used and not isinstance(res, (bool, int, float, str)):
            self._carry(res, used)           # an object built from companions carries them into the calls that receive it
            self._built.add(id(res))
        self.steps.append((label, status))
        hit = set()
        for k, v in self.held.items():
            s = snap(v)
            ch = changed(self.before[k], s)
            if ch:
                self.before[k] = s          # report each modification once
                hit.add(k)
                if k.endswith('.base'):
                    continue
                self.changes.append((label, k, ch))
        for k in hit:
            # the parent of a view changes with the view: one report; a write outside the view is its own
            if k.endswith('.base') and k[:-5] not in hit:
                self.changes.append((label, k, ['values outside the view']))
        return res

    def members(self, label, obj, skip=(), only=None, own=False):
        """Evaluate every public property and every public method that can be
        called without arguments, one step each (sorted by name).  ``own``:
        only the members defined by photutils classes (for astropy Model
        subclasses).  With ``extras`` (C10) a second pass follows, see
        ``_member_extras``."""
        if obj is None:
            return
        for name, kind in member_names(type(obj), own=own):
            if name in skip or (only is not None and name not in only):
                continue
            if kind == 'property':
                self.step(f'{label}.{name}', lambda n=name: getattr(obj, n))
            elif kind == 'method0':
                self.step(f'{label}.{name}()', lambda n=name: getattr(obj, n)())
        if self.extras:
            self._member_extras(label, obj, skip, only, own)

    def _member_extras(self, label, obj, skip, only, own):
        """Second pass of ``members`` (C10): every plotting / patch member and
        every member that needs arguments is called with the NON-default
        argument sets of ``registry_members`` (plotting members without an entry
        get theirs from the signature: an Axes, origin != 0, scale != 1, patch
        keywords), methods with optional arguments get their listed non-default
        variants.  While this pass runs the object itself is watched as 'self'
        (its caches are filled by the first pass: a cached value that changes is
        a modification), unless it is already watched under another name, is
        exempt (``SELF_EXEMPT``) or the call is a documented mutator of it."""
        from . import registry_members as M
        cls = type(obj)
        watch_self = not any(v is obj for v in self.held.values()) and not M.self_exempt(cls)
        if watch_self:
            self.hold('self', obj)
        try:
            for name, kind in member_names(cls, own=own):
                if name in skip or (only is not None and name not in only) or kind in ('property', 'mutator'):
                    continue
                for variant, build, mutates_self in M.argument_sets(cls, name, kind):
                    if mutates_self and watch_self:
                        self.held.pop('self', None)
                    args, kwargs = build(self, obj)
                    lab = f'{label}.{name}({variant})'
                    self.step(lab, lambda n=name, a=args, k=kwargs: getattr(obj, n)(*a, **k), keep_output=False)
                    M.after_plot(self)
                    if mutates_self and watch_self:
                        self.hold('self', obj)
        finally:
            if watch_self:
                self.held.pop('self', None)
                if self.before is not None:
                    self.before.pop('self', None)

    # ---- plotting helpers (C10 extras) ---------------------------------------
    def plot_ax(self):
        """The Axes the plotting members draw on (one per process, cleared
        after every plotting step)."""
        from . import registry_members as M
        return M.axes()

    def plot_step(self, label, thunk):
        """A step that draws on ``plot_ax()``; what it drew is removed afterwards."""
        from . import registry_members as M
        res = self.step(label, thunk, keep_output=False)
        M.after_plot(self)
        return res

    def plot_origin(self):
        """A non-zero ``origin`` handed over as an ndarray the caller holds."""
        if 'plot_origin' not in self.held:
            self.hold('plot_origin', np.array([3.5, -2.0]))
        return self.held['plot_origin']


def _cell_filled(cell):
    try:
        cell.cell_contents
    except ValueError:
        return False
    return True


class NotApplicable(Exception):
    """(entry, representation) combination outside the API's domain."""


_MEMBER_CACHE = {}


def member_names(cls, own=False):
    """[(name, kind)] with kind in {'property', 'method0', 'method-needs-args',
    'plot', 'mutator'} for every public member of ``cls`` (``own``: only those
    defined by a photutils class of its MRO)."""
    if (cls, own) in _MEMBER_CACHE:
        return _MEMBER_CACHE[cls, own]
    from astropy.utils import lazyproperty
    own_names = set()
    for k in cls.__mro__:
        if k.__module__.startswith('photutils.'):
            own_names |= set(vars(k))
    out = []
    for name in sorted(dir(cls)):
        if name.startswith('_') or (own and name not in own_names):
            continue
        try:
            a = inspect.getattr_static(cls, name)
        except AttributeError:
            continue
        if name in MUTATORS:
            out.append((name, 'mutator'))
        elif isinstance(a, (property, lazyproperty)) or (hasattr(type(a), '__get__') and not callable(a)
                                                         and not isinstance(a, (classmethod, staticmethod))):
            out.append((name, 'property'))
        elif inspect.isfunction(a):
            if name.startswith(PLOT_PREFIXES):
                out.append((name, 'plot'))
                continue
            params = list(inspect.signature(a).parameters.values())[1:]
            free = [p for p in params if p.default is p.empty and p.kind not in (p.VAR_POSITIONAL, p.VAR_KEYWORD)]
            out.append((name, 'method0' if not free else 'method-needs-args'))
    _MEMBER_CACHE[cls, own] = out
    return out


# --------------------------------------------------------------------------
# recipes
# --------------------------------------------------------------------------
Recipe = collections.namedtuple('Recipe', 'name fn covers nddata units numeric slow axes geoms companions')
RECIPES = collections.OrderedDict()


def recipe(name, covers, nddata=False, units=False, numeric=True, slow=False, axes=('rep', 'cond'), geoms=('base',),
           companions=True):
    """Register a recipe.  ``covers``: public callables it exercises;
    ``nddata``: the data argument may be an NDData; ``units``: the API
    documents Quantity inputs (C15 demands they work and that mixing raises);
    ``numeric``: the recipe takes image data and takes part in C15;
    ``slow``: run in the thorough tier only; ``axes``: which of the product
    axes the recipe's arguments depend on (a recipe that takes no image does
    not depend on the data condition, and is run once along that axis);
    ``geoms``: the geometry alphabet of the recipe (C10; first = 'base', the
    only geometry C15 uses): names of ``FRAMES`` or recipe-specific names the
    recipe function interprets itself (``c.geom``); ``companions=False``: the
    recipe has no array argument besides the image (C10 plans no
    one-companion-at-a-time unit for it)."""
    def deco(fn):
        assert geoms[0] == 'base'
        RECIPES[name] = Recipe(name, fn, tuple('photutils.' + c for c in covers), nddata, units, numeric, slow, tuple(axes),
                               tuple(geoms), bool(companions))
        return fn
    return deco


def run_recipe(name, rep, cond, seed, integer_scene=False, scale=1.0, maskform='cond', geom='base', domain='full', extras=False,
               full=False):
    """Execute one recipe; returns the context (steps, changes, outputs) or
    None when the combination is not applicable."""
    r = RECIPES[name]
    if (nddata_base(rep) is not None and not r.nddata) or geom not in r.geoms:
        return None
    c = Ctx(rep, cond, seed, integer_scene=integer_scene, scale=scale, maskform=maskform, geom=geom, domain=domain, extras=extras, full=full)
    try:
        with warnings.catch_warnings():
            warnings.simplefilter('ignore')
            r.fn(c)
    except NotApplicable:
        return None
    return c


def _resolve(qualname):
    mod, name = qualname.rsplit('.', 1)
    return getattr(importlib.import_module(mod), name)


def via_concrete(base_name, covered):
    """Recipes through which an abstract base class / mixin / descriptor class
    is covered (see ``VIA_CONCRETE``), or None when the claim does not verify."""
    from . import registry_members as M
    conc_name = VIA_CONCRETE.get(base_name)
    if conc_name is None or conc_name not in covered:
        return None
    try:
        base, conc = _resolve(base_name), _resolve(conc_name)
    except Exception:
        return None
    if base_name.startswith('photutils.aperture.attributes.'):
        used = any(isinstance(inspect.getattr_static(conc, k, None), base) for k in dir(conc))
        return covered[conc_name] if used else None
    if not issubclass(conc, base):
        return None
    missing = {n for names in M.not_evaluated(conc).values() for n in names}
    own = {n for n in vars(base) if not n.startswith('_')} - MUTATORS
    return covered[conc_name] if not (own & missing) else None


def coverage():
    pub = walk_public()
    covered = collections.defaultdict(list)
    for r in RECIPES.values():
        for cname in r.covers:
            covered[cname].append(r.name)
    out = {'public_callables': len(pub), 'covered': {}, 'covered_through_concrete_class': {}, 'uncovered': {}, 'unclassified': [],
           'stale_registry_names': []}
    for n in sorted(pub):
        if n in covered:
            out['covered'][n] = covered[n]
        elif n in UNCOVERED:
            out['uncovered'][n] = UNCOVERED[n]
        elif via_concrete(n, covered) is not None:
            out['covered_through_concrete_class'][n] = {'concrete_class': VIA_CONCRETE[n], 'recipes': via_concrete(n, covered)}
        else:
            out['unclassified'].append(n)
    for n in list(covered) + list(UNCOVERED) + list(VIA_CONCRETE):
        if n not in pub:
            out['stale_registry_names'].append(n)
    return out


from . import registry_recipes  # noqa: E402,F401  (fills RECIPES)
from . import registry_containers  # noqa: E402,F401  (C10: container arguments, EPSF star geometries)
