"""Reference mathematics for C13 (PSF/PRF normalisation, image-model index
arithmetic, gridded-model blending).

Nothing here imports photutils.  Trusted base: numpy (Gauss-Legendre nodes from
``numpy.polynomial.legendre.leggauss``), ``math``, and ``scipy.special.j0/j1``
for the Airy encircled-energy closed form.

Closed forms (textbook; none of them is taken from photutils' code)

* circular Gaussian of total flux 1:   EE(R) = 1 - exp(-R^2 / (2 sigma^2))
* Moffat  (beta-1)/(pi alpha^2) (1+r^2/alpha^2)^-beta:   EE(R) = 1 - (1+R^2/alpha^2)^(1-beta)
* Airy    I ~ (2 J1(k r)/(k r))^2, first zero at ``radius`` (k = j11/radius):
          EE(R) = 1 - J0(kR)^2 - J1(kR)^2                (Rayleigh 1881; Born & Wolf 8.5.2)
* Riemann sum of a Gaussian with smallest standard deviation ``s`` on ANY
  shifted square lattice of step ``h``:  |h^2 sum - integral| <= 4 exp(-2 pi^2 s^2 / h^2)
  (Poisson summation; the Fourier transform of the Gaussian at the non-zero
  reciprocal lattice vectors), i.e. < 1e-33 for h = s/2.
"""
import math

import numpy as np

F2S = 1.0 / (2.0 * math.sqrt(2.0 * math.log(2.0)))     # FWHM -> sigma of a Gaussian
J11 = 3.8317059702075125                                # first positive zero of J1 (A&S table 9.5)

_GL = {}


def gl(n):
    """Gauss-Legendre nodes/weights on [-1, 1]."""
    if n not in _GL:
        _GL[n] = np.polynomial.legendre.leggauss(n)
    return _GL[n]


def panel_nodes(edges, n):
    """Composite Gauss-Legendre rule: nodes, weights and the panel index of each node."""
    t, w = gl(n)
    rs, ws, ps = [], [], []
    for k in range(len(edges) - 1):
        a, b = edges[k], edges[k + 1]
        rs.append(0.5 * (b - a) * t + 0.5 * (a + b))
        ws.append(0.5 * (b - a) * w)
        ps.append(np.full(n, k))
    return np.concatenate(rs), np.concatenate(ws), np.concatenate(ps)


def polar_cumulative(f, cx, cy, edges, nr=20, nphi=8, phi0=0.2137):
    """Cumulative integrals of f over the discs of radius edges[1:], centred on
    (cx, cy): composite Gauss-Legendre in r, trapezoid in phi (exact for every
    angular harmonic below nphi; phi0 keeps the rays off the pixel axes).

    ``f(x, y)`` is called ONCE with 2-D arrays.  Returns (cumulative array, min of f, max of f)."""
    r, w, p = panel_nodes(edges, nr)
    phi = phi0 + 2.0 * math.pi * np.arange(nphi) / nphi
    x = cx + r[:, None] * np.cos(phi)[None, :]
    y = cy + r[:, None] * np.sin(phi)[None, :]
    v = np.asarray(f(x, y), dtype=float)
    ring = v.mean(axis=1) * 2.0 * math.pi * r * w
    per_panel = np.bincount(p, weights=ring, minlength=len(edges) - 1)
    return np.cumsum(per_panel), float(v.min()), float(v.max())


def lattice_integral(f, cx, cy, smin, smax, off=(0.123, 0.377), nsig=8.5):
    """h^2 * sum of f on a shifted square lattice of step h = smin/2 covering
    +-nsig*smax around (cx, cy).  See the module docstring for the error bound;
    the truncated tail of a Gaussian beyond 8.5 sigma is < 3e-16."""
    h = smin / 2.0
    n = int(math.ceil(nsig * smax / h))
    k = np.arange(-n, n + 1)
    xs = cx + (k + off[0]) * h
    ys = cy + (k + off[1]) * h
    xx, yy = np.meshgrid(xs, ys)
    v = np.asarray(f(xx, yy), dtype=float)
    return float(v.sum() * h * h), float(v.min()), v.size


def pixel_integral(f, px, py, smin, n=10):
    """Integral of f over the unit pixel centred on (px, py): tensor composite
    Gauss-Legendre, panels no longer than smin (10 nodes per panel: the
    integrand is a Gaussian of scale >= smin, error < 1e-15 relative)."""
    npan = max(1, int(math.ceil(1.0 / smin)))
    edges = np.linspace(-0.5, 0.5, npan + 1)
    t, w, _ = panel_nodes(edges, n)
    xx, yy = np.meshgrid(px + t, py + t)
    ww = w[None, :] * w[:, None]
    v = np.asarray(f(xx, yy), dtype=float)
    return float((v * ww).sum())


def ee_gauss(R, sigma):
    return -math.expm1(-R * R / (2.0 * sigma * sigma))


def ee_moffat(R, alpha, beta):
    return 1.0 - (1.0 + (R / alpha) ** 2) ** (1.0 - beta)


def ee_airy(R, radius):
    from scipy.special import j0, j1
    z = J11 * R / radius
    return 1.0 - float(j0(z)) ** 2 - float(j1(z)) ** 2


# ---------------------------------------------------------------- image models
def sample_coords(n, origin, ov, c0):
    """Output coordinate of every input sample j = 0..n-1 along one axis:
    the sample ``origin`` sits at ``c0`` and samples are 1/ov apart."""
    return c0 + (np.arange(n) - origin) / ov


def bilinear_weights(grid, p):
    """1-D part of the blend: -> [(index, weight), ...] for position p on the
    sorted 1-D array of grid coordinates (clamped to the grid: nearest edge
    value outside; a single-element grid always has weight 1)."""
    g = list(grid)
    if len(g) == 1 or p <= g[0]:
        return [(0, 1.0)]
    if p >= g[-1]:
        return [(len(g) - 1, 1.0)]
    i = max(k for k in range(len(g) - 1) if g[k] <= p)
    t = (p - g[i]) / (g[i + 1] - g[i])
    out = [(i, 1.0 - t), (i + 1, t)]
    return [(k, w) for k, w in out if w != 0.0]


def blend(stack, xgrid, ygrid, px, py):
    """Bilinear blend of the reference ePSF arrays.  ``stack[iy][ix]`` is the
    array at (xgrid[ix], ygrid[iy])."""
    out = 0.0
    used = []
    for iy, wy in bilinear_weights(ygrid, py):
        for ix, wx in bilinear_weights(xgrid, px):
            out = out + (wx * wy) * np.asarray(stack[iy][ix], dtype=float)
            used.append((ix, iy, wx * wy))
    return out, used
