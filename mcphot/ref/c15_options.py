"""C15, the *options* family: unit-ful input x the optional arguments of a call.

Whether a unit-ful image (Quantity, NDData with a unit, CCDData) is handled like
the bare float64 array depends on WHICH optional arguments are in effect: a fill
value written into the result before / after the unit is attached, a mask that
makes the code take the NaN-aware path, an interpolator, a clipping object, a
local background that has to be subtracted.  The image-centred recipes of
``registry_recipes`` call every entry point with one or two fixed option sets; this
family enumerates, for every entry below, the FULL PRODUCT of its option
alphabets (``Entry.axes``: every optional argument that touches values, default
first, then every non-default kind of value) x representation

    quantity   Quantity image, unit-ful companions (error, threshold, local_bkg, background ...)
    nddata_q   NDData with a unit (error -> StdDevUncertainty, mask -> .mask)   } entries that
    ccddata    CCDData (unit required)                                           } accept NDData
    nddata     unit-less NDData                                                  }

and compares every output with the plain float64 call: same numbers, and for the
unit-ful representations the unit ``Jy ** power`` the entry declares for that
output (power None: no unit demanded, but any unit attached must be Jy ** k).

The quick tier enumerates a stated sub-product (``Entry.quick``: axes pinned to
their first value); the thorough tier the whole product.

Plain data + closures; comparison / tolerance policy in ``mcphot.props.c15``.
"""
import collections
import itertools

import numpy as np

from . import registry as R

REPS = ('quantity', 'nddata_q', 'ccddata', 'nddata')
UNITFUL = ('quantity', 'nddata_q', 'ccddata')
ND_REPS = ('nddata_q', 'ccddata', 'nddata')

Entry = collections.namedtuple('Entry', 'label nddata axes quick keep fn powers')
ENTRIES = collections.OrderedDict()


def entry(label, axes, powers, nddata=False, quick=None, keep=None):
    """``axes``: OrderedDict option -> values (simplest / default first); ``quick``: {option: values kept in the quick
    tier} (other axes in full), ``keep``: predicate on a combination, quick tier only (a stated sub-product); ``powers``: output name -> power of the data unit the docs give it (None: not demanded)."""
    def deco(fn):
        ENTRIES[label] = Entry(label, nddata, collections.OrderedDict(axes), dict(quick or {}), keep, fn, dict(powers))
        return fn
    return deco


def axes_of(e, tier):
    out = collections.OrderedDict()
    for k, vals in e.axes.items():
        out[k] = tuple(v for v in vals if tier == 'thorough' or k not in e.quick or v in e.quick[k])
    return out


def combos(e, tier):
    ax = axes_of(e, tier)
    out = [dict(zip(ax, vals)) for vals in itertools.product(*ax.values())]
    if tier != 'thorough' and e.keep is not None:
        out = [o for o in out if e.keep(o)]
    return out


def reps_of(e):
    if e.nddata == 'only':               # the entry takes nothing but an NDData
        return ND_REPS
    return tuple(r for r in REPS if e.nddata or r not in ND_REPS)


class Env:
    """Arguments of one (representation, seed) run on the integer-valued registry scene (41 x 47, three sources, sky
    20 + gradient, errors 4..30)."""

    def __init__(self, rep, seed):
        import astropy.units as u
        self.rep, self.seed = rep, seed
        self.unit = u.Jy if rep in UNITFUL else None
        sc = R.scene('clean', seed, integer=True)
        self.raw, self.err, self.bkg = sc['data'], sc['error'], sc['background']
        self.sub = self.raw - self.bkg                  # background-subtracted (integer valued, has negative pixels)
        m = np.zeros(R.SHAPE, bool)
        for (y, x) in R.ARG_MASK_PIX['masked'] + ((14, 15), (15, 15), (30, 23)):
            m[y, x] = True
        self.maskpix = m                                 # True pixels inside the sources and on the sky
        cov = np.zeros(R.SHAPE, bool)
        cov[:, :3] = True
        cov[36:, 40:] = True
        self.coverage = cov

    def q(self, value, power=1):
        """a companion: carries the unit when the image does"""
        if value is None or self.unit is None:
            return value
        unit = self.unit if power == 1 else self.unit ** power        # (Jy ** 1 is an equal but not identical unit object)
        return np.asarray(value, dtype=float) * unit if np.ndim(value) else float(value) * unit

    def image(self, a, error=None, mask=None, nd_mask=True):
        """-> (data, error, mask) as handed to the call.  NDData kinds carry error (and mask when ``nd_mask``) inside."""
        from astropy.nddata import CCDData, NDData, StdDevUncertainty
        a = np.array(a, dtype=float)
        error = None if error is None else np.array(error, dtype=float)
        mask = None if mask is None else np.array(mask, dtype=bool)
        if self.rep in ND_REPS:
            cls = CCDData if self.rep == 'ccddata' else NDData
            nd = cls(a, uncertainty=None if error is None else StdDevUncertainty(error), mask=mask if nd_mask else None,
                     unit=self.unit)
            return nd, None, (None if nd_mask else mask)
        if self.rep == 'quantity':
            return a * self.unit, self.q(error), mask
        return a, error, mask


def run(e, env, opts):
    """-> {output name: normalised value} or Raised"""
    import warnings
    try:
        with warnings.catch_warnings():
            warnings.simplefilter('ignore')
            out = e.fn(env, **opts)
        return {k: R.norm(v) for k, v in out.items()}
    except Exception as exc:  # judged by the caller
        return R.Raised(exc)


def _tab(t, cols=None):
    return {c: t[c] for c in (cols or t.colnames)}


# ------------------------------------------------------------------------------------------------------------------
# photutils.background
# ------------------------------------------------------------------------------------------------------------------
@entry('Background2D', nddata=True, axes=[
    ('coverage_mask', ('none', 'some')), ('fill_value', (0.0, 'nan', -1.5, 7.0)), ('mask', ('none', 'some')),
    ('exclude_percentile', (10.0, 60.0)), ('filter_size', (3, 1)), ('filter_threshold', ('none', 24.0)),
    ('interpolator', ('zoom', 'idw')), ('edge_method', ('pad', 'crop')), ('sigma_clip', ('default', 'none')),
    ('estimators', ('default', 'mean/madstd'))],
    quick={'edge_method': ('pad',), 'sigma_clip': ('default',), 'estimators': ('default',), 'fill_value': (0.0, 'nan', -1.5)},
    # quick tier: the (slow) IDW interpolator x {coverage_mask, fill_value, mask} with the mesh options at their defaults
    keep=lambda o: o['interpolator'] == 'zoom' or (o['exclude_percentile'], o['filter_size'], o['filter_threshold']) == (10.0, 3, 'none'),
    powers={'background': 1, 'background_rms': 1, 'background_mesh': 1, 'background_rms_mesh': 1, 'background_median': 1,
            'background_rms_median': 1, 'npixels_mesh': 0})
def _background2d(env, coverage_mask, fill_value, mask, exclude_percentile, filter_size, filter_threshold, interpolator,
                  edge_method, sigma_clip, estimators):
    from astropy.stats import SigmaClip
    from photutils.background import (Background2D, BkgIDWInterpolator, BkgZoomInterpolator, MADStdBackgroundRMS,
                                      MeanBackground)
    d, _, m = env.image(env.raw, mask=env.maskpix if mask == 'some' else None, nd_mask=False)
    kw = {}
    if sigma_clip == 'none':
        kw['sigma_clip'] = None
    elif estimators != 'default':
        kw['sigma_clip'] = SigmaClip(sigma=2.5, maxiters=3)
    if estimators != 'default':
        kw['bkg_estimator'], kw['bkgrms_estimator'] = MeanBackground(), MADStdBackgroundRMS()
    b = Background2D(d, (10, 12), mask=m, coverage_mask=env.coverage if coverage_mask == 'some' else None,
                     fill_value=float('nan') if fill_value == 'nan' else fill_value, exclude_percentile=exclude_percentile,
                     filter_size=filter_size, filter_threshold=None if filter_threshold == 'none' else filter_threshold,
                     edge_method=edge_method, interpolator=BkgIDWInterpolator() if interpolator == 'idw' else BkgZoomInterpolator(),
                     **kw)
    # (the meshes first: the order of reading is not the subject here, C09 owns it)
    return collections.OrderedDict((k, getattr(b, k)) for k in (
        'background_mesh', 'background_rms_mesh', 'background', 'background_rms', 'background_median', 'background_rms_median',
        'npixels_mesh'))


# ------------------------------------------------------------------------------------------------------------------
# photutils.utils
# ------------------------------------------------------------------------------------------------------------------
@entry('CutoutImage', axes=[
    ('position', ('inside', 'left-bottom edge', 'right-top edge')), ('mode', ('trim', 'partial')),
    ('fill_value', ('nan', 0.0, -1.5, 7)), ('copy', (False, True))],
    powers={'data': None})      # (Quantity input is not documented for CutoutImage: a unit is not demanded)
def _cutout(env, position, mode, fill_value, copy):
    from photutils.utils import CutoutImage
    d, _, _ = env.image(env.raw)
    pos = {'inside': (14, 15), 'left-bottom edge': (1, 2), 'right-top edge': (39, 45)}[position]
    c = CutoutImage(d, pos, (7, 9), mode=mode, fill_value=float('nan') if fill_value == 'nan' else fill_value, copy=copy)
    return {'data': c.data, 'bbox_original': np.array([c.bbox_original.ixmin, c.bbox_original.ixmax, c.bbox_original.iymin,
                                                       c.bbox_original.iymax], float),
            'xyorigin': np.asarray(c.xyorigin, float)}


@entry('calc_total_error', axes=[('effective_gain', ('scalar', 'array', 'array with zeros'))], powers={'total_error': 1})
def _total_error(env, effective_gain):
    import astropy.units as u
    from photutils.utils import calc_total_error
    d, e, _ = env.image(np.abs(env.sub), error=env.err)
    g = 2.0 if effective_gain == 'scalar' else 1.0 + np.mgrid[0:R.SHAPE[0], 0:R.SHAPE[1]][1] % 3
    if effective_gain == 'array with zeros':
        g = g.copy()
        g[3:5, 7:9] = 0.0
    if env.unit is not None:
        g = g * (u.electron / env.unit)
    return {'total_error': calc_total_error(d, e, g)}


# ------------------------------------------------------------------------------------------------------------------
# photutils.aperture
# ------------------------------------------------------------------------------------------------------------------
def _apertures(kind):
    from photutils.aperture import CircularAnnulus, CircularAperture, EllipticalAperture
    pos = np.transpose([R.XPOS, R.YPOS])
    if kind == 'single':
        return CircularAperture(pos, 4.0)
    if kind == 'scalar position':
        return EllipticalAperture((15.0, 14.0), 5.0, 3.0, 0.5)
    if kind == 'cut by the edge':
        return CircularAperture([(1.5, 2.0), (45.0, 39.5)], 4.0)
    return [CircularAperture(pos, 4.0), CircularAnnulus(pos, 5.0, 8.0)]


@entry('aperture_photometry', nddata=True, axes=[
    ('apertures', ('single', 'scalar position', 'list', 'cut by the edge')), ('error', ('none', 'given')), ('mask', ('none', 'some')),
    ('method', ('exact', 'center', 'subpixel')), ('subpixels', (5, 2))],
    powers={'aperture_sum': 1, 'aperture_sum_err': 1, 'aperture_sum_0': 1, 'aperture_sum_err_0': 1, 'aperture_sum_1': 1,
            'aperture_sum_err_1': 1})
def _aperture_photometry(env, apertures, error, mask, method, subpixels):
    from photutils.aperture import aperture_photometry
    d, e, m = env.image(env.sub, error=env.err if error == 'given' else None, mask=env.maskpix if mask == 'some' else None)
    return _tab(aperture_photometry(d, _apertures(apertures), error=e, mask=m, method=method, subpixels=subpixels))


_STATS = ('sum', 'sum_err', 'mean', 'median', 'std', 'mad_std', 'var', 'min', 'max', 'mode', 'biweight_location',
          'biweight_midvariance', 'centroid', 'sum_aper_area', 'fwhm', 'semimajor_sigma', 'orientation', 'ellipticity')


@entry('ApertureStats', nddata=True, axes=[
    ('apertures', ('single', 'scalar position', 'cut by the edge')), ('error', ('none', 'given')), ('mask', ('none', 'some')),
    ('sigma_clip', ('none', 'some')), ('sum_method', ('exact', 'center', 'subpixel')), ('local_bkg', ('none', 'scalar', 'per source'))],
    quick={'sum_method': ('exact', 'center')},
    powers={'sum': 1, 'sum_err': 1, 'mean': 1, 'median': 1, 'std': 1, 'mad_std': 1, 'var': 2, 'min': 1, 'max': 1, 'mode': 1,
            'biweight_location': 1, 'biweight_midvariance': 2, 'centroid': 0, 'ellipticity': 0})
def _aperture_stats(env, apertures, error, mask, sigma_clip, sum_method, local_bkg):
    from astropy.stats import SigmaClip
    from photutils.aperture import ApertureStats
    d, e, m = env.image(env.raw, error=env.err if error == 'given' else None, mask=env.maskpix if mask == 'some' else None)
    ap = _apertures(apertures)
    n = 1 if apertures == 'scalar position' else len(ap.positions)
    lb = None if local_bkg == 'none' else env.q(21.0 if local_bkg == 'scalar' else np.array([20.0, 22.0, 21.0])[:n])
    st = ApertureStats(d, ap, error=e, mask=m, sigma_clip=SigmaClip(2.5, maxiters=3) if sigma_clip == 'some' else None,
                       sum_method=sum_method, subpixels=3, local_bkg=lb)
    return collections.OrderedDict((k, getattr(st, k)) for k in _STATS)


# ------------------------------------------------------------------------------------------------------------------
# photutils.segmentation / detection
# ------------------------------------------------------------------------------------------------------------------
@entry('detect_threshold', axes=[
    ('background', ('none', 'scalar', 'array')), ('error', ('none', 'scalar', 'array')), ('mask', ('none', 'some')),
    ('sigma_clip', ('default', 'other'))], powers={'threshold': 1})
def _detect_threshold(env, background, error, mask, sigma_clip):
    from astropy.stats import SigmaClip
    from photutils.segmentation import detect_threshold
    d, _, _ = env.image(env.raw)
    kw = {} if sigma_clip == 'default' else {'sigma_clip': SigmaClip(sigma=2.0, maxiters=2)}
    return {'threshold': detect_threshold(
        d, 2.5, background={'none': None, 'scalar': env.q(20.0), 'array': env.q(env.bkg)}[background],
        error={'none': None, 'scalar': env.q(5.0), 'array': env.q(env.err)}[error], mask=env.maskpix if mask == 'some' else None, **kw)}


@entry('detect_sources+deblend_sources', axes=[
    ('threshold', ('scalar', 'array')), ('mask', ('none', 'some')), ('connectivity', (8, 4)),
    ('deblend', ('no', 'exponential', 'linear', 'sinh'))], powers={})
def _detect_sources(env, threshold, mask, connectivity, deblend):
    from photutils.segmentation import deblend_sources, detect_sources
    d, _, _ = env.image(env.sub)
    thr = env.q(30.0) if threshold == 'scalar' else env.q(3.0 * env.err)
    segm = detect_sources(d, thr, 5, connectivity=connectivity, mask=env.maskpix if mask == 'some' else None)
    out = {'segm': segm.data.astype(float)}
    if deblend != 'no':
        out['deblended'] = deblend_sources(d, segm, 5, nlevels=16, contrast=0.01, mode=deblend, connectivity=connectivity,
                                           progress_bar=False).data.astype(float)
    return out


@entry('find_peaks', axes=[
    ('threshold', ('scalar', 'array')), ('window', ('box_size=3', 'box_size=(5, 7)', 'footprint')), ('mask', ('none', 'some')),
    ('border_width', ('none', 3)), ('npeaks', ('inf', 2)), ('centroid_func', ('none', 'centroid_com'))],
    powers={'peak_value': 1, 'x_peak': 0, 'y_peak': 0, 'x_centroid': 0, 'y_centroid': 0})
def _find_peaks(env, threshold, window, mask, border_width, npeaks, centroid_func):
    from photutils.centroids import centroid_com
    from photutils.detection import find_peaks
    d, _, _ = env.image(env.sub)
    thr = env.q(30.0) if threshold == 'scalar' else env.q(3.0 * env.err)
    kw = {'box_size=3': {}, 'box_size=(5, 7)': {'box_size': (5, 7)}, 'footprint': {'footprint': np.array([[0, 1, 0], [1, 1, 1], [0, 1, 0]], bool)}}[window]
    t = find_peaks(d, thr, mask=env.maskpix if mask == 'some' else None, border_width=None if border_width == 'none' else border_width,
                   npeaks=np.inf if npeaks == 'inf' else npeaks, centroid_func=centroid_com if centroid_func != 'none' else None, **kw)
    return {} if t is None else _tab(t)


def _finder_entry(name):
    @entry(name, axes=[
        ('peakmax', ('none', 'given')), ('exclude_border', (False, True)), ('brightest', ('none', 2)),
        ('mask', ('none', 'some')), ('min_separation', ('default', 9.0))],
        powers={'peak': 1, 'flux': 1, 'max_value': 1, 'xcentroid': 0, 'ycentroid': 0, 'mag': None})
    def _finder(env, peakmax, exclude_border, brightest, mask, min_separation):
        import photutils.detection as pd
        from .registry_recipes import star_kernel
        d, _, _ = env.image(env.sub)
        kw = {'exclude_border': exclude_border, 'brightest': None if brightest == 'none' else brightest,
              'peakmax': None if peakmax == 'none' else env.q(700.0)}
        if min_separation != 'default':
            kw['min_separation'] = min_separation
        if name == 'StarFinder':
            f = pd.StarFinder(env.q(40.0), star_kernel(), **kw)
        else:
            f = getattr(pd, name)(env.q(40.0), 4.0, **kw)
        t = f(d, mask=env.maskpix if mask == 'some' else None)
        return {} if t is None else _tab(t)
    return _finder


for _n in ('DAOStarFinder', 'IRAFStarFinder', 'StarFinder'):
    _finder_entry(_n)


_CAT = ('segment_flux', 'segment_fluxerr', 'kron_flux', 'kron_fluxerr', 'kron_radius', 'min_value', 'max_value', 'local_background',
        'xcentroid', 'ycentroid', 'semimajor_sigma', 'orientation', 'area', 'background_mean', 'background_sum',
        'covar_sigx2', 'gini', 'fwhm')


@entry('SourceCatalog', axes=[
    ('error', ('none', 'given')), ('background', ('none', 'given')), ('mask', ('none', 'some')), ('convolved_data', ('none', 'given')),
    ('localbkg_width', (0, 6)), ('apermask_method', ('correct', 'mask', 'none')), ('kron_params', ('default', '(2.0, 3.5, 1.0)'))],
    quick={'apermask_method': ('correct', 'mask')},
    powers={'segment_flux': 1, 'segment_fluxerr': 1, 'kron_flux': 1, 'kron_fluxerr': 1, 'min_value': 1, 'max_value': 1,
            'local_background': 1, 'background_mean': 1, 'background_sum': 1, 'xcentroid': 0, 'ycentroid': 0, 'kron_radius': 0, 'gini': 0})
def _source_catalog(env, error, background, mask, convolved_data, localbkg_width, apermask_method, kron_params):
    from photutils.segmentation import SourceCatalog, detect_sources
    segm = detect_sources(env.sub, 30.0, 5)
    d, e, m = env.image(env.sub, error=env.err if error == 'given' else None, mask=env.maskpix if mask == 'some' else None)
    conv = None
    if convolved_data == 'given':
        k = np.array([[1., 2., 1.], [2., 4., 2.], [1., 2., 1.]]) / 16.0
        pad = np.pad(env.sub, 1, mode='edge')
        conv = env.q(sum(k[i, j] * pad[i:i + R.SHAPE[0], j:j + R.SHAPE[1]] for i in range(3) for j in range(3)))
    cat = SourceCatalog(d, segm, error=e, mask=m, background=env.q(env.bkg) if background == 'given' else None, convolved_data=conv,
                        localbkg_width=localbkg_width, apermask_method=apermask_method,
                        kron_params=(2.5, 1.4, 0.0) if kron_params == 'default' else (2.0, 3.5, 1.0))
    return collections.OrderedDict((k, getattr(cat, k)) for k in _CAT)


# ------------------------------------------------------------------------------------------------------------------
# photutils.profiles / centroids / morphology
# ------------------------------------------------------------------------------------------------------------------
def _profile_entry(name):
    @entry(name, axes=[('error', ('none', 'given')), ('mask', ('none', 'some')), ('method', ('exact', 'center', 'subpixel')),
                       ('normalize', ('no', 'max', 'sum'))],
           powers={'profile': None, 'profile_error': None, 'area': 0, 'radius': 0})
    def _profile(env, error, mask, method, normalize):
        import photutils.profiles as pp
        d, e, m = env.image(env.sub, error=env.err if error == 'given' else None, mask=env.maskpix if mask == 'some' else None)
        radii = np.arange(0, 9) if name == 'RadialProfile' else np.arange(1, 9)
        p = getattr(pp, name)(d, (15.0, 14.0), radii, error=e, mask=m, method=method, subpixels=3)
        if normalize != 'no':
            p.normalize(method=normalize)
        return {'profile': p.profile, 'profile_error': p.profile_error, 'area': p.area, 'radius': p.radius}
    return _profile


for _n in ('RadialProfile', 'CurveOfGrowth'):
    _profile_entry(_n)


@entry('centroid_sources', axes=[
    ('centroid_func', ('centroid_com', 'centroid_quadratic', 'centroid_1dg', 'centroid_2dg')), ('box', ('box_size=11', 'box_size=(7, 9)', 'footprint')),
    ('mask', ('none', 'some')), ('error', ('none', 'given'))], powers={'x': 0, 'y': 0})
def _centroid_sources(env, centroid_func, box, mask, error):
    import photutils.centroids as pc
    d, _, _ = env.image(env.sub)
    kw = {'box_size=11': {}, 'box_size=(7, 9)': {'box_size': (7, 9)}, 'footprint': {'footprint': np.ones((9, 7), bool)}}[box]
    if error == 'given':
        if centroid_func in ('centroid_com', 'centroid_quadratic'):
            raise ValueError('documented: the centroid function takes no error argument')   # baseline raises too: skipped
        kw['error'] = env.q(env.err)
    x, y = pc.centroid_sources(d, R.XPOS + 1.0, R.YPOS - 1.0, mask=env.maskpix if mask == 'some' else None,
                               centroid_func=getattr(pc, centroid_func), **kw)
    return {'x': x, 'y': y}


@entry('data_properties', axes=[('mask', ('none', 'some')), ('background', ('none', 'scalar', 'array'))],
       powers={'segment_flux': 1, 'min_value': 1, 'max_value': 1, 'xcentroid': 0, 'ycentroid': 0, 'background_mean': 1})
def _data_properties(env, mask, background):
    from photutils.morphology import data_properties
    cut = R.CUT
    d, _, _ = env.image(env.sub[cut])
    bkg = {'none': None, 'scalar': env.q(20.0), 'array': env.q(env.bkg[cut])}[background]
    cat = data_properties(d, mask=env.maskpix[cut] if mask == 'some' else None, background=bkg)
    return collections.OrderedDict((k, getattr(cat, k)) for k in ('segment_flux', 'min_value', 'max_value', 'xcentroid', 'ycentroid',
                                                                   'semimajor_sigma', 'orientation', 'background_mean'))


# ------------------------------------------------------------------------------------------------------------------
# photutils.psf.extract_stars: takes an NDData only, so there is no plain-array call to compare with; the float64
# "call" is the plain model of what the docs promise: the size x size cutout around each star and the weights
# 1 / sigma (0 on masked pixels), whatever type of uncertainty holds sigma
# ------------------------------------------------------------------------------------------------------------------
@entry('extract_stars', nddata='only', axes=[('uncertainty', ('std', 'var', 'ivar')), ('mask', ('none', 'some'))], powers={})
def _extract_stars(env, uncertainty, mask):
    half = 4
    m = env.maskpix if mask == 'some' else None
    if env.rep == 'f8':
        out = collections.OrderedDict()
        w = 1.0 / env.err
        if m is not None:
            w[m] = 0.0
        for i, (x, y) in enumerate(zip(R.XPOS, R.YPOS)):
            sl = (slice(int(y) - half, int(y) + half + 1), slice(int(x) - half, int(x) + half + 1))
            out[f'star{i}.data'], out[f'star{i}.weights'] = env.sub[sl].copy(), w[sl].copy()
            out[f'star{i}.cutout_center'] = np.array([float(half), float(half)])
        return out
    from astropy.nddata import CCDData, NDData
    from astropy.table import Table
    from photutils.psf import extract_stars
    nd = (CCDData if env.rep == 'ccddata' else NDData)(env.sub.copy(), uncertainty=R.nddata_uncertainty((uncertainty,), env.err, env.unit),
                                                      mask=None if m is None else m.copy(), unit=env.unit)
    stars = extract_stars(nd, Table({'x': R.XPOS, 'y': R.YPOS}), size=2 * half + 1)
    out = collections.OrderedDict()
    for i, st in enumerate(stars.all_stars):
        out[f'star{i}.data'], out[f'star{i}.weights'] = np.asarray(st.data), np.asarray(st.weights)
        out[f'star{i}.cutout_center'] = np.asarray(st.cutout_center, float)
    return out


def describe(tier):
    return collections.OrderedDict((e.label, {
        'options': {k: [str(v) for v in vals] for k, vals in axes_of(e, tier).items()},
        'combinations': len(combos(e, tier)), 'of_full_product': len(combos(e, 'thorough')),
        'quick_tier_sub_product': (e.keep.__doc__ or 'see the comment at the entry') if (tier != 'thorough' and e.keep is not None) else None,
        'representations': list(reps_of(e))}) for e in ENTRIES.values())
