"""Reference helpers shared by C02 and C16 (aperture sums / aperture statistics).

Nothing in here calls the photutils routine under test.  The only photutils
objects touched are the aperture constructors, ``to_mask`` and the mask's
``bbox``/``data`` (the per-pixel weights are vouched for by C01); *where those
weights land in the image* (registration) is done here, pixel by pixel, in
plain Python.
"""
import math

import numpy as np


# ---------------------------------------------------------------------------
# aperture construction from a JSON-able spec
# ---------------------------------------------------------------------------
def make_aperture(spec, positions):
    """spec = [kind, *params]; positions = (x, y) or list of (x, y)."""
    from photutils.aperture import (CircularAnnulus, CircularAperture, EllipticalAnnulus, EllipticalAperture,
                                    RectangularAnnulus, RectangularAperture)
    kind, p = spec[0], spec[1:]
    if kind == 'circle':
        return CircularAperture(positions, r=p[0])
    if kind == 'cann':
        return CircularAnnulus(positions, r_in=p[0], r_out=p[1])
    if kind == 'ellipse':
        return EllipticalAperture(positions, a=p[0], b=p[1], theta=p[2])
    if kind == 'eann':
        return EllipticalAnnulus(positions, a_in=p[0], a_out=p[1], b_out=p[2], theta=p[3])
    if kind == 'rect':
        return RectangularAperture(positions, w=p[0], h=p[1], theta=p[2])
    if kind == 'rann':
        return RectangularAnnulus(positions, w_in=p[0], w_out=p[1], h_out=p[2], theta=p[3])
    raise ValueError(kind)


# public parameter names in the order of the spec (the trailing names are derived defaults not present in the spec)
PARAM_NAMES = {'circle': ['r'], 'cann': ['r_in', 'r_out'], 'ellipse': ['a', 'b', 'theta'],
               'eann': ['a_in', 'a_out', 'b_out', 'theta', 'b_in'], 'rect': ['w', 'h', 'theta'],
               'rann': ['w_in', 'w_out', 'h_out', 'theta', 'h_in']}


def param_items(spec):
    """-> [(attribute name, value)] of every public shape parameter of the aperture described by ``spec``: the spec
    values as a constructor receives them; a derived default (b_in / h_in) as a fresh aperture reports it."""
    names = PARAM_NAMES[spec[0]]
    fresh = make_aperture(spec, (0.0, 0.0))
    vals = list(spec[1:])
    return [(n, vals[i] if i < len(vals) else float(getattr(fresh, n))) for i, n in enumerate(names)]


def aperture_from_items(kind, items, positions):
    """a fresh aperture from explicit (name, value) pairs (every parameter given, nothing derived)"""
    from photutils import aperture as A
    cls = {'circle': A.CircularAperture, 'cann': A.CircularAnnulus, 'ellipse': A.EllipticalAperture,
           'eann': A.EllipticalAnnulus, 'rect': A.RectangularAperture, 'rann': A.RectangularAnnulus}[kind]
    return cls(positions, **dict(items))


def before_spec(spec):
    """a different aperture of the same class (every size 1.5x larger, rotated by a further 0.9 rad): the state an
    aperture object is in before its parameters are re-assigned to those of ``spec``"""
    has_theta = spec[0] in ('ellipse', 'eann', 'rect', 'rann')
    vals = list(spec[1:])
    out = [v * 1.5 for v in vals]
    if has_theta:
        out[-1] = vals[-1] + 0.9
    return [spec[0]] + out


def tan_wcs():
    """A distortion-free TAN WCS (0.2 arcsec / pixel, rotated by 0.35 rad)."""
    from astropy.wcs import WCS
    w = WCS(naxis=2)
    w.wcs.ctype = ['RA---TAN', 'DEC--TAN']
    w.wcs.crval = [150.0, 2.0]
    w.wcs.crpix = [2.3, 1.7]
    s, th = 0.2 / 3600.0, 0.35
    w.wcs.cd = [[-s * math.cos(th), s * math.sin(th)], [s * math.sin(th), s * math.cos(th)]]
    return w


# ---------------------------------------------------------------------------
# registration of a mask in the image: plain loop over IMAGE pixels
# ---------------------------------------------------------------------------
def register(maskobj, shape):
    """-> (box, wl): box = (ixmin, ixmax, iymin, iymax) of the mask;
    wl = None when the box contains no image pixel, otherwise the list of
    (iy, ix, w) over the image pixels inside the box (all weights, also <= 0)."""
    ny, nx = shape
    bb = maskobj.bbox
    ixmin, ixmax, iymin, iymax = int(bb.ixmin), int(bb.ixmax), int(bb.iymin), int(bb.iymax)
    arr = maskobj.data
    if arr.shape != (iymax - iymin, ixmax - ixmin):
        raise AssertionError(f'mask data shape {arr.shape} does not match its bbox {(ixmin, ixmax, iymin, iymax)}')
    wl = []
    for iy in range(ny):
        if not (iymin <= iy < iymax):
            continue
        for ix in range(nx):
            if ixmin <= ix < ixmax:
                wl.append((iy, ix, float(arr[iy - iymin, ix - ixmin])))
    return (ixmin, ixmax, iymin, iymax), (wl if wl else None)


def posclass(box, shape):
    ny, nx = shape
    ixmin, ixmax, iymin, iymax = box
    if ixmax <= 0 or iymax <= 0 or ixmin >= nx or iymin >= ny:
        return 'outside'
    if ixmin < 0 or iymin < 0:
        return 'cut-low' if (ixmax <= nx and iymax <= ny) else 'cut-both'
    if ixmax > nx or iymax > ny:
        return 'cut-high'
    return 'inside'


def ref_sums(wl, data, err, maskbits, nx):
    """Direct sums over the pixels that are inside the image, have positive
    weight and are not masked.  data/err: nested lists; maskbits: int bitmask
    (bit iy*nx+ix).  -> (sum, sum_err or None, area, scale_sum, npix)"""
    if wl is None:
        return math.nan, (None if err is None else math.nan), math.nan, 0.0, 0
    s = v = a = sabs = 0.0
    n = 0
    for iy, ix, w in wl:
        if w > 0 and not (maskbits >> (iy * nx + ix)) & 1:
            d = data[iy][ix]
            s += w * d
            if d == d and abs(d) != math.inf:
                sabs += w * abs(d)
            a += w
            n += 1
            if err is not None:
                v += w * err[iy][ix] ** 2
    return s, (None if err is None else math.sqrt(v)), a, sabs, n


def same(got, exp, tol):
    """NaN == NaN, inf == inf (same sign), finite within tol."""
    got = float(got)
    if exp != exp:
        return got != got
    if abs(exp) == math.inf:
        return got == exp
    return got == got and abs(got - exp) <= tol


def bits_to_mask(bits, shape):
    ny, nx = shape
    if bits is None:
        return None
    m = np.zeros(shape, dtype=bool)
    for k in range(ny * nx):
        if (bits >> k) & 1:
            m[k // nx, k % nx] = True
    return m


# ---------------------------------------------------------------------------
# direct statistics (C16)
# ---------------------------------------------------------------------------
def median(vals):
    s = sorted(vals)
    n = len(s)
    return s[n // 2] if n % 2 else 0.5 * (s[n // 2 - 1] + s[n // 2])


MAD_K = 1.482602218505602      # 1 / Phi^-1(3/4)


def direct_stats(vals):
    """min max mean median std var mad_std biweight_location biweight_midvariance
    of a non-empty list of finite floats, by the textbook formulas."""
    n = len(vals)
    mean = math.fsum(vals) / n
    var = math.fsum((v - mean) ** 2 for v in vals) / n
    med = median(vals)
    mad = median([abs(v - med) for v in vals])
    out = {'min': min(vals), 'max': max(vals), 'mean': mean, 'median': med, 'var': var, 'std': math.sqrt(var),
           'mad_std': MAD_K * mad, 'mode': 3.0 * med - 2.0 * mean}
    # biweight location (c = 6) and midvariance (c = 9), Beers et al. 1990 as documented by astropy
    if mad == 0:
        out['biweight_location'] = med
        out['biweight_midvariance'] = 0.0
        out['bw_den'] = None
    else:
        u = [(v - med) / (6.0 * mad) for v in vals]
        num = math.fsum((v - med) * (1 - x * x) ** 2 for v, x in zip(vals, u) if abs(x) < 1)
        den = math.fsum((1 - x * x) ** 2 for x in u if abs(x) < 1)
        out['biweight_location'] = med + num / den
        u = [(v - med) / (9.0 * mad) for v in vals]
        num = math.fsum((v - med) ** 2 * (1 - x * x) ** 4 for v, x in zip(vals, u) if abs(x) < 1)
        den = math.fsum((1 - x * x) * (1 - 5 * x * x) for x in u if abs(x) < 1)
        out['bw_den'] = den / n
        out['biweight_midvariance'] = (n * num / den ** 2) if den else math.nan
    return out


def direct_moments(pix):
    """pix: list of (iy, ix, v).  -> dict with m00, xc, yc, cov (cxx, cxy, cyy) of
    the value-weighted pixel distribution in IMAGE coordinates, cond = sum|v|/|sum v|."""
    m00 = math.fsum(v for _, _, v in pix)
    sabs = math.fsum(abs(v) for _, _, v in pix)
    if m00 == 0 or sabs == 0:
        return {'m00': m00, 'cond': math.inf}
    xc = math.fsum(ix * v for _, ix, v in pix) / m00
    yc = math.fsum(iy * v for iy, _, v in pix) / m00
    cxx = math.fsum((ix - xc) ** 2 * v for _, ix, v in pix) / m00
    cyy = math.fsum((iy - yc) ** 2 * v for iy, _, v in pix) / m00
    cxy = math.fsum((ix - xc) * (iy - yc) * v for iy, ix, v in pix) / m00
    return {'m00': m00, 'cond': sabs / abs(m00), 'xc': xc, 'yc': yc, 'cxx': cxx, 'cxy': cxy, 'cyy': cyy}


DELTA = 1.0 / 12


def regularised_covariances(cxx, cxy, cyy, amb=1e-9):
    """The documented SourceExtractor prescription: NaN if det < 0; while
    det < (1/12)^2 add 1/12 to both diagonal elements.  Decisions that fall
    within ``amb`` of a threshold are accepted either way -> list of acceptable
    (cxx, cxy, cyy) triples (each may be all-NaN)."""
    nan3 = (math.nan, math.nan, math.nan)
    det = cxx * cyy - cxy * cxy
    scale = (abs(cxx) + abs(cyy) + abs(cxy)) ** 2 + 1e-300     # magnitude of the products entering det
    out = []
    if det < amb * scale:
        if det < -amb * scale:
            return [nan3]
        out.append(nan3)      # ambiguous sign of a ~zero determinant
    # deterministic walk; a decision within ``amb`` of the threshold accepts both outcomes
    a, b = cxx, cyy
    for _ in range(MAX_REG_STEPS):
        det = a * b - cxy * cxy
        if det > DELTA ** 2 + amb:
            out.append((a, cxy, b))
            return out
        if det >= DELTA ** 2 - amb:
            out.append((a, cxy, b))      # ambiguous: may stop here or take one more step
        a, b = a + DELTA, b + DELTA
    return None                          # not reached within MAX_REG_STEPS (negative "variance" of huge size)


MAX_REG_STEPS = 20000


def shape_from_cov(cxx, cxy, cyy):
    """semimajor/semiminor sigma, orientation (deg), eccentricity, fwhm, elongation,
    ellipticity from a 2x2 covariance (closed-form eigenvalues)."""
    if cxx != cxx:
        nan = math.nan
        return {'semimajor_sigma': nan, 'semiminor_sigma': nan, 'orientation': nan, 'eccentricity': nan,
                'fwhm': nan, 'elongation': nan, 'ellipticity': nan}
    tr, diff = cxx + cyy, cxx - cyy
    root = math.sqrt(diff * diff / 4.0 + cxy * cxy)
    l1, l2 = tr / 2.0 + root, tr / 2.0 - root
    if l2 < 0:      # "negative variance": both eigenvalues reported as NaN
        l1 = l2 = math.nan
    a = math.sqrt(l1) if l1 == l1 else math.nan
    b = math.sqrt(l2) if l2 == l2 else math.nan
    return {'semimajor_sigma': a, 'semiminor_sigma': b,
            'orientation': math.degrees(0.5 * math.atan2(2.0 * cxy, diff)),
            'eccentricity': math.sqrt(max(0.0, 1.0 - l2 / l1)) if l1 == l1 and l1 > 0 else math.nan,
            'fwhm': 2.0 * math.sqrt(math.log(2.0) * (l1 + l2)) if l1 == l1 else math.nan,
            'elongation': a / b if b == b and b > 0 else math.nan,
            'ellipticity': 1.0 - b / a if a == a and a > 0 else math.nan}
