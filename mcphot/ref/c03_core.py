"""Helpers for C03 (translation / transposition covariance): seed-generic
asymmetric scenes, the two input transformations, and the metamorphic comparator.

Nothing here calls photutils: the scene (image, error, mask, background ramp,
convolved image, segmentation map) is built with numpy only, so that a defect
in the code under test cannot leak into the inputs.
"""
import math
import os

import numpy as np

# ----------------------------------------------------------------------------
# scenes
# ----------------------------------------------------------------------------
# fixed structure (never depends on the seed): frame shape (ny, nx) -- non-square --
# and per source (amplitude, x, y, sigma_major, sigma_minor, position angle [deg]).
# The seed only supplies the fractional parts of the positions, a few percent of
# jitter on amplitude/size/angle and the noise field.
SCENE_SPECS = [
    {'shape': (47, 64), 'src': [(90, 18, 17, 2.4, 1.5, 25), (70, 40, 28, 1.7, 1.65, 0), (60, 30, 20, 2.8, 1.3, 110)]},
    {'shape': (52, 71), 'src': [(100, 22, 20, 2.2, 1.4, 60), (80, 28, 23, 1.8, 1.5, 10), (65, 50, 31, 2.6, 1.6, 140),
                                (75, 41, 18, 1.5, 1.5, 0)]},
    # scene 2 is TALL (ny > nx): an x index can exceed nx of a wide frame and vice versa
    {'shape': (73, 58), 'src': [(110, 20, 20, 2.0, 1.2, 80), (60, 38, 33, 3.0, 1.4, 160), (85, 22, 52, 1.6, 1.3, 45),
                                (70, 40, 46, 2.2, 2.0, 100), (55, 37, 22, 1.4, 1.4, 0)]},
    # scene 3 has one source 9 px from the left edge: its Kron / local-background / kernel
    # footprints leave the frame, so the footprint rule must exclude those rows (and only those)
    {'shape': (45, 70), 'src': [(90, 9, 24, 2.0, 1.4, 30), (75, 30, 17, 2.4, 1.5, 120), (65, 52, 27, 1.8, 1.2, 75),
                                (80, 41, 28, 2.1, 1.6, 150)]},
]
# "odd" segments: every scene also carries one instance of each of the small deterministic pixel patterns below.  They
# are added to the image AND get their own label in the segmentation map (label = number of Gaussian sources + 1 + index),
# so that the rare per-source branches of the code under test are taken in every scene, under every offset:
#   diag5    5-pixel diagonal: brightest pixel interior to the 5x5 box but only 3 segment pixels in its 3x3 neighbourhood
#            (quadratic-centroid fit impossible -> documented fall-back), very elongated, sparse bounding box
#   pixel1   single-pixel segment (1x1 cutout: fit box does not fit, zero second moments, minimum Kron radius)
#   row4     one-row (or, flipped, one-column) segment
#   neg9     3x3 block of NEGATIVE pixels (negative total flux: undefined Kron radius / shape / radii)
#   masked9  3x3 block whose every pixel is also set in the mask (completely masked source / aperture)
#   ramp12   3x4 block rising monotonically to one corner (brightest pixel on the edge of the segment box)
# pattern[j][i] is the value added at (x0 + i, y0 + j); the values are >= 6 noise sigma apart where the order matters.
ODD_PATTERNS = {
    'diag5': np.diag([15.0, 21.0, 33.0, 22.0, 16.0]),
    'pixel1': np.array([[30.0]]),
    'row4': np.array([[14.0, 24.0, 18.0, 11.0]]),
    'neg9': -np.array([[6.0, 9.0, 7.0], [10.0, 16.0, 11.0], [5.0, 9.0, 8.0]]),
    'masked9': np.array([[8.0, 12.0, 9.0], [13.0, 20.0, 12.0], [7.0, 11.0, 8.0]]),
    'ramp12': np.array([[8.0, 11.0, 14.0, 17.0], [10.0, 14.0, 18.0, 23.0], [12.0, 17.0, 23.0, 30.0]]),
}
# per scene: (kind, x0, y0, flip) with (x0, y0) the lower-left pixel of the pattern and flip in {'', 'X', 'T', 'XT'}
# ('X': mirrored in x, then 'T': transposed); all are >= 10 px from the frame edges and clear of the Gaussians
_ODD = [
    [('diag5', 48, 14, ''), ('pixel1', 50, 25, ''), ('row4', 12, 32, ''), ('neg9', 22, 31, ''),
     ('masked9', 49, 32, ''), ('ramp12', 38, 10, '')],
    [('diag5', 14, 32, 'X'), ('pixel1', 26, 36, ''), ('row4', 33, 31, 'T'), ('neg9', 52, 12, ''),
     ('masked9', 58, 18, ''), ('ramp12', 38, 36, 'T')],
    [('diag5', 12, 33, ''), ('pixel1', 22, 40, ''), ('row4', 14, 44, 'X'), ('neg9', 34, 57, ''),
     ('masked9', 28, 11, ''), ('ramp12', 42, 60, 'X')],
    [('diag5', 48, 11, 'X'), ('pixel1', 58, 17, ''), ('row4', 41, 12, 'T'), ('neg9', 17, 12, ''),
     ('masked9', 20, 31, ''), ('ramp12', 27, 30, 'XT')],
]
for _s, _o in zip(SCENE_SPECS, _ODD):
    _s['odd'] = _o
# scenes 4-7 (thorough tier): the mirrored structures (tall <-> wide, near-edge source at the bottom instead of
# the left) with different sizes and position angles
for _s in list(SCENE_SPECS):
    SCENE_SPECS.append({'shape': (_s['shape'][1], _s['shape'][0]),
                        'src': [(0.9 * a, y, x, 1.1 * sa, 0.9 * sb, 75 - pa) for (a, x, y, sa, sb, pa) in _s['src']],
                        'odd': [(kind, y0, x0, f.replace('T', '') if 'T' in f else f + 'T')
                                for (kind, x0, y0, f) in _s['odd']]})
NOISE = 0.8
SEG_LEVEL = 4.0
RAMP = (0.013, 0.037, 2.1)          # background = a*x + b*y + c  (a != b: an x/y swap changes the value)
# the error map carries a smooth large-scale "sensitivity" factor 1 + a*x/nx + b*(y/ny)**2 (a != b, not linear in y):
# an error cutout taken at the wrong place (cutout-relative instead of image coordinates, x/y swapped) has visibly
# different values everywhere, not only next to a source
SENS = (0.9, 0.5)


def odd_pattern(kind, flip):
    p = ODD_PATTERNS[kind]
    if 'X' in flip:
        p = p[:, ::-1]
    if 'T' in flip:
        p = p.T
    return np.array(p)


def gauss2d(xx, yy, amp, x0, y0, sa, sb, th):
    c, s = math.cos(th), math.sin(th)
    u = (xx - x0) * c + (yy - y0) * s
    v = -(xx - x0) * s + (yy - y0) * c
    return amp * np.exp(-0.5 * ((u / sa) ** 2 + (v / sb) ** 2))


def smooth3(a):
    """3x3 binomial smoothing with zero boundary (plain numpy shifts)."""
    k = np.array([1.0, 2.0, 1.0]) / 4.0
    p = np.pad(a, 1)
    t = k[0] * p[:, :-2] + k[1] * p[:, 1:-1] + k[2] * p[:, 2:]
    return k[0] * t[:-2] + k[1] * t[1:-1] + k[2] * t[2:]


def make_scene(k, seed):
    spec = SCENE_SPECS[k]
    ny, nx = spec['shape']
    rng = np.random.default_rng(7919 * int(seed) + 101 * k + 3)
    yy, xx = np.mgrid[0:ny, 0:nx].astype(float)
    src = []
    models = []
    for (amp, x, y, sa, sb, pa) in spec['src']:
        p = (amp * rng.uniform(0.95, 1.05), x + rng.uniform(0.05, 0.95), y + rng.uniform(0.05, 0.95),
             sa * rng.uniform(0.97, 1.03), sb * rng.uniform(0.97, 1.03), math.radians(pa + rng.uniform(-4, 4)))
        src.append(p)
        models.append(gauss2d(xx, yy, *p))
    models = np.array(models)
    model = models.sum(axis=0)
    noise1, noise2 = rng.normal(0.0, NOISE, (ny, nx)), rng.normal(0.0, NOISE, (ny, nx))
    unif = rng.uniform(0, 1, (ny, nx))
    seg = np.where(models.max(axis=0) > SEG_LEVEL, models.argmax(axis=0) + 1, 0).astype(np.int32)
    mask = np.zeros((ny, nx), bool)
    # the odd segments (structure fixed by the spec; the seed only scales each pattern by a few percent)
    oddimg = np.zeros((ny, nx))
    odd = []
    for i, (kind, ox, oy, flip) in enumerate(spec['odd']):
        pat = odd_pattern(kind, flip) * rng.uniform(0.95, 1.05)
        h, w = pat.shape
        sl = (slice(oy, oy + h), slice(ox, ox + w))
        if (seg[oy - 1:oy + h + 1, ox - 1:ox + w + 1] != 0).any() or min(ox, oy, nx - ox - w, ny - oy - h) < 10:
            raise RuntimeError(f'scene {k}: odd segment {kind} at ({ox},{oy}) touches another segment or the border')
        oddimg[sl] += pat
        lab = len(src) + 1 + i
        seg[sl][pat != 0] = lab
        if kind == 'masked9':
            mask[sl] = True
        odd.append({'kind': kind, 'label': lab, 'xc': ox + (w - 1) / 2.0, 'yc': oy + (h - 1) / 2.0, 'w': w, 'h': h})
    model = model + oddimg
    data = model + noise1
    data2 = 0.7 * model + noise2                                      # a second "band" for detection_cat
    sens = 1.0 + SENS[0] * xx / nx + SENS[1] * (yy / ny) ** 2
    error = (0.5 + 0.3 * np.sqrt(np.abs(model)) + 0.05 * unif) * sens
    x0, y0 = int(src[0][1]), int(src[0][2])
    mask[y0 + 2, x0 + 1] = True                      # inside source 1
    x1, y1 = int(src[1][1]), int(src[1][2])
    mask[y1 - 1, x1 + 3] = True                      # wing of source 2
    mask[y1, x1 + 3] = True
    mask[3, nx - 5] = True                           # background pixel
    bkg = RAMP[0] * xx + RAMP[1] * yy + RAMP[2]
    conv = smooth3(data)
    data_bad = data.copy()                           # variant with non-finite pixels inside sources
    xs, ys = int(src[-1][1]), int(src[-1][2])
    data_bad[ys + 1, xs - 1] = np.nan
    data_bad[y0 - 1, x0 + 2] = np.inf
    S = {'k': k, 'shape': (ny, nx), 'src': src, 'odd': odd, 'data': data, 'data2': data2, 'data_bad': data_bad,
         'error': error, 'mask': mask, 'bkg': bkg, 'conv': conv, 'seg': seg}
    S['edge'] = edge_stars((ny, nx), k, seed)
    S['fdata'] = data + sum(gauss2d(xx, yy, e['amp'], e['x'], e['y'], e['sigma'], e['sigma'], 0.0) for e in S['edge'])
    return S


# ----------------------------------------------------------------------------
# edge stars (image handed to the star finders): BORDER ALPHABET
# ----------------------------------------------------------------------------
# One compact round star for EVERY (edge, d) in {bottom, top, left, right} x {0..5}: its brightest pixel is d pixels
# from that edge (d = 0: on the edge row / column) and >= 9 px from the two neighbouring edges.  With kernel half
# sizes (xradius, yradius) in {2,3,4}^2 this puts a star on each side of every border-exclusion / footprint boundary
# of every finder configuration, separately for the x and the y direction.  Structure fixed; the seed supplies the
# sub-pixel fractions (|f| <= 0.3: the brightest pixel is the nominal one) and a few percent of amplitude.
EDGE_D = (0, 1, 2, 3, 4, 5)
EDGE_NAMES = ('bottom', 'top', 'left', 'right')
EDGE_START = 10                # first star: 10 px from the neighbouring edge; spacing min(7, (L - 20) // 5) for edge length L


def edge_stars(shape, k, seed):
    ny, nx = shape
    rng = np.random.default_rng(104729 * int(seed) + 13 * k + 7)
    out = []
    for edge in EDGE_NAMES:
        for j in range(len(EDGE_D)):
            d = EDGE_D[j] if edge in ('bottom', 'left') else EDGE_D[len(EDGE_D) - 1 - j]
            L = nx if edge in ('bottom', 'top') else ny
            along = EDGE_START + min(7, (L - 20) // 5) * j
            ix, iy = {'bottom': (along, d), 'top': (along, ny - 1 - d), 'left': (d, along),
                      'right': (nx - 1 - d, along)}[edge]
            if not EDGE_START <= along <= L - EDGE_START or (L - 20) // 5 < 5:
                raise RuntimeError(f'scene {k}: edge star {edge}/{d} does not fit')
            out.append({'edge': edge, 'd': d, 'ix': ix, 'iy': iy, 'x': ix + rng.uniform(-0.3, 0.3),
                        'y': iy + rng.uniform(-0.3, 0.3), 'amp': 45.0 * rng.uniform(0.95, 1.05), 'sigma': 1.15})
    return out


# ----------------------------------------------------------------------------
# peak pixel of a star-finder row, recovered from documented columns (numpy only)
# ----------------------------------------------------------------------------
def dao_peak_pixels(data, xc, yc, peak, kshape):
    """DAOStarFinder: ``peak`` is the data value of the (integer) detection pixel and the marginal-fit centroid is
    a correction of at most the kernel size.  Candidates: pixels within one kernel size of the centroid holding exactly
    that value.  Returns one list of (xp, yp) candidates per row (generic data: exactly one)."""
    ky, kx = kshape
    ny, nx = data.shape
    out = []
    for i in range(len(xc)):
        cand = []
        if np.isfinite(xc[i]) and np.isfinite(yc[i]):
            x0, x1 = max(int(math.ceil(xc[i] - kx)), 0), min(int(math.floor(xc[i] + kx)), nx - 1)
            y0, y1 = max(int(math.ceil(yc[i] - ky)), 0), min(int(math.floor(yc[i] + ky)), ny - 1)
            if x1 >= x0 and y1 >= y0:
                jj, ii = np.nonzero(data[y0:y1 + 1, x0:x1 + 1] == peak[i])
                cand = [(int(x0 + a), int(y0 + b)) for a, b in zip(ii, jj)]
        out.append(cand)
    return out


def starfinder_peak_pixels(data, xc, yc, flux, kshape):
    """StarFinder: ``flux`` is the sum and (xcentroid, ycentroid) the centre of mass of the non-negative pixels of
    the kernel-sized box centred on the detection pixel (documented), so the centroid lies inside that box.
    Candidates: pixels within the kernel half size of the centroid whose box reproduces both.  Returns one list of
    (xp, yp) candidates per row; more than one when neighbouring boxes differ only by columns / rows without a
    positive pixel (negative pixels count as zero)."""
    ky, kx = kshape
    ry, rx = ky // 2, kx // 2
    pad = np.pad(np.maximum(data, 0.0), ((ry, ry), (rx, rx)))
    ny, nx = data.shape
    yy, xx = np.mgrid[-ry:ry + 1, -rx:rx + 1].astype(float)
    out = []
    for i in range(len(xc)):
        cand = []
        if np.isfinite(xc[i]) and np.isfinite(yc[i]) and np.isfinite(flux[i]) and flux[i] > 0:
            for py in range(max(int(math.ceil(yc[i] - ry - 1e-6)), 0), min(int(math.floor(yc[i] + ry + 1e-6)), ny - 1) + 1):
                for px in range(max(int(math.ceil(xc[i] - rx - 1e-6)), 0),
                                min(int(math.floor(xc[i] + rx + 1e-6)), nx - 1) + 1):
                    box = pad[py:py + ky, px:px + kx]
                    tot = box.sum()
                    if abs(tot - flux[i]) > 1e-9 * abs(flux[i]):
                        continue
                    if abs((box * xx).sum() / tot + px - xc[i]) <= 1e-7 and \
                            abs((box * yy).sum() / tot + py - yc[i]) <= 1e-7:
                        cand.append((px, py))
        out.append(cand)
    return out


# ----------------------------------------------------------------------------
# transformations of the inputs
# ----------------------------------------------------------------------------
class Identity:
    kind = 'id'
    dx = dy = px = py = 0

    def img(self, a, fill=0):
        return a.copy()

    def ramp(self, scene):
        return scene['bkg'].copy()

    def pos(self, x, y):
        return np.array(x, float), np.array(y, float)

    def ipos(self, x, y):
        return np.array(x), np.array(y)

    def theta(self, th):
        return th

    def theta_deg(self, th):
        return th

    def pair_yx(self, p):
        return tuple(p)

    def wh(self, w, h):
        return w, h

    def shape(self, s):
        return tuple(s)

    def case(self):
        return ['id']


class Shift(Identity):
    """Embed at integer offset (dx, dy) in a canvas with px/py extra columns/rows on the far side."""
    kind = 'shift'

    def __init__(self, dx, dy, px, py):
        self.dx, self.dy, self.px, self.py = int(dx), int(dy), int(px), int(py)

    def img(self, a, fill=0):
        ny, nx = a.shape
        out = np.full((ny + self.dy + self.py, nx + self.dx + self.px), fill, dtype=a.dtype)
        out[self.dy:self.dy + ny, self.dx:self.dx + nx] = a
        return out

    def ramp(self, scene):
        # the ramp is translated with the scene (and simply continued into the padding)
        ny, nx = self.shape(scene['shape'])
        yy, xx = np.mgrid[0:ny, 0:nx].astype(float)
        return RAMP[0] * (xx - self.dx) + RAMP[1] * (yy - self.dy) + RAMP[2]

    def pos(self, x, y):
        return np.array(x, float) + self.dx, np.array(y, float) + self.dy

    def ipos(self, x, y):
        return np.array(x) + self.dx, np.array(y) + self.dy

    def shape(self, s):
        return (s[0] + self.dy + self.py, s[1] + self.dx + self.px)

    def case(self):
        return ['shift', self.dx, self.dy, self.px, self.py]


class Transpose(Identity):
    kind = 'T'

    def img(self, a, fill=0):
        return np.ascontiguousarray(a.T)

    def ramp(self, scene):
        return np.ascontiguousarray(scene['bkg'].T)

    def pos(self, x, y):
        return np.array(y, float), np.array(x, float)

    def ipos(self, x, y):
        return np.array(y), np.array(x)

    def theta(self, th):
        return math.pi / 2 - th

    def theta_deg(self, th):
        return 90.0 - th

    def pair_yx(self, p):
        return (p[1], p[0])

    def wh(self, w, h):
        # a w x h rectangle at angle theta reflected about y=x is the w x h rectangle at 90deg - theta
        return w, h

    def shape(self, s):
        return (s[1], s[0])

    def case(self):
        return ['transpose']


def transform_from_case(c):
    if c[0] == 'shift':
        return Shift(*c[1:])
    if c[0] == 'transpose':
        return Transpose()
    return Identity()


# ----------------------------------------------------------------------------
# comparator
# ----------------------------------------------------------------------------
# tolerance classes (all justified in props/c03.py, section TOLERANCES)
TOL = {
    'exact': (0.0, 0.0),
    'pos': (0.0, 1e-9),
    'rel': (1e-10, 1e-9),
    'geom': (1e-9, 1e-9),
    'fit': (1e-6, 1e-6),
    'fitl': (1e-5, 1e-5),
}
CALIB = {} if os.environ.get('C03_CALIB') else None


def strip(v):
    """-> (plain ndarray or list, unit string or None)"""
    unit = getattr(v, 'unit', None)
    if unit is not None and hasattr(v, 'value'):
        return np.asarray(v.value), str(unit)
    return v, None


def expected(kind, v, pv, T):
    """Value the transformed run must report, from the base value ``v`` (and the
    base value ``pv`` of the x<->y partner column)."""
    if T.kind == 'shift':
        if kind == 'x':
            return v + T.dx
        if kind == 'y':
            return v + T.dy
        if kind == 'xy':
            return v + np.array([T.dx, T.dy])
        if kind == 'yx':
            return v + np.array([T.dy, T.dx])
        return v
    if T.kind == 'T':
        if kind in ('x', 'y', 'swap'):
            return pv
        if kind in ('xy', 'yx', 'cxy', 'cyx'):
            return v[..., ::-1]
        if kind == 'mat':
            return np.swapaxes(v, -1, -2)
        if kind == 'sym2':
            return v[..., ::-1, ::-1]
        if kind == 'ang_deg':
            return 90.0 - v
        if kind == 'ang_rad':
            return math.pi / 2 - v
        return v
    return v


def num_diff(obs, exp, tol, period=None, scale=None):
    """None if equal within the tolerance class, else a description."""
    obs = np.asarray(obs)
    exp = np.asarray(exp)
    if obs.shape != exp.shape:
        return f'shape {obs.shape} != {exp.shape}'
    if obs.dtype == object or exp.dtype == object:
        same = all((a is None and b is None) or (a is not None and b is not None and a == b)
                   for a, b in zip(obs.ravel().tolist(), exp.ravel().tolist()))
        return None if same else 'object values differ'
    if obs.dtype.kind in 'biu' and exp.dtype.kind in 'biu':
        if np.array_equal(obs, exp):
            return None
        bad = np.argwhere(obs != exp)[0]
        return f'integer values differ at {tuple(int(i) for i in bad)}: {obs[tuple(bad)]} != {exp[tuple(bad)]}'
    obs = obs.astype(float)
    exp = exp.astype(float)
    nan_o, nan_e = np.isnan(obs), np.isnan(exp)
    if not np.array_equal(nan_o, nan_e):
        return f'NaN pattern differs ({int(nan_o.sum())} vs {int(nan_e.sum())} NaN)'
    inf = np.isinf(obs) | np.isinf(exp)
    if inf.any() and not np.array_equal(obs[inf], exp[inf]):
        return 'infinite values differ'
    good = ~(nan_o | inf)
    if not good.any():
        return None
    d = np.abs(obs - exp)
    if period is not None:
        d = np.abs((obs - exp + period / 2.0) % period - period / 2.0)
    rtol, atol = TOL[tol]
    allowed = atol + rtol * np.maximum(np.abs(obs), np.abs(exp))
    if scale is not None:
        allowed = allowed + rtol * np.broadcast_to(scale, obs.shape)
    d = np.where(good, d, 0.0)
    allowed = np.where(good, allowed, 1.0)
    if tol == 'exact':
        ok = (d == 0)
    else:
        ok = d <= allowed
    if CALIB is not None and tol != 'exact':
        CALIB['_last'] = float(np.max(d / allowed))
    if ok.all():
        return None
    i = np.unravel_index(int(np.argmax(d / np.where(allowed > 0, allowed, 1e-300))), d.shape)
    return f'max deviation {d[i]:.3g} (allowed {allowed[i]:.3g}) at index {tuple(int(j) for j in i)}: {obs[i]!r} vs {exp[i]!r}'


def img_diff(a, b, tol):
    """Compare two 2-D arrays (possibly masked)."""
    ma, mb = np.ma.getmaskarray(a) if isinstance(a, np.ma.MaskedArray) else None, \
        np.ma.getmaskarray(b) if isinstance(b, np.ma.MaskedArray) else None
    if (ma is None) != (mb is None):
        return 'masked vs plain array'
    a0, b0 = np.asarray(np.ma.getdata(a)), np.asarray(np.ma.getdata(b))
    if a0.shape != b0.shape:
        return f'shape {a0.shape} != {b0.shape}'
    if ma is not None:
        if not np.array_equal(ma, mb):
            return 'cutout masks differ'
        # values under the mask are not part of the documented result
        a0 = np.where(ma, 0, a0)
        b0 = np.where(mb, 0, b0)
    return num_diff(a0, b0, tol)
