"""Coordinate-array layouts for the C13 'pointwise evaluation' clause.

A *window* is a pair of 1-D coordinate lists ``xs`` (nx values) and ``ys`` (ny values); its points are the nx*ny pairs
(xs[i], ys[j]).  A *layout* is a purely structural way of handing (a subset or a repetition of) those pairs to
``model(x, y)``: it is a function ``fn(a, b) -> (A, B)`` that only indexes / reshapes / transposes / broadcasts / copies its
two 1-D arguments and never looks at their values.  Applying the same function to the coordinates and to the index lists
``arange(nx)``, ``arange(ny)`` therefore yields, for every element of the output, which point it is:

    X, Y = fn(xs, ys);  I, J = fn(arange(nx), arange(ny));  X == xs[I], Y == ys[J] elementwise (after broadcasting)

so the expected output of a pointwise function is ``ref[J, I]`` with ``ref[j, i] = f(xs[i], ys[j])`` obtained one point at
a time.  No photutils code in here.
"""
import math

import numpy as np


def perm(n):
    """A fixed permutation of range(n) without structure that a mesh has (multiplicative stride, coprime with n)."""
    if n < 3:
        return np.arange(n)[::-1]
    k = next(k for k in range(n // 2 + 1, 2 * n + 3) if math.gcd(k, n) == 1)
    return (np.arange(n) * k + 1) % n


def _xy(a, b):
    A, B = np.meshgrid(a, b)                      # shape (ny, nx), x varies along axis 1: the np.mgrid image layout
    return np.ascontiguousarray(A), np.ascontiguousarray(B)


def _ij(a, b):
    A, B = np.meshgrid(a, b, indexing='ij')       # shape (nx, ny), x varies along axis 0
    return np.ascontiguousarray(A), np.ascontiguousarray(B)


def _pts(a, b):
    """The point list (row-major over the xy mesh), permuted: consecutive elements share neither x nor y."""
    A, B = _xy(a, b)
    p = perm(A.size)
    return A.ravel()[p], B.ravel()[p]


def _embed(A, step, off):
    """A view with the given steps into a larger array whose other elements hold unrelated numbers."""
    A = np.asarray(A)
    big_shape = tuple(o + s * n + 1 for n, s, o in zip(A.shape, step, off))
    big = np.full(big_shape, 7, dtype=A.dtype)
    big.ravel()[:] = (np.arange(big.size) % 5).astype(A.dtype) + A.ravel()[0]
    sl = tuple(slice(o, o + s * n, s) for n, s, o in zip(A.shape, step, off))
    big[sl] = A
    v = big[sl]
    assert v.shape == A.shape and not v.flags['C_CONTIGUOUS']
    return v


def _rows_permuted(a, b):
    """x array: the xy mesh; y array: the xy mesh of the permuted y list.  Still a mesh of (xs, ys[perm]), but row 0 /
    column 0 no longer hold the first coordinate values and y is not monotonic."""
    A, _ = _xy(a, b)
    _, B = _xy(a, np.asarray(b)[perm(len(b))])
    return A, B


def _interior_shuffled(a, b):
    """The xy mesh with its first row and first column intact (still increasing like the coordinate lists) but the
    remaining elements cyclically shifted (x along the rows, y along the columns): NOT a mesh, although the first row /
    column, the corners, the shape and the set of points per row look like one."""
    A, B = _xy(a, b)
    A, B = A.copy(), B.copy()
    A[1:, 1:] = np.roll(A[1:, 1:], 1, axis=1)
    B[1:, 1:] = np.roll(B[1:, 1:], 1, axis=0)
    return A, B


def _toint(t, dt=np.int64):
    t = np.asarray(t)
    r = np.round(t).astype(dt)
    assert np.array_equal(r, t)
    return r


# name, group (= part of the violation site: which kind of input breaks), function, integer-valued-windows-only
def _mk():
    L = []

    def add(name, group, fn, ints=False):
        L.append((name, group, fn, ints))

    # ---- 1-D point lists
    add('1d', '1-D', lambda a, b: tuple(t.ravel() for t in _xy(a, b)))
    add('1d-reversed', '1-D', lambda a, b: tuple(t.ravel()[::-1] for t in _xy(a, b)))
    add('1d-permuted', '1-D', _pts)
    add('1d-strided', '1-D', lambda a, b: tuple(_embed(t.ravel(), (3,), (2,)) for t in _xy(a, b)))
    add('1d-single', '1-D', lambda a, b: (np.asarray(a)[1:2], np.asarray(b)[-1:]))
    # ---- 2-D meshes in the image layout (x along axis 1)
    add('2d-xy', '2-D-xy-mesh', _xy)
    add('2d-xy-fortran', '2-D-xy-mesh', lambda a, b: tuple(np.asfortranarray(t) for t in _xy(a, b)))
    add('2d-xy-flipped', '2-D-xy-mesh', lambda a, b: tuple(t[::-1, ::-1] for t in _xy(a, b)))
    add('2d-xy-strided', '2-D-xy-mesh', lambda a, b: tuple(_embed(t, (2, 3), (1, 2)) for t in _xy(a, b)))
    add('2d-xy-broadcast-views', '2-D-xy-mesh',
        lambda a, b: (np.broadcast_to(np.asarray(a)[None, :], (len(b), len(a))), np.broadcast_to(np.asarray(b)[:, None], (len(b), len(a)))))
    add('2d-xy-rows-permuted', '2-D-xy-mesh', _rows_permuted)
    add('2d-xy-one-row', '2-D-xy-mesh', lambda a, b: tuple(t[1:2, :] for t in _xy(a, b)))
    add('2d-xy-one-column', '2-D-xy-mesh', lambda a, b: tuple(t[:, 1:2] for t in _xy(a, b)))
    # ---- 2-D arrays that are NOT in the image layout
    add('2d-ij', '2-D-not-xy-mesh', _ij)
    add('2d-xy-transposed-view', '2-D-not-xy-mesh', lambda a, b: tuple(t.T for t in _xy(a, b)))
    add('2d-ij-strided', '2-D-not-xy-mesh', lambda a, b: tuple(_embed(t, (3, 2), (0, 1)) for t in _ij(a, b)))
    add('2d-ij-broadcast-views', '2-D-not-xy-mesh',
        lambda a, b: (np.broadcast_to(np.asarray(a)[:, None], (len(a), len(b))), np.broadcast_to(np.asarray(b)[None, :], (len(a), len(b)))))
    add('2d-ij-one-row', '2-D-not-xy-mesh', lambda a, b: tuple(t[1:2, :] for t in _ij(a, b)))      # (1, ny): y varies along the row
    add('2d-ij-one-column', '2-D-not-xy-mesh', lambda a, b: tuple(t[:, 1:2] for t in _ij(a, b)))   # (nx, 1)
    add('2d-xy-interior-shuffled', '2-D-not-xy-mesh', _interior_shuffled)
    add('2d-scattered-(ny,nx)', '2-D-not-xy-mesh', lambda a, b: tuple(t.reshape(len(b), len(a)) for t in _pts(a, b)))
    add('2d-scattered-(nx,ny)', '2-D-not-xy-mesh', lambda a, b: tuple(t.reshape(len(a), len(b)) for t in _pts(a, b)))
    add('2d-scattered-(1,n)', '2-D-not-xy-mesh', lambda a, b: tuple(t.reshape(1, -1) for t in _pts(a, b)))
    add('2d-scattered-(n,1)', '2-D-not-xy-mesh', lambda a, b: tuple(t.reshape(-1, 1) for t in _pts(a, b)))
    # ---- x and y of different shapes (numpy broadcasting)
    add('bcast-row-x-col', 'broadcast', lambda a, b: (np.asarray(a)[None, :], np.asarray(b)[:, None]))    # -> (ny, nx)
    add('bcast-col-x-row', 'broadcast', lambda a, b: (np.asarray(a)[:, None], np.asarray(b)[None, :]))    # -> (nx, ny)
    add('bcast-1d-x-col', 'broadcast', lambda a, b: (np.asarray(a), np.asarray(b)[:, None]))              # -> (ny, nx)
    add('bcast-col-x-1d', 'broadcast', lambda a, b: (np.asarray(a)[:, None], np.asarray(b)))              # -> (nx, ny)
    add('bcast-2d-x-row', 'broadcast', lambda a, b: (_xy(a, b)[0], np.asarray(b)[-1:][None, :]))          # (ny, nx) with (1, 1)
    add('bcast-scalar-x-1d', 'broadcast', lambda a, b: (np.asarray(a)[1].item(), np.asarray(b)))
    add('bcast-1d-x-scalar', 'broadcast', lambda a, b: (np.asarray(a), np.asarray(b)[-1].item()))
    add('bcast-0d-x-2d', 'broadcast', lambda a, b: (np.asarray(a)[0], _ij(a, b)[1]))                      # numpy scalar with (nx, ny)
    # ---- more than two dimensions
    add('3d-xy-stack', '3-D', lambda a, b: tuple(np.stack([t, t[::-1, ::-1]]) for t in _xy(a, b)))                 # (2, ny, nx)
    add('3d-scattered', '3-D', lambda a, b: tuple(np.stack([t.reshape(len(a), len(b)), t[::-1].reshape(len(a), len(b))], axis=2)
                                                  for t in _pts(a, b)))                                          # (nx, ny, 2)
    # ---- containers / dtypes
    add('nested-list-ij', 'list', lambda a, b: tuple(t.tolist() for t in _ij(a, b)))
    add('list-1d-permuted', 'list', lambda a, b: tuple(t.tolist() for t in _pts(a, b)))
    add('1d-permuted:int64', 'integer-dtype', lambda a, b: tuple(_toint(t) for t in _pts(a, b)), True)
    add('2d-xy:int64', 'integer-dtype', lambda a, b: tuple(_toint(t) for t in _xy(a, b)), True)
    add('2d-ij:int32', 'integer-dtype', lambda a, b: tuple(_toint(t, np.int32) for t in _ij(a, b)), True)
    add('bcast-col-x-row:int64', 'integer-dtype', lambda a, b: (_toint(np.asarray(a))[:, None], _toint(np.asarray(b))[None, :]), True)
    return L


LAYOUTS = _mk()
LAYOUT_NAMES = [n for n, _, _, _ in LAYOUTS]
GROUPS = []
for _n, _g, _f, _i in LAYOUTS:
    if _g not in GROUPS:
        GROUPS.append(_g)


def is_integer_window(xs, ys):
    xs, ys = np.asarray(xs, float), np.asarray(ys, float)
    return bool(np.all(xs == np.round(xs)) and np.all(ys == np.round(ys)) and np.abs(xs).max() < 2 ** 31 and np.abs(ys).max() < 2 ** 31)


def applicable(xs, ys):
    """[(name, group, fn)] for this window (integer-dtype layouts only for integer-valued windows)."""
    ok = is_integer_window(xs, ys)
    return [(n, g, f) for n, g, f, ints in LAYOUTS if ok or not ints]


def realise(fn, xs, ys):
    """(X, Y, I, J, shape): the coordinate arguments handed to the model, the index of the window point behind every
    output element (broadcast to the output shape) and the broadcast output shape."""
    xs = np.asarray(xs, dtype=float)
    ys = np.asarray(ys, dtype=float)
    X, Y = fn(xs, ys)
    Ii, Jj = fn(np.arange(len(xs)), np.arange(len(ys)))
    I, J = np.broadcast_arrays(np.asarray(Ii), np.asarray(Jj))
    shape = np.broadcast(np.asarray(X), np.asarray(Y)).shape
    assert I.shape == shape, (I.shape, shape)
    return X, Y, I, J, shape
