"""Shape (A): explicit-state breadth-first search over the REAL object.

A state is the event history that reaches it.  Every transition is executed on
a fresh object rebuilt by replaying the history (live objects hold numpy views
and astropy descriptors and do not copy reliably).  States are de-duplicated by
``system.canon(state)`` -- a digest of the complete instance ``__dict__`` (see
snapshot.digest) -- and the invariant is evaluated in EVERY state reached.

A *system* provides

    initial()                 -> state (any object; holds the real object and the reference model)
    ops(state)                -> list of JSON-able operation tuples enabled in the state (simplest first)
    apply(state, op, report)  -> performs op on the real object AND the reference model, checks the
                                 transition's own result; returns False if the state is unusable afterwards
    canon(state)              -> hashable key (must be computed BEFORE invariant() reads anything)
    invariant(state, report)  -> checks every observable against fresh object / reference
    nontrivial(history)       -> bool (optional)

``report(clause, site, observed, expected, detail)`` records a violation whose
case is the current history.
"""
from .snapshot import jsonable


class ReplayDivergence(RuntimeError):
    pass


def _mk_report(acc, system, hist, extra):
    def report(clause, site, observed=None, expected=None, detail=''):
        case = dict(extra)
        case['history'] = jsonable(list(hist))
        acc.violation(clause, site, case, observed, expected, detail)
    return report


def build(system, hist, acc=None, extra=None, check_last=True):
    """Replay ``hist`` on a fresh state.  Violations are reported only for the
    last operation (earlier ones were reported when their prefix was explored)."""
    st = system.initial()
    ok = True
    quiet = lambda *a, **k: None  # noqa: E731
    for i, op in enumerate(hist):
        last = i == len(hist) - 1
        rep = _mk_report(acc, system, hist, extra or {}) if (last and check_last and acc is not None) else quiet
        ok = system.apply(st, op, rep)
        if ok is False:
            if not last:
                raise ReplayDivergence(f'prefix {hist[:i + 1]} became unusable on replay')
            break
    if extra and extra.get('divergence') and acc is not None and ok is not False:
        # replay of a 'state-not-function-of-history' violation: two fresh objects driven through the
        # same history must reach the same state
        st2, ok2 = build(system, hist)
        if ok2 and system.canon(st) != system.canon(st2):
            _mk_report(acc, system, hist, extra)(
                'state-not-function-of-history', _root_name(system, extra), 'two fresh objects, same history: different states',
                'identical states', 'the state reached depends on something outside the object (module- or class-level state)')
    return st, (ok is not False)


def _root_name(system, extra):
    return str((extra or {}).get('root', (extra or {}).get('system', type(system).__name__)))


def explore(system, depth, acc, first_ops=None, extra=None, root_check=True, max_states=None):
    """BFS to ``depth`` operations.  ``first_ops``: restrict the first operation
    to these indices of ops(initial) (sharding); None = all."""
    extra = extra or {}
    seen = {}          # state key -> first (shortest) history reaching it
    key_of = {}        # history -> state key recorded when it was first executed
    st0 = system.initial()
    k0 = system.canon(st0)
    seen[k0] = ()
    key_of[()] = k0
    if root_check:
        system.invariant(st0, _mk_report(acc, system, (), extra))
        acc.case(nontrivial=False)
    frontier = [()]
    stop = False
    for level in range(depth):
        nxt = []
        for h in frontier:
            st, _ = build(system, h)
            if system.canon(st) != key_of[h]:
                # A fresh object replaying the same history reached a different state: either the harness is
                # nondeterministic or the code under test keeps state outside the object.  Decide by building the
                # history twice more, back to back; a reproducible difference is reported as a violation (it is
                # re-executed in a fresh interpreter by the runner before being believed).
                a, _ = build(system, h)
                b, _ = build(system, h)
                ex = dict(extra, divergence=True)
                _mk_report(acc, system, h, ex)(
                    'state-not-function-of-history', _root_name(system, extra),
                    'fresh object + same history: different state', 'identical states',
                    'the state reached depends on something outside the object (module- or class-level state); '
                    f'back-to-back rebuilds {"agree" if system.canon(a) == system.canon(b) else "differ"}')
                continue
            ops = system.ops(st)
            if level == 0 and first_ops is not None:
                ops = [ops[i] for i in first_ops if i < len(ops)]
            for op in ops:
                h2 = h + (op,)
                st2, usable = build(system, h2, acc, extra)
                acc.transitions += 1
                acc.traces += 1
                if not usable:
                    acc.case(nontrivial=True)
                    continue
                k = system.canon(st2)
                if k not in seen:
                    # the invariant is a function of the state: evaluate it once per distinct state
                    system.invariant(st2, _mk_report(acc, system, h2, extra))
                nt = system.nontrivial(h2) if hasattr(system, 'nontrivial') else True
                acc.case(nontrivial=nt, sample=({'history': list(h2), **extra} if acc.evaluations % 997 == 1 else None))
                if hasattr(system, 'outcome'):
                    acc.outcome(system.outcome(st2))
                if k not in seen:
                    seen[k] = h2
                    key_of[h2] = k
                    if level + 1 < depth:
                        nxt.append(h2)
                    if max_states and len(seen) >= max_states:
                        acc.capped = True
                        acc.notes.append(f'state cap {max_states} hit at level {level + 1}')
                        stop = True
                        break
            if stop:
                break
        if stop:
            break
        frontier = nxt
    if acc.state_keys is None:
        acc.state_keys = set()
    acc.state_keys |= set(seen)
    return seen
