"""Self-test of the C19 reference aperture weights (plain script, exits non-zero on failure)."""
import math
import os
import sys

import numpy as np

sys.path.insert(0, os.path.dirname(os.path.dirname(os.path.abspath(__file__))))
from mcphot.ref.c19_apweights import weights  # noqa: E402

fail = 0
shape = (21, 23)
for (xc, yc) in ((11.0, 10.0), (11.5, 9.5), (10.3, 11.7), (2.0, 10.0), (-1.0, 10.0)):
    for r in (0.3, 0.7, 1.0, 2.5, 4.0, 7.3):
        w, _ = weights(shape, xc, yc, r, 'exact')
        # 1. total area == pi r^2 when the circle is inside the image
        if xc - r >= -0.5 and yc - r >= -0.5 and xc + r <= shape[1] - 0.5 and yc + r <= shape[0] - 0.5:
            if abs(w.sum() - math.pi * r * r) > 1e-11 * max(1.0, r * r):
                print('FAIL total area', xc, yc, r, w.sum(), math.pi * r * r)
                fail += 1
        # 2. brute force: 60 x 60 sub-sampling of every pixel (error <= perimeter/60 per boundary pixel)
        s = 60
        off = (np.arange(s) + 0.5) / s - 0.5
        xs = (np.arange(shape[1])[:, None] + off[None, :]).ravel()
        ys = (np.arange(shape[0])[:, None] + off[None, :]).ravel()
        ins = (np.hypot(xs[None, :] - xc, ys[:, None] - yc) < r)
        b = ins.reshape(shape[0], s, shape[1], s).mean(axis=(1, 3))
        if np.abs(b - w).max() > 2.5 / s:
            print('FAIL brute force', xc, yc, r, np.abs(b - w).max())
            fail += 1
        # 3. subpixel(60) reference agrees with that brute force up to ties
        w2, amb = weights(shape, xc, yc, r, 'subpixel', 60)
        if (np.abs(w2 - b) > amb + 1e-12).any():
            print('FAIL subpixel', xc, yc, r)
            fail += 1
        wc, ambc = weights(shape, xc, yc, r, 'center')
        yy, xx = np.mgrid[0:shape[0], 0:shape[1]]
        bc = (np.hypot(xx - xc, yy - yc) < r).astype(float)
        if (np.abs(wc - bc) > ambc + 1e-12).any():
            print('FAIL center', xc, yc, r)
            fail += 1
# 4. circles cut by ONE image edge (or by two edges whose caps do not meet): total exact area = pi r^2 - circular
#    segment(s), segment(d) = r^2 atan2(h, d) - d h, h = sqrt(r^2 - d^2), for a chord at distance d from the centre; the centres
#    and radii are the edge-geometry alphabet of C19 (circle ends within +-1 px of the true edge -0.5 / n - 0.5)
from mcphot.props.c19 import EDGE_CENTRES, EDGE_RADII, SHAPE  # noqa: E402


def _seg(d, r):
    if d >= r:
        return 0.0
    h = math.sqrt((r - d) * (r + d))          # half chord; atan2 instead of acos(d / r): no cancellation near tangency
    return r * r * math.atan2(h, d) - d * h


assert SHAPE == shape and len(EDGE_CENTRES) == 12
for name, (xc, yc) in EDGE_CENTRES.items():
    dists = (xc + 0.5, shape[1] - 0.5 - xc, yc + 0.5, shape[0] - 0.5 - yc)
    for r in EDGE_RADII[name]:
        if r <= 0:
            continue
        near = sorted(dists)[:2]
        if math.hypot(*near) <= r:
            print('FAIL design: corner inside the circle', name, r)
            fail += 1
        want = math.pi * r * r - sum(_seg(d, r) for d in dists)
        w, _ = weights(shape, xc, yc, r, 'exact')
        if abs(w.sum() - want) > 1e-11 * max(1.0, r * r):
            print('FAIL edge-cut area', name, r, w.sum(), want)
            fail += 1
print('c19_apweights selftest:', 'FAILED' if fail else 'ok')
sys.exit(1 if fail else 0)
