"""Self-test of the C19 reference aperture weights (plain script, exits non-zero on failure)."""
import math
import os
import sys

import numpy as np

sys.path.insert(0, os.path.dirname(os.path.dirname(os.path.abspath(__file__))))
from mcphot.ref.c19_apweights import weights  # noqa: E402

fail = 0
shape = (21, 23)
for (xc, yc) in ((11.0, 10.0), (11.5, 9.5), (10.3, 11.7), (2.0, 10.0), (-1.0, 10.0)):
    for r in (0.3, 0.7, 1.0, 2.5, 4.0, 7.3):
        w, _ = weights(shape, xc, yc, r, 'exact')
        # 1. total area == pi r^2 when the circle is inside the image
        if xc - r >= -0.5 and yc - r >= -0.5 and xc + r <= shape[1] - 0.5 and yc + r <= shape[0] - 0.5:
            if abs(w.sum() - math.pi * r * r) > 1e-11 * max(1.0, r * r):
                print('FAIL total area', xc, yc, r, w.sum(), math.pi * r * r)
                fail += 1
        # 2. brute force: 60 x 60 sub-sampling of every pixel (error <= perimeter/60 per boundary pixel)
        s = 60
        off = (np.arange(s) + 0.5) / s - 0.5
        xs = (np.arange(shape[1])[:, None] + off[None, :]).ravel()
        ys = (np.arange(shape[0])[:, None] + off[None, :]).ravel()
        ins = (np.hypot(xs[None, :] - xc, ys[:, None] - yc) < r)
        b = ins.reshape(shape[0], s, shape[1], s).mean(axis=(1, 3))
        if np.abs(b - w).max() > 2.5 / s:
            print('FAIL brute force', xc, yc, r, np.abs(b - w).max())
            fail += 1
        # 3. subpixel(60) reference agrees with that brute force up to ties
        w2, amb = weights(shape, xc, yc, r, 'subpixel', 60)
        if (np.abs(w2 - b) > amb + 1e-12).any():
            print('FAIL subpixel', xc, yc, r)
            fail += 1
        wc, ambc = weights(shape, xc, yc, r, 'center')
        yy, xx = np.mgrid[0:shape[0], 0:shape[1]]
        bc = (np.hypot(xx - xc, yy - yc) < r).astype(float)
        if (np.abs(wc - bc) > ambc + 1e-12).any():
            print('FAIL center', xc, yc, r)
            fail += 1
# 4. circles cut by ONE image edge (or by two edges whose caps do not meet): total exact area = pi r^2 - circular
#    segment(s), segment(d) = r^2 atan2(h, d) - d h, h = sqrt(r^2 - d^2), for a chord at distance d from the centre; the centres
#    and radii are the edge-geometry alphabet of C19 (circle ends within +-1 px of the true edge -0.5 / n - 0.5)
from mcphot.props.c19 import EDGE_CENTRES, EDGE_RADII, SHAPE  # noqa: E402


def _seg(d, r):
    if d >= r:
        return 0.0
    h = math.sqrt((r - d) * (r + d))          # half chord; atan2 instead of acos(d / r): no cancellation near tangency
    return r * r * math.atan2(h, d) - d * h


assert SHAPE == shape and len(EDGE_CENTRES) == 12
for name, (xc, yc) in EDGE_CENTRES.items():
    dists = (xc + 0.5, shape[1] - 0.5 - xc, yc + 0.5, shape[0] - 0.5 - yc)
    for r in EDGE_RADII[name]:
        if r <= 0:
            continue
        near = sorted(dists)[:2]
        if math.hypot(*near) <= r:
            print('FAIL design: corner inside the circle', name, r)
            fail += 1
        want = math.pi * r * r - sum(_seg(d, r) for d in dists)
        w, _ = weights(shape, xc, yc, r, 'exact')
        if abs(w.sum() - want) > 1e-11 * max(1.0, r * r):
            print('FAIL edge-cut area', name, r, w.sum(), want)
            fail += 1
# 5. transposition: the reference computed for the transposed shape with the centre (yc, xc) is the transposed
#    reference (the 'tall' orientation of C19 is judged against weights computed for its own shape)
for name, (xc, yc) in list(EDGE_CENTRES.items()) + [('generic', (10.3, 11.7)), ('outside', (-1.0, 10.0))]:
    for r in (0.7, 4.0, 5.5, 13.0, 40.0):
        for method, sub in (('exact', 5), ('center', 5), ('subpixel', 5), ('subpixel', 2)):
            w, amb = weights(shape, xc, yc, r, method, sub)
            wt, ambt = weights(shape[::-1], yc, xc, r, method, sub)
            if wt.shape != shape[::-1] or np.abs(wt.T - w).max() > 1e-13 or not np.array_equal(ambt.T, amb):
                print('FAIL transposition', name, r, method, sub, np.abs(wt.T - w).max())
                fail += 1

# 6. raw data profile reference: data_points / match_points
from mcphot.ref.c19_apweights import data_points, match_points  # noqa: E402

rng = np.random.default_rng(5)
for shp, (xc, yc), rmax in (((21, 23), (18.0, 10.0), 5.5), ((23, 21), (10.0, 18.0), 5.5), ((21, 23), (10.3, 11.7), 40.0),
                            ((23, 21), (16.0, 4.0), 5.0), ((21, 23), (-1.0, 10.0), 0.4)):
    img = rng.random(shp)
    iy, ix, rr, cert = data_points(shp, xc, yc, rmax)
    yy, xx = np.mgrid[0:shp[0], 0:shp[1]]
    d = np.hypot(xx - xc, yy - yc)
    if int((d < rmax - 1e-9).sum()) != int(cert.sum()) or int((d <= rmax + 1e-9).sum()) != rr.size:
        print('FAIL data_points count', shp, xc, yc, rmax)
        fail += 1
    if rr.size and not np.allclose(rr, d[iy, ix], rtol=1e-15, atol=0):      # math.hypot vs np.hypot: <= 1 ulp
        print('FAIL data_points radii', shp, xc, yc, rmax)
        fail += 1
    vals = img[iy, ix]
    tol = 1e-12 * (1 + rmax)
    perm = rng.permutation(rr.size)
    # exact copy in another order: accepted; ties ((23, 21), (16, 4), 5: pixels exactly on the circle) may be dropped
    for keep in (np.ones(rr.size, bool), cert):
        k = keep[perm]
        if match_points(rr[perm][k], vals[perm][k], rr, vals, cert, tol)[:2] != (0, 0):
            print('FAIL match_points rejects a correct profile', shp, xc, yc, rmax)
            fail += 1
    if cert.sum() >= 3:
        j = np.nonzero(cert)[0]
        drop = np.ones(rr.size, bool)
        drop[j[:2]] = False
        if match_points(rr[drop], vals[drop], rr, vals, cert, tol)[:2] != (2, 0):
            print('FAIL match_points: two dropped pixels not counted', shp)
            fail += 1
        if match_points(np.append(rr, 1.0), np.append(vals, 7.0), rr, vals, cert, tol)[:2] != (0, 1):
            print('FAIL match_points: foreign point not counted', shp)
            fail += 1
        if match_points(rr, vals * 2, rr, vals, cert, tol)[0] != int(cert.sum()):
            print('FAIL match_points: scaled values accepted', shp)
            fail += 1
        sw = vals.copy()
        sw[j[0]], sw[j[-1]] = vals[j[-1]], vals[j[0]]       # values attached to the wrong radii
        if rr[j[0]] != rr[j[-1]] and match_points(rr, sw, rr, vals, cert, tol)[:2] != (2, 2):
            print('FAIL match_points: swapped values accepted', shp)
            fail += 1
    # constant image (all values equal): optional pixels may be dropped, required ones not; NaN values match NaN
    cst = np.full(rr.size, 3.25)
    req = cert & (np.arange(rr.size) % 3 != 0)
    if match_points(rr[req], cst[req], rr, cst, req, tol)[:2] != (0, 0) or match_points(rr, cst, rr, cst, req, tol)[:2] != (0, 0):
        print('FAIL match_points: optional pixels (constant image)', shp)
        fail += 1
    if rr.size:
        vn = vals.copy()
        vn[0] = np.nan
        if match_points(rr, vn, rr, vn, cert, tol)[:2] != (0, 0):
            print('FAIL match_points: NaN value', shp)
            fail += 1
if not (data_points((23, 21), 16.0, 4.0, 5.0)[3] == False).any():  # noqa: E712
    print('FAIL design: the tie example has no pixel on the circle')
    fail += 1
print('c19_apweights selftest:', 'FAILED' if fail else 'ok')
sys.exit(1 if fail else 0)
