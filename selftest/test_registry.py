#!/venv/bin/python
"""Self-test of the C10/C15 registry machinery (plain script, exit != 0 on failure).

 * every public photutils callable is classified (covered by a recipe or listed
   as uncovered with a reason) and the registry names nothing that does not exist;
 * every recipe executes under (ndarray, clean) and at least one step completes;
 * the snapshot comparison sees each kind of modification the property lists and
   does not flag a lazily filled cache;
 * the C15 helpers (homogeneity degree, leaf comparison, unit expectation).
"""
import os
import sys
import warnings

sys.path.insert(0, os.path.dirname(os.path.dirname(os.path.abspath(__file__))))
warnings.simplefilter('ignore')

import numpy as np  # noqa: E402

from mcphot.ref import registry as R  # noqa: E402
from mcphot.props import c15  # noqa: E402

fails = []


def check(cond, msg):
    if not cond:
        fails.append(msg)
        print('FAIL', msg)


# -- classification --------------------------------------------------------------
cov = R.coverage()
check(not cov['unclassified'], f'unclassified public callables: {cov["unclassified"]}')
check(not cov['stale_registry_names'], f'stale registry names: {cov["stale_registry_names"]}')
check(cov['public_callables'] >= 140, 'public API walk found too few callables')

# -- every recipe runs -------------------------------------------------------------
nsteps = 0
for name in R.RECIPES:
    c = R.run_recipe(name, 'ndarray', 'clean', 0)
    check(c is not None and c.steps, f'recipe {name}: no steps')
    if c is None:
        continue
    ok = [s for _, s in c.steps if s == 'ok']
    bad = [lab for lab, st in c.steps if st != 'ok']
    check(not bad, f'recipe {name}: steps raise on the clean float64 scene: {bad[:4]}')
    check(len(c.held) >= 1, f'recipe {name}: nothing watched')
    nsteps += len(c.steps)
check(nsteps > 800, f'only {nsteps} steps in total')

# -- snapshot comparison -----------------------------------------------------------
import astropy.units as u  # noqa: E402
from astropy.nddata import NDData, StdDevUncertainty  # noqa: E402
from astropy.table import QTable  # noqa: E402
from photutils.aperture import CircularAperture  # noqa: E402
from photutils.psf import CircularGaussianPRF, ImagePSF  # noqa: E402
from photutils.segmentation import SegmentationImage  # noqa: E402


def mutated(obj, fn):
    before = R.snap(obj)
    fn(obj)
    return R.changed(before, R.snap(obj))


a = np.arange(12.0).reshape(3, 4)
check(mutated(a.copy(), lambda x: x.__setitem__((1, 1), 99.0)), 'ndarray value change not seen')
check(mutated(a.copy(), lambda x: x.__setitem__((1, 1), np.nan)), 'ndarray NaN write not seen')
check(not mutated(a.copy(), lambda x: x.sum()), 'ndarray read flagged')
nanarr = a.copy()
nanarr[0, 0] = np.nan
check(not mutated(nanarr, lambda x: None), 'NaN content flagged without change')
m = np.ma.MaskedArray(a.copy(), mask=np.zeros(a.shape, bool))
check(mutated(m, lambda x: x.mask.__setitem__((0, 0), True)), 'MaskedArray mask change not seen')
m = np.ma.MaskedArray(a.copy())
check(mutated(m, lambda x: setattr(x, 'fill_value', 0.0)), 'MaskedArray fill_value change not seen')
m = np.ma.MaskedArray(a.copy())
check(not mutated(m, lambda x: setattr(x, 'mask', np.zeros(a.shape, bool))), 'nomask -> all-False mask flagged (same mask)')
q = a.copy() * u.Jy
check(mutated(q, lambda x: x.value.__setitem__((0, 0), 5.0)), 'Quantity value change not seen')
nd = NDData(a.copy(), uncertainty=StdDevUncertainty(a.copy()), mask=np.zeros(a.shape, bool))
check(mutated(nd, lambda x: x.mask.__setitem__((0, 0), True)), 'NDData mask change not seen')
check(mutated(nd, lambda x: x.uncertainty.array.__setitem__((0, 0), 7.0)), 'NDData uncertainty change not seen')
t = QTable({'x': [1.0, 2.0], 'flux': [3.0, 4.0] * u.Jy})
check(mutated(t, lambda x: x.rename_column('x', 'x_init')), 'Table column rename not seen')
check(mutated(t, lambda x: x['flux'].__setitem__(0, 9.0 * u.Jy)), 'Table value change not seen')
check(mutated(t, lambda x: x.meta.__setitem__('k', 1)), 'Table meta change not seen')
mdl = CircularGaussianPRF(fwhm=3.0)
check(mutated(mdl, lambda x: setattr(x, 'x_0', 4.0)), 'model parameter change not seen')
check(mutated(mdl, lambda x: setattr(x.fwhm, 'fixed', False)), 'model fixed flag change not seen')
ip = ImagePSF(np.ones((5, 5)))
check(mutated(ip, lambda x: x.data.__setitem__((0, 0), 3.0)), 'ImagePSF data change not seen')
ap = CircularAperture(np.array([[1.0, 2.0], [3.0, 4.0]]), 2.0)
check(mutated(ap, lambda x: setattr(x, 'r', 3.0)), 'aperture parameter change not seen')
seg = SegmentationImage(np.array([[0, 1, 1], [0, 0, 2], [3, 0, 2]]))
check(not mutated(seg, lambda x: (x.slices, x.labels, x.areas, x.bbox)), 'lazy cache filling of a SegmentationImage flagged')
check(mutated(seg, lambda x: x.data.__setitem__((0, 0), 5)), 'SegmentationImage data change not seen')
d = {'a': 1}
check(mutated(d, lambda x: x.__setitem__('b', 2)), 'dict key addition not seen')

# views: a write outside the view is attributed to the parent only
c = R.Ctx('view', 'clean', 0)
v = c.data()
c.arm()
c.step('write outside', lambda: c.held['data.base'].__setitem__((0, 0), -1.0))
check([x[1] for x in c.changes] == ['data.base'], f'write outside the view: {c.changes}')
c.step('write inside', lambda: v.__setitem__((0, 0), -1.0))
check([x[1] for x in c.changes] == ['data.base', 'data'], f'write inside the view: {c.changes}')

# -- C15 helpers --------------------------------------------------------------------
x = ('num', np.array([1.0, 2.0, 0.0, np.nan]), None)
check(c15.degree(x, ('num', x[1] * 2, None)) == 1, 'degree 1')
check(c15.degree(x, ('num', x[1] * 4, None)) == 2, 'degree 2')
check(c15.degree(x, ('num', x[1] * 1, None)) == 0, 'degree 0')
check(c15.degree(x, ('num', x[1] + 1, None)) is None, 'no degree')
check(c15.cmp_leaf(x, ('num', x[1] * (1 + 1e-14), None), 1e-12) is None, 'cmp within tolerance')
check(c15.cmp_leaf(x, ('num', x[1] * (1 + 1e-9), None), 1e-12) is not None, 'cmp outside tolerance')
check(c15.cmp_leaf(x, ('num', x[1][:3], None), 1e-12) is not None, 'cmp shape')
check(c15.same_unit('Jy2 pix2', c15.expected_unit('pix2', 2)), 'unit expectation')
check(not c15.same_unit('Jy', c15.expected_unit(None, 0)), 'unit expectation (dimensionless)')
check(c15.DOCUMENTED_UNIT.search('ApertureStats.sum|<value>') is not None, 'documented-unit pattern')
check(c15.DOCUMENTED_UNIT.search('ApertureStats.xcentroid|<value>') is None, 'documented-unit pattern (negative)')
n = R.norm(QTable({'a': [1, 2], 'f': [1.0, 2.0] * u.Jy}))
check(n['f'][2] == 'Jy' and n['a'][2] is None, 'norm(QTable)')

print(f'registry self-test: {len(R.RECIPES)} recipes, {nsteps} steps, {len(fails)} failures')
sys.exit(1 if fails else 0)
