#!/venv/bin/python
"""Self-test of the C10/C15 registry machinery (plain script, exit != 0 on failure).

 * every public photutils callable is classified (covered by a recipe or listed
   as uncovered with a reason) and the registry names nothing that does not exist;
 * every recipe executes under (ndarray, clean) and at least one step completes;
 * the geometry axis of C10: frames hold every kind of bad pixel, every (recipe,
   geometry) runs, the base geometry is untouched, Background2D layouts are what
   their names say and include view- and copy-producing block reshapes;
 * the snapshot comparison sees each kind of modification the property lists and
   does not flag a lazily filled cache;
   (the second pass of ``members`` -- plotting members, members with arguments -- and the mask forms:
   selftest/test_registry_members.py);
 * the C15 helpers (homogeneity degree, leaf comparison, unit expectation);
   (one companion at a time, table forms and the deep table snapshot: selftest/test_registry_tables.py).
"""
import os
import sys
import warnings

sys.path.insert(0, os.path.dirname(os.path.dirname(os.path.abspath(__file__))))
warnings.simplefilter('ignore')

import numpy as np  # noqa: E402

from mcphot.ref import registry as R  # noqa: E402
from mcphot.props import c15  # noqa: E402

fails = []


def check(cond, msg):
    if not cond:
        fails.append(msg)
        print('FAIL', msg)


# -- classification --------------------------------------------------------------
cov = R.coverage()
check(not cov['unclassified'], f'unclassified public callables: {cov["unclassified"]}')
check(not cov['stale_registry_names'], f'stale registry names: {cov["stale_registry_names"]}')
check(cov['public_callables'] >= 140, 'public API walk found too few callables')

# -- every recipe runs -------------------------------------------------------------
nsteps = 0
for name in R.RECIPES:
    if 'table forms' in name:
        continue       # the table-form products (hundreds of fits): selftest/test_registry_tables.py
    if name.startswith('containers['):
        continue       # container-form products incl. forms the calls reject (they raise): selftest/test_registry_containers.py
    c = R.run_recipe(name, 'ndarray', 'clean', 0)
    check(c is not None and c.steps, f'recipe {name}: no steps')
    if c is None:
        continue
    ok = [s for _, s in c.steps if s == 'ok']
    bad = [lab for lab, st in c.steps if st != 'ok']
    check(not bad, f'recipe {name}: steps raise on the clean float64 scene: {bad[:4]}')
    check(len(c.held) >= 1, f'recipe {name}: nothing watched')
    nsteps += len(c.steps)
check(nsteps > 800, f'only {nsteps} steps in total')

# -- geometry axis (C10) ---------------------------------------------------------------
from mcphot.props import c10  # noqa: E402
from mcphot.ref import registry_recipes as RR  # noqa: E402

for g in R.FRAMES:
    cg = R.Ctx('ndarray', 'clean', 0, geom=g)
    check(cg.data().shape == cg.shape, f'frame {g}: data shape {cg.data().shape} != {cg.shape}')
    if g != 'base':
        for kind, n in c10.bad_pixels_inside(g, 0).items():
            check(n >= 1, f'frame {g}: no pixel of kind {kind!r} inside the image')
check(R.Ctx('ndarray', 'clean', 0, geom='tight').block_bbox() == (0, 9, 0, 9), 'tight frame: block is not the whole image')
check(R.Ctx('ndarray', 'clean', 0, geom='fullwidth').block_bbox()[:2] == (0, 9) and R.Ctx('ndarray', 'clean', 0, geom='fullwidth').shape[1] == 9,
      'fullwidth frame: block does not span every column')
check(np.array_equal(R.scene('nonfinite', 0)['data'], R.scene('nonfinite', 0, extra=True)['data'], equal_nan=True)
      and not np.array_equal(R.scene('masked', 0)['mask'], R.scene('masked', 0, extra=True)['mask']), 'extra pixels')
# the base geometry is the scene C15 uses: no extra pixel, no frame
cb = R.Ctx('ndarray', 'masked', 0)
check(cb.region is None and cb.mask().sum() == len(R.ARG_MASK_PIX['masked']), 'base geometry changed')
# every geometry of every recipe runs; geometries of one recipe are distinct cases
# one-row / one-column cutouts that the function rejects (after its clean-up ran; raising steps are checked too)
DEGENERATE_REJECTED = {('centroid_quadratic', 'col'), ('centroid_1dg', 'row'), ('centroid_1dg', 'col')}
ngeom = 0
for name, r in R.RECIPES.items():
    check(r.geoms[0] == 'base' and len(set(r.geoms)) == len(r.geoms), f'recipe {name}: geometry alphabet')
    if r.slow:
        continue
    shapes = set()
    for g in r.geoms[1:]:
        cg = R.run_recipe(name, 'ndarray', 'clean', 0, geom=g)
        check(cg is not None and cg.steps, f'recipe {name}, geometry {g}: no steps')
        if cg is not None:
            check(any(st == 'ok' for _, st in cg.steps) or (name, g) in DEGENERATE_REJECTED,
                  f'recipe {name}, geometry {g}: every step raises on the clean scene')
            ngeom += 1
    check(R.run_recipe(name, 'ndarray', 'clean', 0, geom='no such geometry') is None, 'unknown geometry accepted')
check(ngeom > 250, f'only {ngeom} (recipe, geometry) pairs')
# Background2D layouts: the box counts / remainders are what the names say, and the alphabet contains layouts for which
# the block reshape of a C-contiguous image is a view of it (one column of boxes) as well as layouts for which it is a copy
views = copies = 0
for lay, (frame, box, edge) in RR.BKG_LAYOUTS.items():
    shape = R.Ctx('ndarray', 'clean', 0, geom=frame).shape if isinstance(frame, str) else frame
    ny, nx = shape[0] // box[0], shape[1] // box[1]
    ry, rx = shape[0] - ny * box[0], shape[1] - nx * box[1]
    check(f'boxes {ny}x{nx}, remainder {ry}x{rx}, {edge}' in lay, f'layout {lay!r}: really boxes {ny}x{nx}, remainder {ry}x{rx}')
    img = np.zeros(shape)
    core = img[:ny * box[0], :nx * box[1]].reshape(ny, box[0], nx, box[1]).swapaxes(1, 2).reshape(ny, nx, -1)
    if np.shares_memory(core, img):
        views += 1
    else:
        copies += 1
check(views >= 16 and copies >= 32, f'Background2D layouts: {views} aliasing-prone, {copies} copying layouts')
print(f'geometry axis: {ngeom} (recipe, geometry) pairs besides base; Background2D layouts {views} view / {copies} copy')

# -- snapshot comparison -----------------------------------------------------------
import astropy.units as u  # noqa: E402
from astropy.nddata import NDData, StdDevUncertainty  # noqa: E402
from astropy.table import QTable  # noqa: E402
from photutils.aperture import CircularAperture  # noqa: E402
from photutils.psf import CircularGaussianPRF, ImagePSF  # noqa: E402
from photutils.segmentation import SegmentationImage  # noqa: E402


def mutated(obj, fn):
    before = R.snap(obj)
    fn(obj)
    return R.changed(before, R.snap(obj))


a = np.arange(12.0).reshape(3, 4)
check(mutated(a.copy(), lambda x: x.__setitem__((1, 1), 99.0)), 'ndarray value change not seen')
check(mutated(a.copy(), lambda x: x.__setitem__((1, 1), np.nan)), 'ndarray NaN write not seen')
check(not mutated(a.copy(), lambda x: x.sum()), 'ndarray read flagged')
nanarr = a.copy()
nanarr[0, 0] = np.nan
check(not mutated(nanarr, lambda x: None), 'NaN content flagged without change')
m = np.ma.MaskedArray(a.copy(), mask=np.zeros(a.shape, bool))
check(mutated(m, lambda x: x.mask.__setitem__((0, 0), True)), 'MaskedArray mask change not seen')
m = np.ma.MaskedArray(a.copy())
check(mutated(m, lambda x: setattr(x, 'fill_value', 0.0)), 'MaskedArray fill_value change not seen')
m = np.ma.MaskedArray(a.copy())
check(not mutated(m, lambda x: setattr(x, 'mask', np.zeros(a.shape, bool))), 'nomask -> all-False mask flagged (same mask)')
q = a.copy() * u.Jy
check(mutated(q, lambda x: x.value.__setitem__((0, 0), 5.0)), 'Quantity value change not seen')
nd = NDData(a.copy(), uncertainty=StdDevUncertainty(a.copy()), mask=np.zeros(a.shape, bool))
check(mutated(nd, lambda x: x.mask.__setitem__((0, 0), True)), 'NDData mask change not seen')
check(mutated(nd, lambda x: x.uncertainty.array.__setitem__((0, 0), 7.0)), 'NDData uncertainty change not seen')
t = QTable({'x': [1.0, 2.0], 'flux': [3.0, 4.0] * u.Jy})
check(mutated(t, lambda x: x.rename_column('x', 'x_init')), 'Table column rename not seen')
check(mutated(t, lambda x: x['flux'].__setitem__(0, 9.0 * u.Jy)), 'Table value change not seen')
check(mutated(t, lambda x: x.meta.__setitem__('k', 1)), 'Table meta change not seen')
mdl = CircularGaussianPRF(fwhm=3.0)
check(mutated(mdl, lambda x: setattr(x, 'x_0', 4.0)), 'model parameter change not seen')
check(mutated(mdl, lambda x: setattr(x.fwhm, 'fixed', False)), 'model fixed flag change not seen')
ip = ImagePSF(np.ones((5, 5)))
check(mutated(ip, lambda x: x.data.__setitem__((0, 0), 3.0)), 'ImagePSF data change not seen')
ap = CircularAperture(np.array([[1.0, 2.0], [3.0, 4.0]]), 2.0)
check(mutated(ap, lambda x: setattr(x, 'r', 3.0)), 'aperture parameter change not seen')
seg = SegmentationImage(np.array([[0, 1, 1], [0, 0, 2], [3, 0, 2]]))
check(not mutated(seg, lambda x: (x.slices, x.labels, x.areas, x.bbox)), 'lazy cache filling of a SegmentationImage flagged')
check(mutated(seg, lambda x: x.data.__setitem__((0, 0), 5)), 'SegmentationImage data change not seen')
d = {'a': 1}
check(mutated(d, lambda x: x.__setitem__('b', 2)), 'dict key addition not seen')

# views: a write outside the view is attributed to the parent only
c = R.Ctx('view', 'clean', 0)
v = c.data()
c.arm()
c.step('write outside', lambda: c.held['data.base'].__setitem__((0, 0), -1.0))
check([x[1] for x in c.changes] == ['data.base'], f'write outside the view: {c.changes}')
c.step('write inside', lambda: v.__setitem__((0, 0), -1.0))
check([x[1] for x in c.changes] == ['data.base', 'data'], f'write inside the view: {c.changes}')

# -- C15 helpers --------------------------------------------------------------------
x = ('num', np.array([1.0, 2.0, 0.0, np.nan]), None)
check(c15.degree(x, ('num', x[1] * 2, None)) == 1, 'degree 1')
check(c15.degree(x, ('num', x[1] * 4, None)) == 2, 'degree 2')
check(c15.degree(x, ('num', x[1] * 1, None)) == 0, 'degree 0')
check(c15.degree(x, ('num', x[1] + 1, None)) is None, 'no degree')
check(c15.cmp_leaf(x, ('num', x[1] * (1 + 1e-14), None), 1e-12) is None, 'cmp within tolerance')
check(c15.cmp_leaf(x, ('num', x[1] * (1 + 1e-9), None), 1e-12) is not None, 'cmp outside tolerance')
check(c15.cmp_leaf(x, ('num', x[1][:3], None), 1e-12) is not None, 'cmp shape')
check(c15.same_unit('Jy2 pix2', c15.expected_unit('pix2', 2)), 'unit expectation')
check(not c15.same_unit('Jy', c15.expected_unit(None, 0)), 'unit expectation (dimensionless)')
check(c15.DOCUMENTED_UNIT.search('ApertureStats.sum|<value>') is not None, 'documented-unit pattern')
check(c15.DOCUMENTED_UNIT.search('ApertureStats.xcentroid|<value>') is None, 'documented-unit pattern (negative)')
n = R.norm(QTable({'a': [1, 2], 'f': [1.0, 2.0] * u.Jy}))
check(n['f'][2] == 'Jy' and n['a'][2] is None, 'norm(QTable)')

# -- C15: dtype x byte-order axis, value domains -----------------------------------------
for rep in R.C15_DTYPE_REPS:
    dom = R.DOMAIN_OF_REP.get(rep, 'full')
    for cond in ('clean', 'masked'):
        cr = R.Ctx(rep, cond, 0, integer_scene=True, domain=dom)
        c0 = R.Ctx('f8', cond, 0, integer_scene=True, domain=dom)
        d, d0 = cr.data(offset=-20.0), c0.data(offset=-20.0)
        check(d.dtype.str == R.DTYPE_OF_REP[rep], f'rep {rep}: data dtype {d.dtype.str}')
        check(d0.dtype.str == '<f8' and np.array_equal(d.astype(float), d0), f'rep {rep}: does not hold the numbers of its baseline')
        e, e0 = cr.error(), c0.error()
        check(e.dtype.str == R.DTYPE_OF_REP[rep] and np.array_equal(e.astype(float), e0), f'rep {rep}: error array')
        check(not cr.uncast, f'rep {rep}: image-like argument left float64: {cr.uncast}')
check(set(np.dtype(v).kind + str(np.dtype(v).itemsize) for v in R.DTYPE_OF_REP.values())
      == {'f8', 'f4', 'i1', 'i2', 'i4', 'i8', 'u1', 'u2', 'u4', 'u8'}, 'dtype alphabet')
check(R.Ctx('f8', 'clean', 0, integer_scene=True).data(offset=-20.0).min() < 0, 'full domain has no negative pixel')
check(R.Ctx('f8', 'clean', 0, integer_scene=True, domain='nonneg').data(offset=-20.0).min() == 0, 'nonneg domain')
cb = R.Ctx('f8', 'clean', 0, integer_scene=True, domain='byte')
db = cb.data(offset=-20.0)
check(db.min() == 0 and 100 < db.max() <= 127 and np.array_equal(db, np.round(db)), f'byte domain: data range {db.min()}..{db.max()}')
check((db == db.max()).sum() == 1, 'byte domain: the brightest pixel is not unique (saturated plateau: ties)')
check(cb.error().max() ** 2 > 255, 'byte domain: squared errors fit into 8 bits (overflow not reachable)')
check(abs(cb.q(50.0) - 50.0 * R.BYTE_SCALE) < 1e-12, 'byte domain: thresholds not scaled with the data')
# an integer type that cannot hold a kernel leaves it float64 (and says so)
ck = R.Ctx('u1', 'clean', 0, integer_scene=True, domain='byte')
k = ck.array('kernel', np.array([[300.0, 1.0]]), kind='plain')
check(k.dtype.kind == 'f' and ck.uncast == ['kernel'], 'kernel that does not fit was cast')
# dtype@layout (thorough)
cf = R.Ctx('be_u2@F', 'clean', 0, integer_scene=True, domain='nonneg').data()
check(cf.dtype.str == '>u2' and cf.flags.f_contiguous and not cf.flags.c_contiguous, 'dtype@layout: Fortran')
cs = R.Ctx('i2@strided', 'clean', 0, integer_scene=True).data()
check(cs.dtype.str == '<i2' and not cs.flags.c_contiguous and cs.base is not None, 'dtype@layout: strided')
check(c15.site_of('StarFinder[x]()', 'be_u2@F') == 'StarFinder():be_uint@F' and c15.site_of('a', 'i8') == 'a:int'
      and c15.site_of('a', 'be') == 'a:be' and c15.site_of('a', 'u1') == 'a:uint', 'site classes')
nq = R.Ctx('nddata_q', 'clean', 0).data(nddata_ok=True)
check(isinstance(nq, NDData) and nq.unit == u.Jy and nq.uncertainty.unit == u.Jy, 'nddata_q: NDData with unit')

# -- C15: one companion at a time ---------------------------------------------------------
cq = R.run_recipe('ApertureStats', 'quantity', 'clean', 0, integer_scene=True)
check(list(cq.slots) == ['error', 'local_bkg'], f'ApertureStats companions: {list(cq.slots)}')
check(cq.step_slots['ApertureStats'] == {'error', 'local_bkg'}, 'constructor receives both companions')
check(cq.step_slots['ApertureStats.sum'] == {'error', 'local_bkg'}, 'a member read carries the companions of the object')
check(cq.step_slots['ApertureStats[no sigma_clip, center]'] == {'error'}, 'second constructor receives the error only')
check(c15.solo_reps(cq) == [f'{m}:{s}' for s in ('error', 'local_bkg') for m in R.C15_SOLO], 'solo representations')
for rep, want in (('solo_plain:local_bkg', (True, True, False)), ('solo_unit:local_bkg', (False, False, True)),
                  ('other_unit:local_bkg', (True, True, True)), ('quantity', (True, True, True)), ('f8', (False, False, False))):
    cc = R.run_recipe('ApertureStats', rep, 'clean', 0, integer_scene=True)
    got = tuple(isinstance(cc.held[k], u.Quantity) for k in ('data', 'error', 'local_bkg'))
    check(got == want, f'{rep}: unit-ful (data, error, local_bkg) = {got}')
    if rep == 'other_unit:local_bkg':
        lb = cc.held['local_bkg']
        check(lb.unit == u.mJy and np.allclose(lb.value, [1000.0, 2000.0, 500.0]) and cc.held['error'].unit == u.Jy, 'other unit: mJy x 1000')
cd = R.run_recipe('DAOStarFinder', 'quantity', 'clean', 0, integer_scene=True)
check(cd.step_slots['DAOStarFinder()'] == {'threshold', 'peakmax'} and cd.step_slots['DAOStarFinder[xycoords]()'] == {'threshold'},
      'a finder carries its threshold / peakmax into the call')
cg = R.run_recipe('calc_total_error', 'other_unit:effective_gain', 'clean', 0, integer_scene=True)
check(cg.held['effective_gain'].unit == u.electron / u.mJy and cg.held['bkg_error'].unit == u.Jy
      and np.allclose(cg.held['effective_gain'].value[1], 2.0e-3), 'effective_gain in electron / mJy')
cp = R.run_recipe('PSFPhotometry[finder, group_id, fixed fwhm free]', 'quantity', 'clean', 0, integer_scene=True)
check(cp.step_slots['PSFPhotometry[finder]()'] == {'threshold', 'error'}
      and cp.step_slots['PSFPhotometry[group_id]()'] == {'error', 'flux'}, f'PSFPhotometry companions: {cp.step_slots}')
try:
    cl = R.Ctx('quantity', 'clean', 0)
    cl.q(5.0, 'threshold')
    cl.step('x', lambda: None)
    check(False, 'a scalar companion made outside a step and not attached went unnoticed')
except AssertionError:
    pass
check(R.Raised(u.UnitsError('x')).is_rejection and R.Raised(u.UnitConversionError('x')).is_rejection
      and R.Raised(ValueError('x')).is_rejection and not R.Raised(AttributeError('x')).is_rejection, 'rejection classes')
a1 = ('num', np.array([1.0, 2.0]), 'Jy')
check(c15.cmp_leaf(a1, c15.to_unit_of(a1, ('num', np.array([1000.0, 2000.0]), 'mJy')), 1e-12) is None, 'to_unit_of converts')
check(c15.to_unit_of(a1, ('num', np.array([1.0, 2.0]), 'pix')) is None, 'to_unit_of: not convertible')

print(f'registry self-test: {len(R.RECIPES)} recipes, {nsteps} steps, {len(fails)} failures')
sys.exit(1 if fails else 0)
