"""Self-test of the C06 machinery (no photutils needed):
the permutation-driven executor, its API guard, the FIFO feasibility predicate
and the set-partition oracle on hand-made good / bad outputs."""
import itertools
import os
import sys
import types

import numpy as np

sys.path.insert(0, os.path.dirname(os.path.dirname(os.path.abspath(__file__))))

from mcphot import schedules as sch  # noqa: E402
from mcphot.ref import deblend_scenes as S  # noqa: E402

fails = []


def check(cond, what):
    if not cond:
        fails.append(what)


# ---- a toy module that uses the pool exactly like deblend_sources ---------
toy = types.ModuleType('toy')
toy.ProcessPoolExecutor = None
toy.as_completed = None


def _sq(x, box):
    box.append('worker-side mutation must not reach the parent')
    return [x * x]


def toy_run(n, merge_in_loop=False, foreign=None):
    order = []
    results = [None] * n
    box = []
    with toy.ProcessPoolExecutor(max_workers=2, mp_context=None) as ex:
        futs = {}
        for i in range(n):
            futs[ex.submit(_sq, i, box)] = i
        if foreign == 'map':
            ex.map(_sq, range(n))
        for f in toy.as_completed(futs):
            if foreign == 'done':
                f.done()
            i = futs[f]
            r = f.result()
            r.append('parent-side mutation')          # must not leak into another result() call
            results[i] = r[0]
            order.append(i)
    return (order if merge_in_loop else results), box


_sq.__module__ = __name__
for perm in itertools.permutations(range(4)):
    with sch.controlled(toy, perm) as s:
        res, box = toy_run(4)
    check(res == [0, 1, 4, 9], f'order-independent merge changed under {perm}')
    check(tuple(s.completion) == perm, f'stub did not honour {perm}')
    check(box == [], 'arguments were not pickled on the way in')
    check(len(s.states) == 5 and s.states[-1] == frozenset(range(4)), 'merge states not recorded')
    with sch.controlled(toy, perm) as s:
        res, _ = toy_run(4, merge_in_loop=True)
    check(tuple(res) == perm, 'an order-dependent merge must see the prescribed order')
check(toy.ProcessPoolExecutor is None and toy.as_completed is None, 'names not restored')

for foreign in ('map', 'done'):  # done() polls are schedule-dependent and not modelled
    try:
        with sch.controlled(toy, (0, 1)) as s:
            toy_run(2, foreign=foreign)
        check(False, f'foreign API use {foreign} not flagged')
    except sch.ModelMismatch:
        pass

shapes = set()
for perm in itertools.permutations(range(3)):
    with sch.controlled(toy, perm) as s:
        toy_run(3)
    shapes.add(repr(s.shape()))
check(len(shapes) == 1, 'trace shape depends on the completion order')

# ---- FIFO feasibility: w^(N-w) * w! orders are possible with w workers ------
for n, w, want in ((5, 2, 16), (5, 3, 54), (4, 2, 8), (4, 4, 24), (3, 5, 6)):
    got = sum(sch.fifo_feasible(p, w) for p in itertools.permutations(range(n)))
    check(got == want, f'fifo_feasible({n},{w}) = {got}, expected {want}')

# ---- connectivity ------------------------------------------------------------
m = np.array([[1, 0], [0, 1]], bool)
check(S.connected(m, 8) and not S.connected(m, 4), 'connected() wrong on a diagonal pair')

# ---- the set-partition oracle -------------------------------------------------
seg0 = np.array([[2, 2, 2, 2, 0, 5, 5],
                 [2, 2, 2, 2, 0, 5, 5]])
good = np.array([[6, 6, 7, 7, 0, 5, 5],
                 [6, 6, 7, 7, 0, 5, 5]])


def run(out, inv, rel=False, req=(2, 5), npix=2, contrast=0.001):
    fwd = {c: p for p, cs in inv.items() for c in cs}
    deb = sorted(fwd)
    labs = np.unique(out[out != 0])
    bad, info = S.refinement(seg0, out, inv, fwd, deb, labs, requested=set(req), npixels=npix, contrast=contrast, relabel=rel)
    return {b[0] for b in bad}


check(run(good, {2: [6, 7]}) == set(), 'good output flagged')
check(run(np.where(good == 5, 3, good) - np.where(good > 5, 5, 0), {2: [1, 2]}, rel=True) == set(), 'good relabelled output flagged')
check('labels-1..N' in run(good, {2: [6, 7]}, rel=True), 'gap not seen with relabel=True')
check('untouched-label' in run(np.where(good == 5, 8, good), {2: [6, 7]}), 'renamed untouched label not seen')
check('child-leaks' in run(np.where(good == 5, 7, good), {2: [6, 7]}), 'label collision not seen')
check('untouched-pixels' in run(np.where(good == 5, 7, good), {2: [6, 7]}), 'label collision not seen (other side)')
check('nonzero-set' in run(np.where(good == 7, 0, good), {2: [6]}), 'lost pixels not seen')
check('child-too-small' in run(good, {2: [6, 7]}, npix=5), 'small child not seen')
check('split-unrequested' in run(good, {2: [6, 7]}, req=(5,)), 'split of an unrequested label not seen')
check('map-vs-pixels' in run(good, {2: [6, 8]}), 'wrong map not seen')
check('map-vs-pixels' in run(good, {}), 'missing map entry not seen')
check('map-vs-pixels' in run(good, {2: [6, 7], 5: [5]}), 'map lists an undeblended parent')
check('contrast1-unchanged' in run(good, {2: [6, 7]}, contrast=1), 'contrast=1 change not seen')
check(run(seg0.copy(), {}, contrast=1, rel=True) == set(), 'contrast=1 with gapped labels must be accepted')

# ---- scenes: every parent type fits its tile for many seeds, parents never touch --
for seed in range(6):
    for tp in S.TYPES:
        data, seg, labs = S.build((tp, 'S', tp), 'gaps', 'mixed', seed)
        check(sorted(np.unique(seg[seg > 0]).tolist()) == sorted(labs), 'labels')
        for l in labs:
            check(S.connected(seg == l, 8), f'{tp} parent not 8-connected')

# ---- group tiles: the stated geometric relation holds on the pixels (several seeds, every numbering / variant keeps the
# label array), each parent is 4-connected, has two well separated peaks, parents of different tiles stay disjoint boxes
def _rel_of(tp, seg, labs, k0):
    a, b = labs[k0], labs[k0 + 1]
    rel = S.bbox_relations(seg)
    box = {x for x in rel['box_contains'] if set(x) == {a, b}}
    adj = {x for x in rel['adjacent'] if set(x) == {a, b}}
    other = {x for x in rel['box_contains'] | rel['adjacent'] if set(x) != {a, b}}
    return a, b, box, adj, other


def _same_tile_pairs(frame, labs):
    out, k = [], 0
    for t in frame:
        if t in S.GROUP:
            out.append({labs[k], labs[k + 1]})
            k += 2
        else:
            k += 1
    return out


def _check_group(tp, seg, labs, k0, what, frame=None):
    a, b, box, adj, other = _rel_of(tp, seg, labs, k0)
    want = S.GROUP[tp]['relation']
    if frame is not None:
        other = {x for x in other if set(x) not in _same_tile_pairs(frame, labs)}
    check(not other, f'{what}: parents of different tiles are related: {other}')
    if want == 'interlock':
        check(box == {(a, b), (b, a)} and not adj, f'{what}: not a contact-free mutual interlock: {box} {adj}')
    elif want == 'nested':
        check(box == {(a, b)} and not adj, f'{what}: box of the first parent must contain the second only: {box} {adj}')
        ys, xs = np.nonzero(seg == a)
        inner = seg[ys.min():ys.max() + 1, xs.min():xs.max() + 1]
        check(np.count_nonzero(inner == b) == np.count_nonzero(seg == b), f'{what}: second parent not completely inside')
    else:
        check(box == {(a, b), (b, a)} and len(adj) == 1, f'{what}: not abutting + interlocking: {box} {adj}')
        pa, pb = seg == a, seg == b
        check((pa[:, :-1] & pb[:, 1:]).any() or (pa[:-1] & pb[1:]).any() or (pb[:-1] & pa[1:]).any(),
              f'{what}: no 4-adjacent pixel pair')
    for l in (a, b):
        check(S.connected(seg == l, 4), f'{what}: parent {l} not 4-connected')
        check(np.count_nonzero(seg == l) >= 20, f'{what}: parent {l} smaller than 20 pixels')


check(S.parent_types(('B2', 'X2', 'S')) == ['B2', 'X2/0', 'X2/1', 'S'] and S.nparents(('L2', 'A2')) == 4, 'parent_types')
toy_seg = np.array([[1, 1, 1, 1, 1, 0, 0],
                    [1, 0, 0, 0, 0, 0, 0],
                    [1, 0, 2, 0, 0, 3, 0],
                    [1, 0, 0, 0, 0, 4, 3]])
check(S.bbox_relations(toy_seg) == {'box_contains': {(1, 2), (3, 4)}, 'adjacent': {(3, 4)}}, 'bbox_relations on a toy array')
for seed in range(8):
    for tp in S.GROUP_TYPES:
        for frame, k0 in (((tp,), 0), (('B2', tp), 1), ((tp, 'S', tp), 0), ((tp, 'S', tp), 3)):
            for numb, variant in (('consec', 'pos'), ('gaprev', 'nonpos'), ('reversed', 'mixed')):
                data, seg, labs = S.build(frame, numb, variant, seed)
                check(sorted(np.unique(seg[seg > 0]).tolist()) == sorted(labs) and len(labs) == S.nparents(frame), 'group labels')
                _check_group(tp, seg, labs, k0, f'{tp} seed {seed} frame {frame} {numb}', frame)
                if variant == 'pos':
                    for l in labs[k0:k0 + 2]:   # two peaks per parent at some level (plain flood fill), both >= npixels = 5
                        pm = seg == l
                        pats = {S.marker_pattern(data, pm, lev, 5, 4) for lev in np.linspace(data[pm].min(), data[pm].max(), 60)[1:-1]}
                        check('MM' in pats, f'{tp} seed {seed}: parent {l} never shows two >= 5-pixel components: {sorted(pats)}')
                if variant in ('nonpos', 'mixed'):
                    mins = [data[seg == l].min() for l in labs]
                    neg = [m <= 0 for m in mins]
                    check(all(neg) if variant == 'nonpos' else neg == [k % 2 == 1 for k in range(len(labs))],
                          f'{tp} {variant} seed {seed}: sign pattern of the segment minima is {neg}')
# the same at the corners of the generic ranges (offset +-0.3, amplitudes x0.97 / x1.03)
for tp in S.GROUP_TYPES:
    for sx, sy, s0, s1 in itertools.product((-1, 1), repeat=4):
        class _R:
            q = [s0, s0, s1, s1]

            def uniform(self, lo, hi, size=None):
                if size == 2:
                    return np.array([lo if sx < 0 else hi, lo if sy < 0 else hi])
                return lo if self.q.pop(0) < 0 else hi
        _R.q = [s0, s0, s1, s1]
        img, masks = S.group_tile(tp, _R())
        seg = np.where(masks[0], 1, 0) + np.where(masks[1], 2, 0)
        _check_group(tp, seg, [1, 2], 0, f'{tp} corner {sx, sy, s0, s1}')

# ---- raster-ordered components -------------------------------------------------
m = np.array([[0, 0, 1, 0, 0],
              [1, 0, 0, 0, 1],
              [1, 1, 0, 1, 1]], bool)
check([len(c) for c in S.components(m, 4)] == [1, 3, 3], 'components(): raster order / sizes (4)')
check([c[0] for c in S.components(m, 4)] == [(0, 2), (1, 0), (1, 4)], 'components(): first pixels')
m2 = m.copy()
m2[1, 1] = m2[2, 0] = False
m2[2, 1] = True
check([len(c) for c in S.components(m2, 8)] == [1, 2, 3] and [len(c) for c in S.components(m2, 4)] == [1, 1, 3, 1],
      'components(): diagonal neighbours')

# ---- spike parents: at EVERY level where >= 2 components survive the npixels = 5 filter the spike (if the level is
# below its height) is a separate sub-npixels component at the stated place in raster order; at the lowest such level
# it is present (so the marker numbers taken from that level have the hole).  Smooth parents never show such a pattern.
want = {'first': ('sMM', 'sMMM'), 'last': ('MMs',), 'middle': ('MsM',)}
for seed in range(8):
    for tp in S.TYPES:
        for frame, k in (((tp,), 0), (('B2', tp), 1), ((tp, 'S', 'B3t'), 0)):
            data, seg, labs = S.build(frame, 'consec', 'pos', seed)
            pm = seg == labs[k]
            if tp in S.SPIKE_TYPES:
                check(S.connected(pm, 4), f'{tp} parent not 4-connected')
            vals = data[pm]
            for conn in (8, 4):
                pats = []
                for lev in np.linspace(vals.min(), vals.max(), 160)[1:-1]:
                    pat = S.marker_pattern(data, pm, lev, 5, conn)
                    if pat.count('M') >= 2:
                        pats.append(pat)
                if tp in S.SPIKE:
                    ok = want[S.SPIKE[tp][3]]
                    check(bool(pats) and pats[0] in ok, f'{tp} seed {seed} frame {frame}: first separating level shows {pats[:1]}')
                    if tp != 'H3a':     # (H3a: the third peak's tip is a legitimate small component at some levels)
                        check(all(q in ok or 's' not in q for q in pats), f'{tp} seed {seed}: unexpected pattern {sorted(set(pats))}')
                elif tp in S.NOISE_TYPES:
                    check(any('s' in q for q in pats), f'{tp} seed {seed}: no sub-npixels component at any separating level')
                elif tp in S.GAUSS and tp not in ('B3t', 'B3r', 'B3f'):
                    check(all('s' not in q for q in pats), f'smooth parent {tp} has a sub-npixels component: {sorted(set(pats))}')



# the same at the corners of the generic ranges (sub-pixel offset +-0.3, amplitudes / spike height x0.97 / x1.03)
class CornerRng:
    def __init__(self, sx, sy, signs):
        self.q = [None] + list(signs)          # one sign per scalar draw, in call order
        self.sx, self.sy = sx, sy

    def uniform(self, lo, hi, size=None):
        if size == 2:
            return np.array([lo if self.sx < 0 else hi, lo if self.sy < 0 else hi])
        self.q.pop(0)
        return lo if self.q[0] < 0 else hi


for tp in S.SPIKE:
    nb = len(S.GAUSS[S.SPIKE[tp][0]] if S.SPIKE[tp][0] in S.GAUSS else S.GAUSS_EXTRA[S.SPIKE[tp][0]])
    for sx, sy, sa, ss in itertools.product((-1, 1), repeat=4):
        rng = CornerRng(sx, sy, [sa] * nb + [ss])
        img, pm = S.tile(tp, rng)
        check(S.connected(pm, 4), f'{tp} corner {sx, sy, sa, ss}: parent not 4-connected')
        for conn in (8, 4):
            pats = [q for q in (S.marker_pattern(img, pm, lev, 5, conn) for lev in np.linspace(img[pm].min(), img[pm].max(), 50)[1:-1])
                    if q.count('M') >= 2]
            check(bool(pats) and pats[0] in want[S.SPIKE[tp][3]], f'{tp} corner {sx, sy, sa, ss} conn {conn}: first separating level shows {pats[:1]}')

# ---- the labels= alphabets: ordered lists; every numbering gets a non-ascending list whose order is neither the
# ascending nor (for >= 3 labels) only the descending one; no repeated label; representations build what they say
from mcphot.props import c06  # noqa: E402

for tier in ('quick', 'thorough'):
    for numb in ('consec', 'gaps', 'reversed', 'gaprev'):
        for n in (1, 2, 3, 4, 5):
            labs = S.numbering(numb, n)
            for name, alpha in (('sched', c06.sched_subsets(labs, tier, degenerate=False)), ('refine', c06.subsets(labs, tier)),
                                ('repr', c06.repr_subsets(labs))):
                lists = [x for x, _ in alpha if isinstance(x, list)]
                check(all(len(set(x)) == len(x) and set(x) <= set(labs) for x in lists), f'{name} {numb} {n}: bad list')
                # the EMPTY list: thorough refinement product only (quick has it in the degenerate sub-product)
                check(([] in lists) == (name == 'refine' and tier == 'thorough'), f'{name} {numb} {n} {tier}: empty list placement')
                lists = [x for x in lists if x]
                if n >= 2:
                    check(any(x == sorted(x, reverse=True) for x in lists), f'{name} {numb} {n}: no descending list')
                if n >= 3 and name != 'repr':
                    check(any(x != sorted(x) and x != sorted(x, reverse=True) for x in lists),
                          f'{name} {numb} {n}: no non-monotone list')
            check(len(c06.sched_subsets(labs, tier)) == len(c06.sched_subsets(S.numbering('consec', n), tier)),
                  'schedule alphabet size depends on the numbering')
            if n == 3:
                full = [tuple(x) for x, _ in c06.subsets(labs, tier) if isinstance(x, list) and len(x) == 3]
                check(sorted(full) == sorted(itertools.permutations(sorted(labs))), f'refine {numb}: not all 3! orders')
# ---- degenerate elements of the labels= alphabet: empty in every container form, all labels as computed forms, repeated
for numb in ('consec', 'gaps', 'reversed', 'gaprev'):
    for n in (1, 2, 3, 4, 5):
        labs = S.numbering(numb, n)
        d = c06.degenerate_subsets(labs)
        check([k for x, k in d['empty']] == [None, 'tuple', 'array', 'array32', 'selection'] and all(x == [] for x, _ in d['empty']),
              f'degenerate {numb} {n}: empty forms')
        check(all(x == sorted(labs) for x, _ in d['all']) and [k for _, k in d['all']] == ['selection', 'cached'],
              f'degenerate {numb} {n}: all-labels forms')
        check(all(c06._repeated(x) and set(x) <= set(labs) for x, _ in d['repeated'])
              and sorted(x[0] for x, _ in d['repeated'] if len(x) == 2) == sorted(labs)
              and (n < 2 or sum(1 for x, _ in d['repeated'] if len(x) == 3) == 2), f'degenerate {numb} {n}: repeated lists')
        for tier in ('quick', 'thorough'):
            sd = c06.sched_degenerate(labs, tier)
            check(c06.sched_subsets(labs, tier)[-len(sd):] == sd, 'degenerate schedule elements are appended last')
            check(sum(1 for x, _ in sd if x == []) == (2 if tier == 'quick' else 5), f'sched degenerate {numb} {n} {tier}: empty forms')
            check(any(c06._repeated(x) and x == [labs[0], labs[0]] for x, _ in sd), f'sched degenerate {numb} {n} {tier}: [first, first]')
            check(all(set(np.atleast_1d(x).tolist()) <= set(labs) for x, _ in sd), f'sched degenerate {numb} {n} {tier}: foreign label')
        for frame, variant in ((('B2',) * n, 'pos'), (('B2',) * n, 'nonpos')):
            cases = c06.degenerate_cases(frame, variant, labs)
            check(len({(repr(a), b) for a, b in cases}) == len(cases), 'degenerate cases are distinct')
            ne = sum(1 for (x, k), q in cases if x == [])
            check(ne == 4 * 4 + 4 * 4, f'degenerate {numb} {n}: {ne} empty cases, expected [] x 4 contrasts x 4 + 4 forms x 4')
            check(any(k == 'cached' for (x, k), q in cases) == (variant == 'pos'), 'all-labels forms are variant pos only')
check(c06._empty([]) and not c06._empty(None) and not c06._empty([1]) and not c06._empty(0), '_empty')
check(c06._repeated([2, 1, 2]) and not c06._repeated([1, 2]) and not c06._repeated(2) and not c06._repeated(None)
      and not c06._repeated([]), '_repeated')
seg_like = types.SimpleNamespace(labels=np.array([2, 5, 8]))
for kind, want in (('tuple', ()), (None, [])):
    check(c06.labels_arg([], kind) == want and type(c06.labels_arg([], kind)) is type(want), f'labels_arg empty {kind}')
for kind, dt in (('array', np.int64), ('array32', np.int32), ('selection', np.int64)):
    a = c06.labels_arg([], kind, seg_like)
    check(isinstance(a, np.ndarray) and a.shape == (0,) and a.dtype == dt, f'labels_arg empty {kind}: {a!r}')
a = c06.labels_arg([2, 8], 'selection', seg_like)
check(a.tolist() == [2, 8] and not np.shares_memory(a, seg_like.labels), 'labels_arg selection')
check(c06.labels_arg([2, 5, 8], 'cached', seg_like) is seg_like.labels, 'labels_arg cached')
for bad, kind in (([8, 2], 'selection'), ([2, 5], 'cached'), ([2, 2], 'selection'), ([3], 'selection')):
    try:
        c06.labels_arg(bad, kind, seg_like)
        check(False, f'labels_arg {kind} accepted {bad}')
    except sch.ModelMismatch:
        pass

a = c06.labels_arg([3, 1, 2], 'array32')
check(isinstance(a, np.ndarray) and a.dtype == np.int32 and a.tolist() == [3, 1, 2], 'labels_arg array32')
check(c06.labels_arg([3, 1], 'tuple') == (3, 1) and c06.labels_arg([3, 1], None) == [3, 1], 'labels_arg tuple/list')
check(isinstance(c06.labels_arg(4, 'npint'), np.integer) and c06.labels_arg(4, 'list1') == [4] and c06.labels_arg(4, None) == 4
      and c06.labels_arg(None, 'array') is None, 'labels_arg scalar')
check(c06._unsorted([2, 1]) and not c06._unsorted([1, 2]) and not c06._unsorted(3) and not c06._unsorted(None), '_unsorted')

if fails:
    print('FAILED:', *fails, sep='\n  ')
    sys.exit(1)
print('test_c06_schedules ok')
