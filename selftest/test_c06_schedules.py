"""Self-test of the C06 machinery (no photutils needed):
the permutation-driven executor, its API guard, the FIFO feasibility predicate
and the set-partition oracle on hand-made good / bad outputs."""
import itertools
import os
import sys
import types

import numpy as np

sys.path.insert(0, os.path.dirname(os.path.dirname(os.path.abspath(__file__))))

from mcphot import schedules as sch  # noqa: E402
from mcphot.ref import deblend_scenes as S  # noqa: E402

fails = []


def check(cond, what):
    if not cond:
        fails.append(what)


# ---- a toy module that uses the pool exactly like deblend_sources ---------
toy = types.ModuleType('toy')
toy.ProcessPoolExecutor = None
toy.as_completed = None


def _sq(x, box):
    box.append('worker-side mutation must not reach the parent')
    return [x * x]


def toy_run(n, merge_in_loop=False, foreign=None):
    order = []
    results = [None] * n
    box = []
    with toy.ProcessPoolExecutor(max_workers=2, mp_context=None) as ex:
        futs = {}
        for i in range(n):
            futs[ex.submit(_sq, i, box)] = i
        if foreign == 'map':
            ex.map(_sq, range(n))
        for f in toy.as_completed(futs):
            if foreign == 'done':
                f.done()
            i = futs[f]
            r = f.result()
            r.append('parent-side mutation')          # must not leak into another result() call
            results[i] = r[0]
            order.append(i)
    return (order if merge_in_loop else results), box


_sq.__module__ = __name__
for perm in itertools.permutations(range(4)):
    with sch.controlled(toy, perm) as s:
        res, box = toy_run(4)
    check(res == [0, 1, 4, 9], f'order-independent merge changed under {perm}')
    check(tuple(s.completion) == perm, f'stub did not honour {perm}')
    check(box == [], 'arguments were not pickled on the way in')
    check(len(s.states) == 5 and s.states[-1] == frozenset(range(4)), 'merge states not recorded')
    with sch.controlled(toy, perm) as s:
        res, _ = toy_run(4, merge_in_loop=True)
    check(tuple(res) == perm, 'an order-dependent merge must see the prescribed order')
check(toy.ProcessPoolExecutor is None and toy.as_completed is None, 'names not restored')

for foreign in ('map', 'done'):  # done() polls are schedule-dependent and not modelled
    try:
        with sch.controlled(toy, (0, 1)) as s:
            toy_run(2, foreign=foreign)
        check(False, f'foreign API use {foreign} not flagged')
    except sch.ModelMismatch:
        pass

shapes = set()
for perm in itertools.permutations(range(3)):
    with sch.controlled(toy, perm) as s:
        toy_run(3)
    shapes.add(repr(s.shape()))
check(len(shapes) == 1, 'trace shape depends on the completion order')

# ---- FIFO feasibility: w^(N-w) * w! orders are possible with w workers ------
for n, w, want in ((5, 2, 16), (5, 3, 54), (4, 2, 8), (4, 4, 24), (3, 5, 6)):
    got = sum(sch.fifo_feasible(p, w) for p in itertools.permutations(range(n)))
    check(got == want, f'fifo_feasible({n},{w}) = {got}, expected {want}')

# ---- connectivity ------------------------------------------------------------
m = np.array([[1, 0], [0, 1]], bool)
check(S.connected(m, 8) and not S.connected(m, 4), 'connected() wrong on a diagonal pair')

# ---- the set-partition oracle -------------------------------------------------
seg0 = np.array([[2, 2, 2, 2, 0, 5, 5],
                 [2, 2, 2, 2, 0, 5, 5]])
good = np.array([[6, 6, 7, 7, 0, 5, 5],
                 [6, 6, 7, 7, 0, 5, 5]])


def run(out, inv, rel=False, req=(2, 5), npix=2, contrast=0.001):
    fwd = {c: p for p, cs in inv.items() for c in cs}
    deb = sorted(fwd)
    labs = np.unique(out[out != 0])
    bad, info = S.refinement(seg0, out, inv, fwd, deb, labs, requested=set(req), npixels=npix, contrast=contrast, relabel=rel)
    return {b[0] for b in bad}


check(run(good, {2: [6, 7]}) == set(), 'good output flagged')
check(run(np.where(good == 5, 3, good) - np.where(good > 5, 5, 0), {2: [1, 2]}, rel=True) == set(), 'good relabelled output flagged')
check('labels-1..N' in run(good, {2: [6, 7]}, rel=True), 'gap not seen with relabel=True')
check('untouched-label' in run(np.where(good == 5, 8, good), {2: [6, 7]}), 'renamed untouched label not seen')
check('child-leaks' in run(np.where(good == 5, 7, good), {2: [6, 7]}), 'label collision not seen')
check('untouched-pixels' in run(np.where(good == 5, 7, good), {2: [6, 7]}), 'label collision not seen (other side)')
check('nonzero-set' in run(np.where(good == 7, 0, good), {2: [6]}), 'lost pixels not seen')
check('child-too-small' in run(good, {2: [6, 7]}, npix=5), 'small child not seen')
check('split-unrequested' in run(good, {2: [6, 7]}, req=(5,)), 'split of an unrequested label not seen')
check('map-vs-pixels' in run(good, {2: [6, 8]}), 'wrong map not seen')
check('map-vs-pixels' in run(good, {}), 'missing map entry not seen')
check('map-vs-pixels' in run(good, {2: [6, 7], 5: [5]}), 'map lists an undeblended parent')
check('contrast1-unchanged' in run(good, {2: [6, 7]}, contrast=1), 'contrast=1 change not seen')
check(run(seg0.copy(), {}, contrast=1, rel=True) == set(), 'contrast=1 with gapped labels must be accepted')

# ---- scenes: every parent type fits its tile for many seeds, parents never touch --
for seed in range(6):
    for tp in S.TYPES:
        data, seg, labs = S.build((tp, 'S', tp), 'gaps', 'mixed', seed)
        check(sorted(np.unique(seg[seg > 0]).tolist()) == sorted(labs), 'labels')
        for l in labs:
            check(S.connected(seg == l, 8), f'{tp} parent not 8-connected')

if fails:
    print('FAILED:', *fails, sep='\n  ')
    sys.exit(1)
print('test_c06_schedules ok')
