"""Self-test of mcphot/ref/aperture_ref.py (reference model of C02 / C16) against
even more naive computations.  Plain script; exits non-zero on failure.

    PYTHONPATH=/repo:/verif /venv/bin/python selftest/test_aperture_ref.py
"""
import math
import os
import sys
import warnings

import numpy as np

sys.path.insert(0, os.path.dirname(os.path.dirname(os.path.abspath(__file__))))
warnings.simplefilter('ignore')
from mcphot.ref import aperture_ref as R  # noqa: E402

fails = []


def check(name, ok, info=''):
    if not ok:
        fails.append(f'{name} {info}')


rng = np.random.default_rng(3)

# 1. direct_stats against numpy / astropy on random samples (incl. ties and n = 1, 2)
from astropy.stats import biweight_location, biweight_midvariance, mad_std  # noqa: E402

for n in (1, 2, 3, 4, 7, 12, 31):
    for rep in range(20):
        v = rng.normal(5, 2, n)
        if rep % 5 == 0 and n > 2:
            v[1] = v[0]
        if rep % 7 == 0:
            v[0] = 40.0
        st = R.direct_stats([float(x) for x in v])
        ref = {'min': v.min(), 'max': v.max(), 'mean': v.mean(), 'median': np.median(v), 'std': v.std(), 'var': v.var(),
               'mad_std': mad_std(v), 'biweight_location': biweight_location(v),
               'biweight_midvariance': biweight_midvariance(v), 'mode': 3 * np.median(v) - 2 * v.mean()}
        for k, r in ref.items():
            if k == 'biweight_midvariance' and st['bw_den'] is not None and abs(st['bw_den']) < 1e-3:
                continue
            check(f'direct_stats.{k}', abs(st[k] - r) <= 1e-9 * (1 + abs(r)), f'n={n} got {st[k]} ref {r}')

# 2. register / ref_sums against "paste the mask into a padded canvas"
from photutils.aperture import CircularAperture, EllipticalAnnulus, RectangularAperture  # noqa: E402

PAD = 12
for shape in ((1, 1), (3, 4), (5, 4)):
    ny, nx = shape
    data = rng.normal(0, 5, shape)
    err = rng.uniform(0.5, 1.5, shape)
    for ap in (CircularAperture((0.3, 1.1), 1.7), EllipticalAnnulus((nx - 0.5, -0.5), 1.0, 3.0, 2.0, theta=0.4),
               RectangularAperture((-3.0, 1.0), 3.0, 2.0, theta=0.2), CircularAperture((nx + 6.0, 0.0), 2.0)):
        for method in ('exact', 'center'):
            mk = ap.to_mask(method=method)
            box, wl = R.register(mk, shape)
            canvas = np.zeros((ny + 2 * PAD, nx + 2 * PAD))
            bb = mk.bbox
            canvas[bb.iymin + PAD:bb.iymax + PAD, bb.ixmin + PAD:bb.ixmax + PAD] = mk.data
            inside = np.zeros_like(canvas, dtype=bool)
            inside[bb.iymin + PAD:bb.iymax + PAD, bb.ixmin + PAD:bb.ixmax + PAD] = True
            w = canvas[PAD:PAD + ny, PAD:PAD + nx]
            overlap = inside[PAD:PAD + ny, PAD:PAD + nx].any()
            check('register.overlap', (wl is not None) == bool(overlap), f'{shape} {ap}')
            got = np.zeros(shape)
            for iy, ix, ww in (wl or []):
                got[iy, ix] = ww
            check('register.weights', np.array_equal(got, w), f'{shape} {ap}')
            for bits in (0, 1, 2 ** (ny * nx) - 1, 5):
                bits &= 2 ** (ny * nx) - 1
                m = R.bits_to_mask(bits, shape)
                s, e, a, sabs, n = R.ref_sums(wl, data.tolist(), err.tolist(), bits, nx)
                if not overlap:
                    check('ref_sums.nan', s != s and e != e and a != a)
                    continue
                sel = (w > 0) & ~m
                check('ref_sums.sum', abs(s - (w * data)[sel].sum()) < 1e-12 * (1 + sabs))
                check('ref_sums.err', abs(e - math.sqrt((w * err ** 2)[sel].sum())) < 1e-12)
                check('ref_sums.area', abs(a - w[sel].sum()) < 1e-12)
                check('ref_sums.n', n == sel.sum())

# 3. moments / covariance / shape against numpy linear algebra on random pixel sets
for rep in range(300):
    n = rng.integers(1, 9)
    pix = [(int(rng.integers(0, 6)), int(rng.integers(0, 7)), float(rng.uniform(0.5, 9))) for _ in range(n)]
    mo = R.direct_moments(pix)
    ys, xs, vs = (np.array(c, dtype=float) for c in zip(*pix))
    xc, yc = (xs * vs).sum() / vs.sum(), (ys * vs).sum() / vs.sum()
    check('moments.centroid', abs(mo['xc'] - xc) < 1e-12 and abs(mo['yc'] - yc) < 1e-12)
    cov = np.cov(np.vstack([xs, ys]), aweights=vs, bias=True) if n > 1 else np.zeros((2, 2))
    check('moments.cov', np.allclose([mo['cxx'], mo['cxy'], mo['cyy']], [cov[0, 0], cov[0, 1], cov[1, 1]], atol=1e-10))
    for cxx, cxy, cyy in R.regularised_covariances(mo['cxx'], mo['cxy'], mo['cyy']):
        if cxx != cxx:
            continue
        c = np.array([[cxx, cxy], [cxy, cyy]])
        check('regularised.det', np.linalg.det(c) >= R.DELTA ** 2 - 2e-9)
        check('regularised.step', abs(((cxx - mo['cxx']) / R.DELTA) - round((cxx - mo['cxx']) / R.DELTA)) < 1e-9
              and abs((cxx - mo['cxx']) - (cyy - mo['cyy'])) < 1e-12)
        ev = np.sort(np.linalg.eigvalsh(c))[::-1]
        sh = R.shape_from_cov(cxx, cxy, cyy)
        check('shape.axes', abs(sh['semimajor_sigma'] ** 2 - ev[0]) < 1e-10 and abs(sh['semiminor_sigma'] ** 2 - ev[1]) < 1e-10)
        check('shape.ecc', abs(sh['eccentricity'] ** 2 - (1 - ev[1] / ev[0])) < 1e-9)
        if ev[0] - ev[1] > 1e-6:
            vec = np.linalg.eigh(c)[1][:, 1]              # major-axis direction
            ang = math.degrees(math.atan2(vec[1], vec[0]))
            d = abs(ang - sh['orientation']) % 180
            check('shape.orientation', min(d, 180 - d) < 1e-6, f'{ang} {sh["orientation"]}')

# 4. posclass
check('posclass', R.posclass((-2, 1, 0, 2), (3, 3)) == 'cut-low' and R.posclass((1, 5, 0, 2), (3, 3)) == 'cut-high'
      and R.posclass((-1, 5, 0, 2), (3, 3)) == 'cut-both' and R.posclass((0, 3, 0, 3), (3, 3)) == 'inside'
      and R.posclass((3, 5, 0, 2), (3, 3)) == 'outside' and R.posclass((-4, 0, 0, 2), (3, 3)) == 'outside')

# 5. param_items / aperture_from_items / before_spec: the explicit-parameter construction equals the spec construction
for spec in (['circle', 1.2], ['cann', 0.4, 1.2], ['ellipse', 2.5, 1.2, 0.6], ['eann', 1.2, 2.5, 1.2, 0.6],
             ['rect', 5.0, 2.4, 0.6], ['rann', 2.4, 5.0, 3.0, 0.6]):
    pos = [(1.0, 2.0), (0.3, -1.5)]
    a1 = R.make_aperture(spec, pos)
    items = R.param_items(spec)
    a2 = R.aperture_from_items(spec[0], items, pos)
    check('param_items.names', [n for n, _ in items] == R.PARAM_NAMES[spec[0]] and a1 == a2, spec)
    check('param_items.masks', all(np.array_equal(m1.data, m2.data) and m1.bbox == m2.bbox
                                   for m1, m2 in zip(a1.to_mask('exact'), a2.to_mask('exact'))), spec)
    bs = R.before_spec(spec)
    check('before_spec', bs[0] == spec[0] and len(bs) == len(spec) and all(b != v for b, v in zip(bs[1:], spec[1:]))
          and not (R.make_aperture(bs, pos) == a1), spec)

# 6. C02 storage representations: the oracle's values are exactly what the handed-over object holds; layouts are what
#    their names say; the bright variants really separate a float64 accumulation from one in the image dtype
from mcphot.props import c02  # noqa: E402
for tier in ('quick', 'thorough'):
    for rep in c02.reprs(tier):
        for dv in c02.dvariants(rep):
            for shape in ((1, 1), (3, 3), (4, 5)):
                d, e, dl, el = c02.stored_images(shape, 0, rep, dv)
                dt, _, layout = rep.partition(':')
                for obj, lst in ((d, dl), (e, el)):
                    arr = np.asarray(obj)
                    check('repr.values', arr.shape == shape and np.array_equal(arr.astype(np.float64), np.array(lst))
                          and np.all(np.isfinite(np.array(lst))) and all(type(v) is float for row in lst for v in row), (rep, dv, shape))
                    if layout != 'list':
                        check('repr.dtype', obj.dtype == np.dtype(dt) and obj.dtype.byteorder == np.dtype(dt).byteorder, (rep, obj.dtype))
                        # every integer / float16 / float32 value converts to float64 and back without change
                        check('repr.exact', np.array_equal(np.array(lst).astype(obj.dtype), arr), (rep, dv))
                check('repr.layout', {'': lambda a: a.flags.c_contiguous, 'F': lambda a: a.flags.f_contiguous and (a.flags.c_contiguous == (min(shape) == 1)),
                                      'strided': lambda a: a.base is not None and (not a.flags.c_contiguous or shape == (1, 1)) and a.strides[1] == 2 * a.itemsize,
                                      'list': lambda a: isinstance(a, list) and isinstance(a[0], list)}[layout](d), (rep, shape))
                check('repr.error-nonnegative', np.all(np.array(el) >= 0), (rep, dv))
                if shape == (3, 3) and dv != 'generic':
                    a = np.asarray(d)
                    nat = a.dtype.newbyteorder('=')
                    pair = a.ravel()[4:6]
                    with np.errstate(all='ignore'):
                        narrow = float(np.add.reduce(pair.astype(nat), dtype=nat)) if nat.kind != 'b' else float(pair[0] | pair[1])
                    wide = float(pair[0]) + float(pair[1])
                    rest = float(a.ravel()[3])
                    with np.errstate(all='ignore'):
                        narrow3 = float(np.add.reduce(a.ravel()[3:6].astype(nat)[[1, 0, 2]], dtype=nat)) if nat.kind != 'b' else 1.0
                    if dv == 'pile' and not (nat.kind == 'f' and nat.itemsize == 8):
                        check('repr.pile-overflows', narrow != wide and np.isfinite(wide), (rep, narrow, wide))
                    if dv == 'cancel':
                        # (numpy reduces float16 with a float32 accumulator: only the float32 image is required to lose the faint pixel)
                        check('repr.cancel', wide == 0.0 and (nat.kind != 'f' or nat.itemsize != 4 or narrow3 != rest), (rep, narrow3, rest))
check('repr.classes', [c02.repr_class(r) for r in ('<f4', '>f2', '>f8', '<i8', 'u1', 'bool', '<f8:F', '<f4:strided')]
      == ['float-narrow', 'float-narrow', 'float64-byteswapped', 'signed-int', 'unsigned-int', 'bool', 'float64-F', 'float-narrow-strided'])

if fails:
    print(f'{len(fails)} FAILURES')
    for f in fails[:20]:
        print(' ', f)
    sys.exit(1)
print('aperture_ref selftest ok')
