"""Self-test of mcphot/ref/bkg2d.py (reference model of C11).

The plain-Python estimators / sigma clipping / median filter are cross-checked
against independent implementations that are NOT the photutils code under test
(numpy one-liners, astropy.stats, scipy.ndimage) on a few hundred small samples,
and the exclusion rule / mesh slicing against hand-computed cases.
Plain script; exits non-zero on failure.
"""
import os
import sys
import warnings

import numpy as np

sys.path.insert(0, os.path.dirname(os.path.dirname(os.path.abspath(__file__))))
from mcphot.ref import bkg2d as ref  # noqa: E402

warnings.simplefilter('ignore')
from astropy import stats as ast  # noqa: E402
from scipy import ndimage  # noqa: E402

fails = []


def close(a, b, what, tol=1e-11):
    if not (abs(a - b) <= tol * max(1.0, abs(a), abs(b))):
        fails.append(f'{what}: {a!r} != {b!r}')


rng = np.random.default_rng(5)
for n in list(range(1, 13)) + [20, 36, 81]:
    for rep in range(8):
        v = rng.normal(10, 2, n)
        if rep % 2 and n > 2:
            v[0] = 100.0
        if rep == 7:
            v[:] = 3.5
        close(ref.median(v), float(np.median(v)), f'median n={n}')
        close(ref.mean(v), float(np.mean(v)), f'mean n={n}')
        close(ref.std(v), float(np.std(v)), f'std n={n}')
        close(ref.est_madstd(v), float(ast.mad_std(v)), f'madstd n={n}')
        close(ref.est_biweight_location(v), float(ast.biweight_location(v, c=6.0)), f'biloc n={n}')
        close(ref.est_biweight_scale(v), float(ast.biweight_scale(v, c=9.0)), f'biscale n={n}')
        close(ref.est_mode(v), 3 * float(np.median(v)) - 2 * float(np.mean(v)), f'mode n={n}')
        md, mn, sd = np.median(v), np.mean(v), np.std(v)
        want = mn if sd == 0 else (md if abs(mn - md) / sd >= 0.3 else 2.5 * md - 1.5 * mn)
        close(ref.est_sextractor(v), float(want), f'sextractor n={n}')
        for sigma, it in ((3.0, 10), (2.0, 3), (1.5, 1), (2.5, None)):
            got = np.sort(ref.sigma_clip(v, sigma, it))
            exp = np.sort(np.ma.compressed(ast.sigma_clip(v, sigma=sigma, maxiters=it, cenfunc='median', stdfunc='std')))
            if got.shape != exp.shape or not np.array_equal(got, exp):
                fails.append(f'sigma_clip n={n} sigma={sigma} maxiters={it}: {got.size} kept vs {exp.size}')

# exclusion rule (documented): more than ep percent masked -> excluded; none good -> excluded
for ngood, npix, ep, want in [(9, 9, 0, (True, True)), (8, 9, 0, (False, False)), (0, 9, 100, (False, False)),
                              (1, 9, 100, (True, False)), (2, 4, 50, (True, True)), (1, 4, 50, (False, False)),
                              (3, 4, 50, (True, False)), (18, 20, 10, (True, True)), (17, 20, 10, (False, False)),
                              (3, 6, 50, (True, True))]:
    if ref.included(ngood, npix, ep) != want:
        fails.append(f'included({ngood},{npix},{ep}) = {ref.included(ngood, npix, ep)} != {want}')

# mesh slicing: padded partial boxes, crop
if ref.mesh_shape((7, 9), (2, 3), 'pad') != (4, 3) or ref.mesh_shape((7, 9), (2, 3), 'crop') != (3, 3):
    fails.append('mesh_shape')
d = np.arange(35, dtype=float).reshape(5, 7)
g = np.ones((5, 7), bool)
g[4, 6] = False
R = ref.reference_mesh(d, g, (2, 3), 'pad', 100, None, 'Mean', 'Std')
if R['npix'].tolist() != [[6, 6, 2], [6, 6, 2], [3, 3, 0]]:
    fails.append(f'npix {R["npix"].tolist()}')
close(R['bkg'][2, 0], np.mean([28, 29, 30]), 'extra row box')
close(R['bkg'][0, 2], np.mean([6, 13]), 'extra column box')
if R['incl'][2, 2] or not np.isnan(R['bkg'][2, 2]):
    fails.append('empty corner box must be excluded')

# well-posedness margins: the clip margin is the distance of the nearest pixel to a clipping bound, i.e. moving a
# bound by less than the margin never changes what is kept; moving the nearest pixel across it does
for n in (2, 5, 9, 20):
    for rep in range(6):
        v = rng.normal(10, 2, n)
        if rep % 2:
            v[0] = 100.0
        for sigma, it in ((3.0, 10), (2.0, 3)):
            info = {}
            kept = ref.sigma_clip(v, sigma, it, info)
            mg = info['margin']
            if not (mg > 0 and np.isfinite(mg)):
                fails.append(f'clip margin {mg!r} for n={n}')
                continue
            # recompute all bounds by hand and compare
            w, k, best = v.copy(), 0, np.inf
            while w.size and k < it:
                k += 1
                c, s_ = np.median(w), np.std(w)
                best = min(best, np.min(np.abs(w - (c - sigma * s_))), np.min(np.abs(w - (c + sigma * s_))))
                keep = (w >= c - sigma * s_) & (w <= c + sigma * s_)
                if keep.all():
                    break
                w = w[keep]
            close(mg, float(best), f'clip margin n={n}', tol=1e-9)
            if w.size != kept.size:
                fails.append('clip margin bookkeeping changed the clipping')
info = {}
ref.sigma_clip(np.array([3.25]), 3.0, 10, info)
if 'margin' in info:
    fails.append('a single value must not contribute a clip margin (its decision is exact)')
v = np.array([1.0, 2.0, 3.0, 10.0])       # median 2.5, mean 4, std 3.5355: |mean-median| = 1.5 vs 0.3 std = 1.0607
close(ref.sextractor_branch_margin(v), abs(1.5 - 0.3 * float(np.std(v))), 'branch margin')
if ref.sextractor_branch_margin([4.0]) != np.inf:
    fails.append('branch margin of one value')
R = ref.reference_mesh(d, g, (2, 3), 'pad', 100, (3.0, 10), 'SExtractor', 'Std')
if not (0 < R['clip_margin'] < np.inf and 0 <= R['branch_margin'] < np.inf):
    fails.append(f'reference_mesh margins {R["clip_margin"]!r} {R["branch_margin"]!r}')
R = ref.reference_mesh(d, g, (2, 3), 'pad', 100, None, 'Mean', 'Std')
if R['clip_margin'] != np.inf or R['branch_margin'] != np.inf:
    fails.append('margins must be inf without clipping / without a branching estimator')

# degenerate-statistic boxes: enumeration, image layout, classes, and the estimators on every multiset against
# astropy.stats' scalar (axis=None) functions (not the photutils copy under test)
from math import comb  # noqa: E402

for letters, npb in (((0, 1, 7), 9), ((0, 2, 5, 7), 9), ((0, 1), 4)):
    boxes = ref.multiset_boxes(letters, npb)
    if len(boxes) != comb(npb + len(letters), len(letters)) or len(set(boxes)) != len(boxes):
        fails.append(f'multiset_boxes{letters}: {len(boxes)} boxes')
    if any(tuple(sorted(b)) != b or len(b) > npb or set(b) - set(letters) for b in boxes) or boxes[0] != ():
        fails.append(f'multiset_boxes{letters}: not ascending tuples over the letters')
boxes = ref.multiset_boxes((0, 1, 7), 9)
img, msk, boxes2, (my, mx) = ref.multiset_image((0, 1, 7), (3, 3), 5.25, 1.5, -100.0)
if boxes2 != boxes or my * mx != 220 or img.shape != (3 * my, 3 * mx) or msk.shape != img.shape:
    fails.append('multiset_image layout')
for b, ms in enumerate(boxes):
    j, i = divmod(b, mx)
    blk, bm = img[3 * j:3 * j + 3, 3 * i:3 * i + 3], msk[3 * j:3 * j + 3, 3 * i:3 * i + 3]
    if sorted(blk[~bm].tolist()) != [5.25 + 1.5 * x for x in ms] or not np.all(blk[bm] == -100.0):
        fails.append(f'multiset_image box {b} {ms}')
        break
classes = {}
for ms in boxes[1:]:
    v = np.array(ms, float)
    cls = ref.box_class(v)
    classes[cls] = classes.get(cls, 0) + 1
    want_cls = ('constant' if np.ptp(v) == 0 else
                'MAD==0,ptp>0' if np.median(np.abs(v - np.median(v))) == 0 else 'MAD>0')
    if cls != want_cls:
        fails.append(f'box_class{ms} = {cls}')
    close(ref.est_biweight_location(v), float(ast.biweight_location(v, c=6.0)), f'biloc {ms}')
    close(ref.est_biweight_scale(v), float(ast.biweight_scale(v, c=9.0)), f'biscale {ms}')
    close(ref.est_madstd(v), float(ast.mad_std(v)), f'madstd {ms}')
    close(ref.est_std(v), float(np.std(v)), f'std {ms}')
    md, mn, sd = np.median(v), np.mean(v), np.std(v)
    close(ref.est_sextractor(v), float(mn if sd == 0 else (md if abs(mn - md) / sd >= 0.3 else 2.5 * md - 1.5 * mn)),
          f'sextractor {ms}')
    for sigma, it in ((3.0, 10), (2.0, 3)):
        got = np.sort(ref.sigma_clip(v, sigma, it))
        exp = np.sort(np.ma.compressed(ast.sigma_clip(v, sigma=sigma, maxiters=it, cenfunc='median', stdfunc='std')))
        if not np.array_equal(got, exp):
            fails.append(f'sigma_clip {ms} sigma={sigma}: {got.tolist()} vs {exp.tolist()}')
if ref.box_class([]) != 'empty' or set(classes) != {'constant', 'MAD==0,ptp>0', 'MAD>0'} or classes['constant'] != 27:
    fails.append(f'box classes {classes}')
info = {}
ref.sigma_clip(np.array([3.25, 3.25, 3.25]), 3.0, 10, info)
if 'margin' in info:
    fails.append('equal values must not contribute a clip margin (kept at any offset / scale)')
info = {}
ref.sigma_clip(np.array([0.0, 1, 1, 1, 1, 1, 1, 1, 5]), 3.0, 10, info)       # 5 == median + 3 std exactly
if not info['margin'] < 1e-12:
    fails.append(f'exact clipping tie must give margin 0, got {info["margin"]!r}')
g3 = ~msk
R = ref.reference_mesh(img, g3, (3, 3), 'pad', 90, (3.0, 10), 'SExtractor', 'Std', classify=True)
if not (R['clip_margin'] > 1e-3 * 1.5 and R['branch_margin'] > 1e-3 * 1.5 and R['cls'][0, 0] == 'empty'
        and not R['incl'][0, 0] and R['incl'].sum() == 219):
    fails.append(f'multiset image margins {R["clip_margin"]!r} {R["branch_margin"]!r}')

# median filter against scipy's generic_filter with NaN padding (ignoring NaN)
for shape in [(1, 1), (2, 2), (3, 4), (4, 3), (1, 5)]:
    m = rng.normal(0, 1, shape)
    for fs in [(3, 3), (1, 3), (3, 1), (5, 3)]:
        want = ndimage.generic_filter(m, np.nanmedian, size=fs, mode='constant', cval=np.nan)
        got = ref.median_filter(m, m, fs, None)
        if not np.allclose(got, want, rtol=0, atol=1e-15):
            fails.append(f'median_filter {shape} {fs}')
        thr = 0.1
        got = ref.median_filter(m, m, fs, thr)
        exp = np.where(m > thr, want, m)
        if not np.allclose(got, exp, rtol=0, atol=1e-15):
            fails.append(f'selective median_filter {shape} {fs}')

if fails:
    print('test_bkg2d_ref FAILED')
    for f in fails[:20]:
        print('  ', f)
    sys.exit(1)
print('test_bkg2d_ref ok')
