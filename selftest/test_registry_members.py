#!/venv/bin/python
"""Self-test of the C10 additions to the registry (plain script, exit != 0 on failure):

 * the second pass of ``Ctx.members`` (``registry_members``): plotting / patch members are called only with ``extras``
   and then with origin != 0 / scale != 1; every plotting member has an argument set;
 * an in-place shift of the positions while plotting is seen on the aperture the caller holds and on the cached
   apertures of a catalog (the object itself is watched during the second pass);
 * every recipe with a mask argument hands out an all-False mask and one with True pixels, each as an array of its own
   and as a view of a larger array (mask form 'cond' of the quick tier);
 * only the remote data loaders are left uncovered; base classes / mixins / descriptors verify through a concrete class.

    MPLBACKEND=Agg PYTHONPATH=/repo:/verif /venv/bin/python selftest/test_registry_members.py
"""
import os
import sys
import warnings

os.environ.setdefault('MPLBACKEND', 'Agg')
sys.path.insert(0, os.path.dirname(os.path.dirname(os.path.abspath(__file__))))
warnings.simplefilter('ignore')

import numpy as np  # noqa: E402

from mcphot.ref import registry as R  # noqa: E402
from mcphot.props import c10  # noqa: E402
from photutils.segmentation import SegmentationImage  # noqa: E402

fails = []


def check(cond, msg):
    if not cond:
        fails.append(msg)
        print('FAIL', msg)


cov = R.coverage()
# -- C10: second pass of members (plotting / members with arguments), mask forms -----------------------------
import inspect  # noqa: E402
import photutils.aperture as pa  # noqa: E402
import photutils.profiles as pp  # noqa: E402
from mcphot.ref import registry_members as M  # noqa: E402

# (a) without extras (C15) no plotting member is called; with extras they are, with origin != 0 / scale != 1
c0 = R.run_recipe('SegmentationImage', 'ndarray', 'clean', 0)
c1 = R.run_recipe('SegmentationImage', 'ndarray', 'clean', 0, extras=True)
check(not [lab for lab, _ in c0.steps if c10.PLOT_STEP.search(lab)], 'plotting member called without extras')
plot_labels = [lab for lab, st in c1.steps if c10.PLOT_STEP.search(lab)]
check(len(plot_labels) >= 5 and all(st == 'ok' for lab, st in c1.steps if lab in plot_labels), f'SegmentationImage plotting steps: {plot_labels}')
check('plot_origin' in c1.held and np.all(c1.held['plot_origin'] != 0) and M.SCALE != 1, 'plot origin / scale are the defaults')
for k in (pa.CircularAperture, pa.BoundingBox, SegmentationImage, pp.RadialProfile):
    for name, kind in R.member_names(k):
        if kind != 'plot':
            continue
        sets = M.argument_sets(k, name, kind)
        check(sets, f'{k.__name__}.{name}: plotting member without an argument set')
        if 'origin' in inspect.signature(getattr(k, name)).parameters and k is not SegmentationImage:   # (its builders need the object)
            cc = R.Ctx('ndarray', 'clean', 0, extras=True)
            origins = [np.asarray(build(cc, None)[1].get('origin', 0)) for _, build, _ in sets]
            check(any(np.all(o != 0) for o in origins), f'{k.__name__}.{name}: no argument set with origin != 0')
check(any('origin' in lab and 'scale' in lab for lab in plot_labels), 'SegmentationImage: no patch step with origin and scale')
# (b) an in-place shift of the positions while plotting is seen on the aperture the caller holds, and on the cached
#     apertures of a catalog (the object itself is watched during the second pass)
orig = pa.PixelAperture._define_patch_params


def shifting(self, origin=(0, 0), **kwargs):
    self.positions[..., 0] -= origin[0]
    return orig(self, origin=origin, **kwargs)


pa.PixelAperture._define_patch_params = shifting
try:
    cs1 = R.run_recipe('CircularAperture', 'ndarray', 'clean', 0, extras=True)
    check(any(arg == 'aperture' and 'plot' in lab for lab, arg, _ in cs1.changes), f'shifted aperture not seen: {cs1.changes}')
    cs2 = R.run_recipe('SourceCatalog', 'ndarray', 'clean', 0, extras=True)
    check(any(arg == 'self' and 'plot_kron_apertures' in lab for lab, arg, _ in cs2.changes), f'shifted catalog apertures not seen: {cs2.changes}')
finally:
    pa.PixelAperture._define_patch_params = orig
# (c) every recipe that hands out a mask argument hands out an all-False one and one with True pixels, each as an array
#     of its own and as a view of a larger array (quick tier: mask form 'cond' x conditions x representations)
for name, r in R.RECIPES.items():
    if r.slow or 'cond' not in r.axes or 'rep' not in r.axes:
        continue
    forms = set()
    for rep_ in ('ndarray', 'view'):
        for cond_ in ('negatives', 'masked'):
            if forms is None:
                continue
            cm = R.run_recipe(name, rep_, cond_, 0, extras=True)
            forms |= {(kind, view) for _, kind, view in (cm.masks_out if cm is not None else ())}
            if not forms:
                forms = None         # no mask argument in this recipe
    forms = forms or set()
    check(not forms or forms == {('all-False', False), ('all-False', True), ('some-True', False), ('some-True', True)},
          f'recipe {name}: mask forms handed out: {sorted(forms)}')
# (d) nothing public is left unclassified, base classes verify through their concrete class
check(len(cov['uncovered']) <= 5 and all('loader' in v for v in cov['uncovered'].values()), f'uncovered: {list(cov["uncovered"])}')
check(len(cov['covered_through_concrete_class']) == len(R.VIA_CONCRETE), 'a VIA_CONCRETE claim does not verify')
for k in (pa.ApertureStats, SegmentationImage, pp.CurveOfGrowth, pa.BoundingBox):
    ne = M.not_evaluated(k)
    check(set(ne) <= {'mutator'}, f'{k.__name__}: members never called: {ne}')

print(f'registry members self-test: {len(fails)} failures')
sys.exit(1 if fails else 0)
