#!/venv/bin/python
"""Self-test of the C10 registry axes "container arguments" and "EPSF star geometries"
(``mcphot/ref/registry_containers.py``; plain script, exit != 0 on failure).

 * the deep container snapshot sees an added / dropped / replaced / re-ordered dictionary entry, an element appended to
   / removed from / replaced in a list, a change inside a nested list or array, and does not flag reads or copies;
 * a function that fills defaults into the caller's dictionary, one that deletes keys from it and one that flags the
   caller's star are caught by a context step and attributed to the argument;
 * the products are what the evidence says (36 params_map forms x 2 x 3; 48 / 20 star steps per geometry), the
   first params_map form is the empty dictionary;
 * the star geometries are what their names say, measured with a plain-Python overlap rule: with fit box 5 the odd
   star of 'base' / 'margin2' is fitted (box inside the 11x11 cutout), in every other geometry the box sticks out.
"""
import collections
import copy
import os
import sys
import warnings

sys.path.insert(0, os.path.dirname(os.path.dirname(os.path.abspath(__file__))))
warnings.simplefilter('ignore')

import numpy as np  # noqa: E402

from mcphot.ref import registry as R  # noqa: E402
from mcphot.ref import registry_containers as RC  # noqa: E402

fails = []


def check(cond, msg):
    if not cond:
        fails.append(msg)
        print('FAIL', msg)


# -- deep container snapshot ------------------------------------------------------------------------------------------
d = {'a': 'x', 'b': [1.0, 2.0], 'c': np.arange(3.0)}
s0 = R.snap(d)
check(R.changed(s0, R.snap(dict(d))) == [], 'a copy of a dictionary is not a change')
check(R.changed(s0, R.snap(copy.deepcopy(d))) == [], 'a deep copy of a dictionary is not a change')
for name, mutate in (('entry added', lambda x: x.setdefault('z', 1)), ('entry dropped', lambda x: x.pop('a')),
                     ('entry replaced', lambda x: x.update(a='y')), ('nested list appended', lambda x: x['b'].append(3.0)),
                     ('nested list element replaced', lambda x: x['b'].__setitem__(0, 5.0)),
                     ('nested array written', lambda x: x['c'].__setitem__(1, 7.0)),
                     ('re-ordered', lambda x: x.update(a=x.pop('a')))):
    x = copy.deepcopy(d)
    mutate(x)
    check(R.changed(s0, R.snap(x)) != [], f'dictionary: {name} is seen')
check(R.changed(R.snap({'a': 1}), R.snap(collections.OrderedDict(a=1))) != [], 'dictionary replaced by another class is seen')
lst = [3, 1, 2]
l0 = R.snap(lst)
check(R.changed(l0, R.snap(list(lst))) == [], 'a copy of a list is not a change')
for name, mutate in (('append', lambda x: x.append(4)), ('pop', lambda x: x.pop()), ('sort', lambda x: x.sort()),
                     ('clear', lambda x: x.clear())):
    x = list(lst)
    mutate(x)
    check(R.changed(l0, R.snap(x)) != [], f'list: {name} is seen')

# -- a context step catches container / star mutations ---------------------------------------------------------------
c = R.Ctx('ndarray', 'clean', 0)
pm = c.hold('params_map', {'flux': 'f'})
kw = c.hold('kwargs', {'weights': [1.0], 'maxiter': 5})
c.step('fills defaults', lambda: pm.setdefault('x_0', 'x_0'))
c.step('reads', lambda: dict(pm, y_0='y'))
c.step('deletes a key', lambda: kw.pop('weights'))
got = {(lab, arg) for lab, arg, _ in c.changes}
check(got == {('fills defaults', 'params_map'), ('deletes a key', 'kwargs')}, f'container mutations attributed: {sorted(got)}')

from mcphot.ref.registry_recipes import _wcs  # noqa: E402
arr = R.scene('clean', 0)['data'] - 20.0
stars = RC._make_stars(arr, 'left', RC.STAR_KINDS[1], _wcs())
c = R.Ctx('ndarray', 'clean', 0)
c.hold('stars', stars)
c.step('reads', lambda: (stars.n_good_stars, stars.center_flat, [s.flux for s in stars.all_stars]))
check(c.changes == [], f'reading the stars is not a change: {c.changes}')
c.step('flags a linked star', lambda: setattr(stars.all_stars[0], '_fit_error_status', 1))
c.step('excludes a star', lambda: setattr(stars.all_stars[3], '_excluded_from_fit', True))
c.step('moves a star', lambda: setattr(stars.all_stars[1], 'cutout_center', (5.0, 5.0)))
check([lab for lab, arg, _ in c.changes if arg == 'stars'] == ['flags a linked star', 'excludes a star', 'moves a star'],
      f'star mutations attributed: {c.changes}')

# -- products -----------------------------------------------------------------------------------------------------------
n_forms = int(np.prod([len(v) for v in RC.PM_STATES.values()]))
check(n_forms == 36 and len(RC.DICT_CLASSES) == 2 and len(RC.PM_REJECTED) == 3, 'params_map product 36 x 2 x 3')
check([v[0] for v in RC.PM_STATES.values()] == ['own', 'own', 'absent', 'absent'], 'first params_map form is the empty dictionary')
check(len(RC._subsets(RC.RANGES)) == 16 and RC._subsets(RC.RANGES)[0] == (), 'param_ranges: 16 subsets, empty first')
check(len(RC.star_steps(True)) == len(RC.FIT_BOXSIZES) * len(RC.STAR_KINDS) * len(RC.EPSF_ENTRIES) == 48, 'thorough: 48 star steps per geometry')
q = RC.star_steps(False)
check(len(q) == 20 and set(q) <= set(RC.star_steps(True)), 'quick: 20 star steps per geometry, a subset of the full product')
check({k for _, k, _ in q} == set(RC.STAR_KINDS) and {e for _, _, e in q} == set(RC.EPSF_ENTRIES), 'quick: every kind and every entry occurs')
check(R.RECIPES['EPSF[star geometry]'].geoms == tuple(RC.STAR_GEOMS) and len(RC.STAR_GEOMS) == 10, 'star geometries are the recipe geometries')
for n in ('containers[make_model_image params_map]', 'containers[parameter ranges]', 'containers[grid_from_epsfs]', 'containers[kwargs and lists]'):
    check(n in R.RECIPES and not R.RECIPES[n].numeric, f'recipe {n} registered (C10 only)')

# -- every container form runs; only the forms labelled as rejected raise; nothing changes on the pinned tree ------------------
REJECTED = ('; + key that is no model parameter', '; + value that is no column', 'list of 0 apertures',
            'catalogs: [Table, Table]',                       # more catalogues than images
            'LinkedEPSFStar of 1].center_flat')               # (pinned tree: ragged centre list of a one-star link)
for n in [k for k in R.RECIPES if k.startswith('containers[')]:
    c = R.run_recipe(n, 'ndarray', 'clean', 0, extras=True)
    bad = [lab for lab, st in c.steps if st != 'ok' and not any(r in lab for r in REJECTED)]
    check(not bad, f'{n}: steps raise that are not labelled rejected: {bad[:4]}')
    check(3 * sum(st == 'ok' for _, st in c.steps) >= len(c.steps), f'{n}: every valid form runs to completion (params_map: 1 valid + 2 rejected per form)')
    check(c.changes == [], f'{n}: silent on the pinned tree: {c.changes[:3]}')
    check(len(c.steps) >= 40, f'{n}: {len(c.steps)} steps')

# -- the geometries are what they say (plain-Python rule: box of odd size b centred on round(centre) inside [0, 11)) ---
def inside(center, box):
    by, bx = (box, box) if np.ndim(box) == 0 else box
    ok = True
    for cen, b in ((center[0], bx), (center[1], by)):
        i = int(np.floor(cen + 0.5))
        ok &= (i - b // 2 >= 0) and (i + b // 2 + 1 <= RC.STAR_SIZE)
    return ok


for g, cen in RC.STAR_GEOMS.items():
    st = RC._make_stars(arr, g, 'EPSFStar', _wcs()).all_stars
    odd = tuple(st[0].cutout_center)
    want = g in ('base', 'margin2')
    check(inside(odd, 5) == want, f'geometry {g}: fit box 5 of the odd star {"fits" if want else "sticks out"} (centre {odd})')
    check(all(inside(tuple(s.cutout_center), 5) for s in st[1:]) == (g != 'all_off'), f'geometry {g}: the other stars')
    check(not inside(odd, 13), 'fit box 13 never fits')
    # the source really is where cutout_center says (brightest pixel), when that is inside the cutout
    if 0 <= odd[0] < RC.STAR_SIZE:
        iy, ix = np.unravel_index(np.argmax(st[0].data), st[0].data.shape)
        check((ix, iy) == (int(odd[0]), int(odd[1])), f'geometry {g}: source at {(ix, iy)}, cutout_center {odd}')
check(inside((5.2, 5.1), 11) and not inside((2.2, 5.1), 11), 'fit box 11 fits the centred star only')

print('test_registry_containers:', 'FAILED' if fails else 'ok')
sys.exit(1 if fails else 0)
