"""Self-test of mcphot/ref/psfref.py (the C13 reference mathematics) against
brute force.  Plain script: exits non-zero on failure.  No photutils import."""
import math
import os
import sys

import numpy as np

sys.path.insert(0, os.path.dirname(os.path.dirname(os.path.abspath(__file__))))
from mcphot.ref import psfref as R  # noqa: E402

fails = []


def check(name, got, want, tol):
    ok = abs(got - want) <= tol
    if not ok:
        fails.append(f'{name}: got {got!r}, want {want!r} (tol {tol})')


def brute_radial(profile, Rmax, n=400001):
    r = np.linspace(0.0, Rmax, n)
    y = 2 * math.pi * r * profile(r)
    return float(np.sum(0.5 * (y[1:] + y[:-1]) * np.diff(r)))


# 1. polar quadrature: area of a disc, Gaussian encircled energy, off-centre evaluation point
edges = np.array([0, 0.5, 1, 2, 4.0])
cum, lo, hi = R.polar_cumulative(lambda x, y: np.ones_like(x), 3.3, -1.2, edges)
for e, c in zip(edges[1:], cum):
    check(f'disc area R={e}', c, math.pi * e * e, 1e-12)
s = 0.7
g = lambda x, y: np.exp(-((x - 3.3) ** 2 + (y + 1.2) ** 2) / (2 * s * s)) / (2 * math.pi * s * s)  # noqa: E731
cum, lo, hi = R.polar_cumulative(g, 3.3, -1.2, edges * s * 2)
for e, c in zip(edges[1:] * s * 2, cum):
    check(f'gauss EE R={e}', c, R.ee_gauss(e, s), 1e-13)

# 2. Moffat closed form against brute-force trapezoid
for alpha, beta in [(1.0, 1.5), (0.5, 2.5), (2.3, 4.765)]:
    prof = lambda r: (beta - 1) / (math.pi * alpha ** 2) * (1 + (r / alpha) ** 2) ** (-beta)  # noqa: E731
    for Rm in (0.7 * alpha, 3 * alpha, 20 * alpha):
        check(f'moffat EE a={alpha} b={beta} R={Rm}', R.ee_moffat(Rm, alpha, beta), brute_radial(prof, Rm), 2e-9)

# 3. Airy closed form against brute force (first zero of the profile is at `radius`)
from scipy.special import j1  # noqa: E402
for radius in (1.0, 2.3):
    k = R.J11 / radius

    def prof(r):
        z = np.where(r > 0, k * r, 1.0)
        v = (2 * j1(z) / z) ** 2
        v = np.where(r > 0, v, 1.0)
        return k * k / (4 * math.pi) * v
    check('airy first zero', float(prof(np.array([radius]))[0]), 0.0, 1e-25)
    for Rm in (0.5 * radius, radius, 3.7 * radius, 12 * radius):
        check(f'airy EE radius={radius} R={Rm}', R.ee_airy(Rm, radius), brute_radial(prof, Rm), 2e-9)
check('airy EE at first zero (83.8 %)', R.ee_airy(1.0, 1.0), 1.0 - 0.40275939570255295 ** 2, 1e-12)  # J0(j11) from A&S table 9.5

# 4. lattice integral of a rotated elliptical Gaussian written out directly
sx, sy, th = 0.09, 1.1, math.radians(33.0)


def ell(x, y):
    u = (x - 0.4) * math.cos(th) + (y + 2.0) * math.sin(th)
    v = -(x - 0.4) * math.sin(th) + (y + 2.0) * math.cos(th)
    return np.exp(-0.5 * (u * u / sx ** 2 + v * v / sy ** 2)) / (2 * math.pi * sx * sy)


tot, vmin, npts = R.lattice_integral(ell, 0.4, -2.0, sx, sy)
check('lattice integral', tot, 1.0, 1e-12)
# a coarser lattice (h = sigma) must show the predicted Poisson-summation error scale, i.e. the bound is not vacuous
h = sx
k = np.arange(-200, 201)
xx, yy = np.meshgrid(0.4 + (k + 0.123) * h, -2.0 + (k * 13 + 0.377) * h)
coarse = float(ell(xx, yy).sum() * h * 13 * h)
if not (1e-12 < abs(coarse - 1.0) < 1.0):
    fails.append(f'coarse lattice unexpectedly exact: {coarse}')

# 5. pixel integral of a separable Gaussian against the erf closed form
for sg in (0.085, 0.4, 2.0):
    f = lambda x, y: np.exp(-0.5 * ((x - 0.3) ** 2 + (y - 0.1) ** 2) / sg ** 2) / (2 * math.pi * sg ** 2)  # noqa: E731
    for px, py in [(0.0, 0.0), (1.0, 0.0), (-1.0, 2.0)]:
        ex = 0.5 * (math.erf((px + 0.5 - 0.3) / (math.sqrt(2) * sg)) - math.erf((px - 0.5 - 0.3) / (math.sqrt(2) * sg)))
        ey = 0.5 * (math.erf((py + 0.5 - 0.1) / (math.sqrt(2) * sg)) - math.erf((py - 0.5 - 0.1) / (math.sqrt(2) * sg)))
        check(f'pixel integral s={sg} ({px},{py})', R.pixel_integral(f, px, py, sg), ex * ey, 1e-14)

# 6. bilinear blend: exact for a + b x + c y + d x y, clamped outside, single row / column / point
xg, yg = [-10.0, 5.5, 100.0], [0.0, 60.0, 70.25]
bil = lambda x, y: 1.0 + 0.3 * x - 0.2 * y + 0.01 * x * y  # noqa: E731
stack = [[np.array([bil(x, y)]) for x in xg] for y in yg]
rng = np.random.default_rng(5)
for _ in range(200):
    px, py = rng.uniform(-10, 100), rng.uniform(0, 70.25)
    b, used = R.blend(stack, xg, yg, px, py)
    check('bilinear reproduces bilinear function', float(b[0]), bil(px, py), 1e-10)
    check('weights sum to one', sum(u[2] for u in used), 1.0, 1e-14)
for (px, py), (cx, cy) in [((-50, 30), (-10, 30)), ((300, 80), (100, 70.25)), ((5.5, -3), (5.5, 0)), ((-11, -1), (-10, 0))]:
    b, used = R.blend(stack, xg, yg, px, py)
    check(f'clamped blend at {(px, py)}', float(b[0]), bil(cx, cy), 1e-10)
b, used = R.blend([[np.array([7.0]), np.array([9.0])]], [0.0, 4.0], [3.0], 1.0, 55.0)
check('single-row grid interpolates along x only', float(b[0]), 7.5, 1e-14)
b, used = R.blend([[np.array([7.0])]], [0.0], [3.0], 1.0, 55.0)
check('1x1 grid', float(b[0]), 7.0, 0)
if R.bilinear_weights([0.0, 40.0], 40.0) != [(1, 1.0)] or R.bilinear_weights([0.0, 40.0], 0.0) != [(0, 1.0)]:
    fails.append('weights at a grid coordinate')
check('sample coords', float(R.sample_coords(9, 4.0, 2, 10.3)[6]), 10.3 + 1.0, 1e-15)

if fails:
    print('\n'.join(fails))
    sys.exit(1)
print('psfref self-test ok')
