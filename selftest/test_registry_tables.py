#!/venv/bin/python
"""Self-test of the C10 registry axes "one companion at a time" and "table forms"
(plain script, exit != 0 on failure).

 * a run 'companion:<kind>:<slot>' hands the slot alone out as a MaskedArray owning a real mask array / as a
   non-contiguous view of a watched parent, everything else as plain ndarrays; layout-only slots never become
   MaskedArrays; the slots of a recipe are found by ``c10.companion_slots``; every (slot, kind, condition) of the
   quick tier is a run in which the slot really was handed out;
 * a write into the mask of a MaskedArray companion / outside a strided companion is seen and attributed;
 * the deep table snapshot sees added / dropped / renamed / reordered / converted / re-typed columns, mask, info and
   meta changes and does not flag reads or ``Table.copy()``;
 * the table-form products are what coverage.table_forms says, every form of the quick tier executes without raising
   on the pinned tree except the forms labelled 'rejected', and a function that completes a table in place is caught.
"""
import os
import sys
import warnings

sys.path.insert(0, os.path.dirname(os.path.dirname(os.path.abspath(__file__))))
warnings.simplefilter('ignore')

import numpy as np  # noqa: E402
import astropy.units as u  # noqa: E402
from astropy.table import MaskedColumn, QTable, Table  # noqa: E402

from mcphot.props import c10  # noqa: E402
from mcphot.ref import registry as R  # noqa: E402
from mcphot.ref import registry_recipes as RR  # noqa: E402

fails = []


def check(cond, msg):
    if not cond:
        fails.append(msg)
        print('FAIL', msg)


# -- one companion at a time ----------------------------------------------------------------------------------------
c = R.Ctx('companion:ma:error', 'nonfinite', 0)
d, e, m = c.data(), c.error(), c.mask()
check(type(d) is np.ndarray and d.flags.c_contiguous and type(m) is np.ndarray, 'companion run: image / mask are not plain ndarrays')
check(isinstance(e, np.ma.MaskedArray) and np.ma.getmask(e) is not np.ma.nomask and e.mask.sum() == 2 and c.comp_applied == 1,
      'companion:ma: not a MaskedArray owning a mask with True pixels')
check(not (e.mask & ~np.isfinite(d)).any() and not (e.mask & m).any(), 'companion:ma: masked pixels coincide with the bad pixels')
c = R.Ctx('companion:ma_empty:error', 'clean', 0)
e = c.error()
check(isinstance(e, np.ma.MaskedArray) and isinstance(np.ma.getmask(e), np.ndarray) and not e.mask.any(), 'companion:ma_empty')
c = R.Ctx('companion:strided:error', 'clean', 0)
e = c.error()
check(type(e) is np.ndarray and not e.flags.c_contiguous and e.base is c.held['error.base'] and e.shape == R.SHAPE
      and np.array_equal(e, R.scene('clean', 0)['error']), 'companion:strided: not a strided view of a watched parent holding the same numbers')
c = R.Ctx('companion:ma:mask', 'masked', 0)
check(type(c.mask()) is np.ndarray and c.comp_applied == 0, 'a boolean mask was handed out as a MaskedArray')
c = R.Ctx('companion:strided:mask', 'masked', 0)
mm = c.mask()
check(mm.dtype == bool and not mm.flags.c_contiguous and c.comp_applied == 1 and mm.sum() == len(R.ARG_MASK_PIX['masked']), 'companion:strided:mask')
c = R.Ctx('companion:ma:threshold', 'clean', 0)
check(isinstance(c.q(np.full(R.SHAPE, 5.0), 'threshold'), np.ma.MaskedArray) and np.ndim(c.q(5.0, 'threshold')) == 0, 'companion handed out through q()')
c = R.Ctx('companion:ma:kernel', 'clean', 0)
check(isinstance(c.arg('kernel', np.ones((3, 3))), np.ma.MaskedArray) and type(c.arg('xy', np.ones((3, 2)), kinds='layout')) is np.ndarray
      and type(c.arg('radii', np.arange(3.0))) is np.ndarray, 'companion handed out through arg()')
# an ordinary run registers the slots and changes nothing
c = R.Ctx('ndarray', 'masked', 0)
c.data(), c.error(), c.mask(), c.arg('kernel', np.ones((3, 3)))
check(list(c.array_slots) == ['error', 'mask', 'kernel'] and c.array_slots['mask'] == {'kinds': 'layout', 'mask': True}
      and c.array_slots['error']['kinds'] == 'all' and c.comp is None and type(c.held['kernel']) is np.ndarray, f'slot registration: {c.array_slots}')
check(set(c10.companion_slots('SourceCatalog', 'base', 0)) == {'error', 'mask', 'background', 'convolved_data'}, 'SourceCatalog companions')
check(set(c10.companion_slots('find_peaks', 'base', 0)) == {'error', 'mask', 'threshold', 'footprint'}, 'find_peaks companions')
check(set(c10.companion_slots('calc_total_error', 'base', 0)) == {'bkg_error', 'effective_gain'}, 'calc_total_error companions')
for name in ('centroid_1dg', 'detect_threshold', 'calc_total_error'):
    combos = c10.companion_combos(R.RECIPES[name], 'quick', 0)
    check(len(combos) >= 8 and len(set(combos)) == len(combos), f'{name}: companion combos {len(combos)}')
    for mf, rep, cond, geom in combos:
        cc = R.run_recipe(name, rep, cond, 0, maskform=mf, geom=geom, extras=True)
        check(cc is not None and cc.comp_applied >= 1, f'{name} {rep} {cond}: slot not handed out')
        check(not cc.changes, f'{name} {rep} {cond}: pinned tree modifies {cc.changes[:2]}')
# a write into the mask of a MaskedArray companion / into the parent of a strided companion is seen
c = R.Ctx('companion:ma:error', 'clean', 0)
e = c.error()
c.step('view shares the mask', lambda: np.ma.masked_invalid(e, copy=False).mask.__setitem__((0, 0), True))
check([(x[1], x[2]) for x in c.changes] == [('error', ['mask'])], f'mask write through a view: {c.changes}')
c = R.Ctx('companion:strided:error', 'clean', 0)
e = c.error()
c.step('write between the elements', lambda: c.held['error.base'].__setitem__((1, 1), -1.0))
check([x[1] for x in c.changes] == ['error.base'], f'write outside a strided companion: {c.changes}')

# -- deep table snapshot ---------------------------------------------------------------------------------------------


def mutated(obj, fn):
    before = R.snap(obj)
    fn(obj)
    return R.changed(before, R.snap(obj))


def tab():
    t = QTable({'x_init': [1.0, 2.0], 'y_init': [3.0, 4.0], 'flux_init': [3.0, 4.0] * u.Jy})
    t.meta['origin'] = 'caller'
    return t


check(mutated(tab(), lambda t: t.__setitem__('id', [1, 2])) == ['colnames', "column 'id' (added)"], 'added column')
check("column 'flux_init' (removed)" in mutated(tab(), lambda t: t.remove_column('flux_init')), 'dropped column')
check(mutated(tab(), lambda t: t.__setitem__('flux_init', t['flux_init'].to(u.mJy))) == ["column 'flux_init'.unit", "column 'flux_init'.values"],
      'converted column')
check(mutated(tab(), lambda t: t.__setitem__('x_init', np.array([1, 2]))) == ["column 'x_init'.dtype", "column 'x_init'.values"], 're-typed column')
tt = tab()
check(mutated(tt, lambda t: t.__init__(t[['y_init', 'x_init', 'flux_init']], copy=False)) == ['colnames'], 'reordered columns')
check(mutated(tab(), lambda t: setattr(t['x_init'].info, 'description', 'changed')) == ["column 'x_init'.info"], 'column info')
check(mutated(tab(), lambda t: t.meta.pop('origin')) == ['meta'], 'meta')
tm = Table({'a': MaskedColumn([1.0, 2.0], mask=[False, False])})
check(mutated(tm, lambda t: t['a'].mask.__setitem__(0, True)) == ["column 'a'.mask"], 'masked column mask')
tp = Table({'f': [1.0, 2.0]})
tp['f'].unit = u.Jy
check(mutated(tp, lambda t: setattr(t['f'], 'unit', u.mJy)) == ["column 'f'.unit"], 'unit of a plain column')
check(not mutated(tab(), lambda t: (t.copy(), t['x_init'] + 1, t[::-1], t.group_by('x_init'), len(t), str(t))), 'reads flagged')
check(R.changed(R.snap(tab()), R.snap(Table(tab()))) != [], 'table class is not part of the snapshot')

# -- table forms ---------------------------------------------------------------------------------------------------------
fp, fq = RR.init_table_forms(False), RR.init_table_forms(True)
check(len(fp) == 5 * 2 * 16 and len(fq) == 5 * (16 + 12) + 5 * 4, f'init table forms: {len(fp)}, {len(fq)}')
check(len({RR.form_label(f) for f in fp}) == len(fp) and len({RR.form_label(f) for f in fq}) == len(fq), 'form labels are not distinct')
t = RR.init_table({'names': '_init', 'class': 'QTable', 'cols': ('flux', 'local_bkg'), 'unit': 'other'}, u.Jy)
check(t.colnames == ['local_bkg', 'x_init', 'y_init', 'flux_init'] and t['flux_init'].unit == u.mJy and t['flux_init'][0].value == 9.0e6
      and t['local_bkg'].unit == u.mJy, f'other-unit form: {t.colnames}')
t = RR.init_table({'names': 'centroid', 'class': 'Table', 'cols': (), 'unit': 'same'}, None)
check(type(t) is Table and t.colnames == ['xcentroid', 'ycentroid'], 'minimal form')
nforms = 0
for name, r in R.RECIPES.items():
    if 'table forms' not in name:
        continue
    check(not r.companions and not r.numeric, f'{name}: flags')
    if r.slow:
        continue       # thorough tier only (the full product for the iterative class: ~70 s)
    cc = R.run_recipe(name, 'ndarray', 'clean', 0, extras=True)
    bad = [lab for lab, st in cc.steps if st != 'ok' and 'rejected init table' not in lab]
    acc = [lab for lab, st in cc.steps if st == 'ok' and 'rejected init table' in lab]
    check(not bad, f'{name}: forms raise on the pinned tree: {bad[:3]}')
    check(not acc, f'{name}: rejected forms are accepted: {acc[:3]}')
    check(not cc.changes, f'{name}: pinned tree modifies the table: {cc.changes[:2]}')
    nforms += len(cc.steps)
check(nforms == 226 + 246 + 20 + 30, f'{nforms} table-form steps')
for name, n in (('make_model_image', 80), ('model_params', 160), ('EPSFBuilder', 8), ('LinkedEPSFStar', 16 + 24)):
    cc = R.run_recipe(name, 'ndarray', 'clean', 0, extras=True)
    got = [lab for lab, st in cc.steps if ('[table: ' in lab or '[catalog: ' in lab)]
    check(len(got) == n and all(st == 'ok' for lab, st in cc.steps if lab in got) and not cc.changes, f'{name}: {len(got)} table steps')


# a function that completes the caller's table in place when nothing has to be renamed
def lazy_copy(t):
    if 'x' in t.colnames:
        t = t.copy()
        t.rename_column('x', 'x_init')
    t['id'] = np.arange(len(t)) + 1
    return t


c = R.Ctx('ndarray', 'clean', 0)
for form in RR.init_table_forms(False, classes=('QTable',), subsets=(RR.MINIMAL,)):
    t = c.hold('init_params', RR.init_table(form))
    c.step(f'lazy_copy[{RR.form_label(form)}]', lambda: lazy_copy(t))
check([x[0] for x in c.changes] == [f'lazy_copy[QTable: {x}, {y}]' for x, y in (('x_0', 'y_0'), ('x_init', 'y_init'), ('xcentroid', 'ycentroid'),
                                                                              ('x_fit', 'y_fit'))], f'in-place completion: {c.changes}')

print(f'registry tables / companions self-test: {nforms} table-form steps, {len(fails)} failures')
sys.exit(1 if fails else 0)
