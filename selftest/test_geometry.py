#!/venv/bin/python
"""Self-test of mcphot/ref/geometry.py against more naive computations.

 1. scalar polygon∩disk line integral vs brute-force 2-D sub-sampling (1200^2 points per cell)
 2. ... vs 1-D chord integration (exact chord per column, 200k columns)
 3. vectorised grid version == scalar version
 4. extents vs parametric sampling of the boundary; area formulae vs sum of exact weights
 5. sub-pixel interval counts vs a plain Python double loop
 6. minimal-box tie rule on hand-worked cases
Exits non-zero on failure; < 20 s.
"""
import itertools
import math
import os
import sys

import numpy as np

sys.path.insert(0, os.path.dirname(os.path.dirname(os.path.abspath(__file__))))
from mcphot.ref import geometry as G  # noqa: E402

fails = []


def check(ok, *msg):
    if not ok:
        fails.append(msg)
        print('FAIL', *msg)


def inside_ellipse(x, y, a, b, th):
    c, s = math.cos(th), math.sin(th)
    return ((x * c + y * s) / a) ** 2 + ((-x * s + y * c) / b) ** 2 < 1.0


CONFIGS = []
for (cx, cy), (a, q), th in itertools.product(
        [(0.0, 0.0), (0.3, -0.2), (1.7, 0.4), (-2.2, 2.9), (0.5, 0.5)],
        [(0.3, 1.0), (0.45, 0.3), (1.0, 1.0), (2.5, 0.5), (3.3, 0.1), (4.0, 0.02), (25.0, 1.0), (0.8, 2.0)],
        [0.0, 0.4, math.pi / 4, 2.5]):
    CONFIGS.append((-cx - 0.5, -cy - 0.5, -cx + 0.5, -cy + 0.5, a, a * q, th))
# cells that are cut by the boundary are the interesting ones: move the cell next to the boundary on +x axis too
for a, q, th in [(2.5, 0.5, 0.4), (25.0, 1.0, 0.0), (300.0, 0.02, 1.0), (0.03, 1.0, 0.0), (0.03, 0.02, 0.7)]:
    c, s = math.cos(th), math.sin(th)
    px, py = a * c, a * s          # end of the first axis
    CONFIGS.append((px - 0.37, py - 0.61, px + 0.63, py + 0.39, a, a * q, th))

# 1. brute-force sub-sampling --------------------------------------------------
N = 1200
off = (np.arange(N) + 0.5) / N
worst1 = 0.0
ncut = 0
for (x0, y0, x1, y1, a, b, th) in CONFIGS:
    ref = G.ellipse_pixel_frac(x0, y0, x1, y1, a, b, th)
    X = x0 + off[None, :] * (x1 - x0)
    Y = y0 + off[:, None] * (y1 - y0)
    bf = inside_ellipse(X, Y, a, b, th).mean()
    # a convex curve inside the unit cell has length <= 4; it crosses <= sqrt2*4*N + 8 sub-cells
    tol = (math.sqrt(2) * 4 * N + 8) / N ** 2
    worst1 = max(worst1, abs(ref - bf))
    ncut += 0.0 < ref < 1.0
    check(abs(ref - bf) <= tol, 'subsample', (x0, y0, a, b, th), ref, bf)
    check(-1e-15 <= ref <= 1 + 1e-12, 'range', ref)
print(f'1. {len(CONFIGS)} cells ({ncut} cut by the boundary) vs {N}^2 sub-sampling: worst {worst1:.2e}')

# 2. chord integration --------------------------------------------------------
M = 200000
worst2 = 0.0
for (x0, y0, x1, y1, a, b, th) in CONFIGS:
    ref = G.ellipse_pixel_frac(x0, y0, x1, y1, a, b, th)
    x = x0 + (np.arange(M) + 0.5) / M * (x1 - x0)
    c, s = math.cos(th), math.sin(th)
    # ((x c + y s)/a)^2 + ((-x s + y c)/b)^2 = 1  -> A y^2 + B y + C = 0
    A = (s / a) ** 2 + (c / b) ** 2
    B = 2 * x * c * s * (1 / a ** 2 - 1 / b ** 2)
    C = x * x * ((c / a) ** 2 + (s / b) ** 2) - 1.0
    disc = B * B - 4 * A * C
    ok = disc > 0
    sq = np.sqrt(np.where(ok, disc, 0.0))
    ya = (-B - sq) / (2 * A)
    yb = (-B + sq) / (2 * A)
    ln = np.where(ok, np.clip(np.minimum(yb, y1) - np.maximum(ya, y0), 0.0, None), 0.0)
    ci = ln.mean() / (y1 - y0)
    worst2 = max(worst2, abs(ref - ci))
    # midpoint rule with square-root end-point singularities: error O(M^-1.5) ~ 1e-8; the needle (b = 6e-4
    # ... 6) columns are resolved because 1/M << b
    check(abs(ref - ci) <= 2e-6, 'chord', (x0, y0, a, b, th), ref, ci)
print(f'2. vs chord integration ({M} columns): worst {worst2:.2e}')

# 3. vectorised == scalar ------------------------------------------------------
worst3 = 0.0
for (cx, cy), (a, q), th in itertools.product([(0.0, 0.0), (0.3, -0.2), (0.5, 0.5), (0.5 - 1e-9, 0.5 - 1e-9)],
                                              [(0.03, 1.0), (0.3, 0.02), (1.0, 1.0), (math.sqrt(2.5), 1.0), (2.5, 0.5),
                                               (5.0, 0.1), (7.0, 2.0)],
                                              [0.0, math.pi / 4, 1.0]):
    b = a * q
    ext = int(math.ceil(max(a, b))) + 1
    xe = np.arange(-ext, ext + 1) - 0.5 - cx
    ye = np.arange(-ext, ext + 2) - 0.5 - cy
    grid = G.ellipse_grid_exact(xe, ye, a, b, th, chunk=3)
    for j in range(len(ye) - 1):
        for i in range(len(xe) - 1):
            sc = G.ellipse_pixel_frac(xe[i], ye[j], xe[i + 1], ye[j + 1], a, b, th)
            worst3 = max(worst3, abs(sc - grid[j, i]))
    check(abs(grid.sum() - math.pi * a * b) <= 1e-11 * max(1.0, a * b), 'grid sum', a, b, th, grid.sum() - math.pi * a * b)
check(worst3 <= 1e-13, 'vector vs scalar', worst3)
print(f'3. vectorised grid vs scalar: worst {worst3:.2e}')

# 4. extents -------------------------------------------------------------------
t = np.linspace(0, 2 * math.pi, 400001)
worst4 = 0.0
for a, q, th in itertools.product([0.3, 2.5, 25.0], [1.0, 0.5, 0.02, 2.0], [0.0, math.pi / 8, math.pi / 4, math.pi / 2, 1.0, 2.5, -0.3]):
    b = a * q
    ex, ey = G.extents(('e', a, b, th))
    c, s = math.cos(th), math.sin(th)
    X = a * np.cos(t) * c - b * np.sin(t) * s
    Y = a * np.cos(t) * s + b * np.sin(t) * c
    worst4 = max(worst4, abs(X.max() - ex) / a, abs(Y.max() - ey) / a)
    ex, ey = G.extents(('r', a, b, th))
    cor = [(sx * a / 2 * c - sy * b / 2 * s, sx * a / 2 * s + sy * b / 2 * c) for sx in (-1, 1) for sy in (-1, 1)]
    worst4 = max(worst4, abs(max(p[0] for p in cor) - ex), abs(max(p[1] for p in cor) - ey))
check(worst4 <= 1e-9, 'extents', worst4)
check(G.extents(('c', 2.0)) == (2.0, 2.0), 'circle extents')
print(f'4. extents vs sampled boundary: worst {worst4:.2e}')

# 5. sub-pixel interval vs python loops -----------------------------------------
n5 = 0
for shape, (cx, cy), s in itertools.product(
        [('c', 1.0), ('c', math.sqrt(5)), ('e', 2.5, 0.5, 0.4), ('e', 1.0, 2.0, 0.0), ('r', 2.0, 1.0, 0.0), ('r', 3.5, 0.4, math.pi / 4)],
        [(0.0, 0.0), (0.5, 0.25), (1 / 3, 0.137)], [1, 2, 5]):
    ext = 4
    x0, y0 = -ext - 0.5 - cx, -ext - 0.5 - cy
    lo, hi = G.subpixel_interval(shape, x0, y0, 2 * ext + 1, 2 * ext + 1, s, 1e-13, maxpts=50)
    for j in range(2 * ext + 1):
        for i in range(2 * ext + 1):
            cnt_in = cnt_amb = 0
            for kx in range(s):
                for ky in range(s):
                    x = x0 + i + (kx + 0.5) / s
                    y = y0 + j + (ky + 0.5) / s
                    if shape[0] == 'c':
                        m = math.hypot(x, y) - shape[1]
                    elif shape[0] == 'e':
                        # margin: scaled radial distance (only its sign and near-zero-ness matter here)
                        c, sn = math.cos(shape[3]), math.sin(shape[3])
                        xr, yr = x * c + y * sn, -x * sn + y * c
                        m = math.sqrt((xr / shape[1]) ** 2 + (yr / shape[2]) ** 2) - 1.0
                    else:
                        c, sn = math.cos(shape[3]), math.sin(shape[3])
                        xr, yr = x * c + y * sn, -x * sn + y * c
                        m = max(abs(xr) - shape[1] / 2, abs(yr) - shape[2] / 2)
                    if abs(m) < 1e-11:
                        cnt_amb += 1
                    elif m < 0:
                        cnt_in += 1
            n5 += 1
            check(lo[j, i] >= cnt_in - 0 and lo[j, i] <= cnt_in + cnt_amb and hi[j, i] >= cnt_in
                  and hi[j, i] <= cnt_in + cnt_amb and (cnt_amb > 0 or lo[j, i] == hi[j, i] == cnt_in),
                  'subpixel', shape, (cx, cy), s, (j, i), int(lo[j, i]), int(hi[j, i]), cnt_in, cnt_amb)
# boundary points must be ambiguous: circle r=1 at centre (0,0), s=1: pixel centres (+-1, 0), (0, +-1) lie on it
lo, hi = G.subpixel_interval(('c', 1.0), -1.5, -1.5, 3, 3, 1, 1e-13)
check(lo.tolist() == [[0, 0, 0], [0, 1, 0], [0, 0, 0]] and hi.tolist() == [[0, 1, 0], [1, 1, 1], [0, 1, 0]], 'tie circle', lo, hi)
print(f'5. sub-pixel intervals: {n5} pixels compared with Python loops')

# 6. minimal box tie rule ---------------------------------------------------------
check(G.box_1d_admissible(3.0, 0.5, True) == ({3}, {4}), 'box exact tie', G.box_1d_admissible(3.0, 0.5, True))
check(G.box_1d_admissible(3.0, 0.5, False) == ({2, 3}, {4, 5}), 'box inexact tie', G.box_1d_admissible(3.0, 0.5, False))
check(G.box_1d_admissible(3.0, 0.6, True) == ({2}, {5}), 'box generic')
check(G.box_1d_admissible(3.5, 1.0, True) == ({3}, {5}), 'box half-integer centre', G.box_1d_admissible(3.5, 1.0, True))
check(G.box_1d_admissible(-7.25, 0.03, True) == ({-7}, {-6}), 'box negative', G.box_1d_admissible(-7.25, 0.03, True))
check(G.box_1d_admissible(0.5 - 1e-9, 1.0, True) == ({-1}, {2}), 'box near tie', G.box_1d_admissible(0.5 - 1e-9, 1.0, True))
check(G.box_1d_admissible(3.0, 0.5 + 1e-17, True)[0] == {3}, 'float')  # 0.5+1e-17 == 0.5 in binary64
m, M_ = G.box_1d_admissible(3.0, 0.5000000000000001, True)
check(m == {2, 3} and M_ == {4, 5}, 'box 1 ulp off the edge admits both', m, M_)
print('6. box tie rule ok')

if fails:
    print(f'{len(fails)} FAILURES')
    sys.exit(1)
print('geometry self-test passed')
