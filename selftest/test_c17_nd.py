"""Self-test of mcphot/ref/c17_nd.py (plain script, exits non-zero on failure)."""
import itertools
import os
import sys

import numpy as np

sys.path.insert(0, os.path.join(os.path.dirname(__file__), '..'))
from mcphot.ref import c17_nd as ND  # noqa: E402

fails = []


def ok(cond, msg):
    if not cond:
        fails.append(msg)
        print('FAIL', msg)


# --- reference centre of mass: single bright pixel, order (x, y, z, ...) = reversed axis order
for shape, idx in (((7,), (4,)), ((4, 6), (1, 5)), ((3, 4, 5), (2, 1, 4)), ((3, 4, 5, 6), (0, 3, 1, 5))):
    d = np.zeros(shape)
    d[idx] = 3.0
    c, tol = ND.ref_com_nd(d)
    ok(np.array_equal(c, np.array(idx[::-1], float)), f'delta {shape}: {c}')
    ok(np.all(tol < 1e-12), 'tol small')
    # masked / non-finite pixels are ignored
    d2 = d.copy()
    other = tuple((i + 1) % n for i, n in zip(idx, shape))
    d2[other] = np.nan
    c2, _ = ND.ref_com_nd(d2)
    ok(np.array_equal(c2, c), 'nan ignored')
    d2[other] = 99.0
    m = np.zeros(shape, bool)
    m[other] = True
    c3, _ = ND.ref_com_nd(d2, m)
    ok(np.array_equal(c3, c), 'mask ignored')
ok(ND.ref_com_nd(np.zeros((3, 3, 3)))[0] is None, 'zero total -> None')

# separable product: the centre of mass is the tuple of the 1-D centres of mass
rng = np.random.default_rng(5)
w = [rng.random(n) + 0.1 for n in (3, 4, 5)]
d = w[0][:, None, None] * w[1][None, :, None] * w[2][None, None, :]
c, tol = ND.ref_com_nd(d)
want = [float(np.dot(np.arange(len(v)), v) / v.sum()) for v in w][::-1]
ok(np.allclose(c, want, rtol=0, atol=1e-13), f'separable {c} {want}')

# --- the group: size 2^n n!, identity first, all distinct, closed action consistent with the reference
for ndim, size in ((1, 2), (2, 8), (3, 48), (4, 384)):
    g = ND.signed_perms(ndim)
    ok(len(g) == size and len(set(g)) == size, f'group size {ndim}')
    ok(g[0] == (tuple(range(ndim)), (0,) * ndim), 'identity first')
    ok(ND.sp_type(*g[0]) == 'identity', 'type of identity')
shape = (3, 4, 5)
d = rng.random(shape) + 0.05
c, tol = ND.ref_com_nd(d)
seen = set()
for perm, flips in ND.signed_perms(3):
    e = ND.apply_sp(d, perm, flips)
    ok(e.shape == tuple(shape[p] for p in perm), 'shape of the image')
    seen.add(e.tobytes() + bytes(e.shape))
    ce, _ = ND.ref_com_nd(e)
    ok(np.allclose(ce, ND.map_sp(c, shape, perm, flips), rtol=0, atol=1e-13), f'map_sp {perm} {flips}')
ok(len(seen) == 48, 'the 48 images of a generic box are distinct')
# explicit instance: full transposition reverses the coordinates; flip of the last axis mirrors x
ok(np.array_equal(ND.map_sp([1.0, 2.0, 0.5], shape, (2, 1, 0), (0, 0, 0)), [0.5, 2.0, 1.0]), 'transpose')
ok(np.array_equal(ND.map_sp([1.0, 2.0, 0.5], shape, (0, 1, 2), (0, 0, 1)), [3.0, 2.0, 0.5]), 'flip x')
ok(np.array_equal(ND.map_sp([1.0, 2.0, 0.5], shape, (0, 1, 2), (1, 0, 0)), [1.0, 2.0, 1.5]), 'flip z')

# --- inputs
for shape in [(3,), (4,), (5,), (6,), (9,), (3, 3), (3, 4, 5), (3, 4, 3, 4)]:
    px = ND.excluded_pixels(shape)
    ok(len(set(px)) == len(px) == (4 if np.prod(shape) >= 6 else 2), f'excluded pixels {shape}: {px}')
    d0 = ND.make_generic_nd(shape, 'blob', np.random.default_rng(1))
    ok(d0.shape == shape and np.all(d0 > 0), 'blob positive')
    for mv in ND.ND_MASKS:
        b = ND.build_masked(d0, mv)
        if b is None:
            ok(np.prod(shape) < 6 and mv == 'mask+nf', 'only tiny arrays are skipped')
            continue
        dd, user, excl = b
        n_ex = 0 if excl is None else int(excl.sum())
        ok(n_ex == {'none': 0, 'mask': 2, 'nan': 2, 'mask+nf': 4}[mv], f'{shape} {mv}: {n_ex} excluded')
        if excl is not None:
            ok(np.array_equal(dd[~excl], d0[~excl]), 'other pixels untouched')
            ok(np.all(excl[~np.isfinite(dd)]), 'every non-finite pixel is in excl')
            if user is not None:
                ok(np.all(excl[user]), 'user mask within excl')
c = ND.ref_com_nd(ND.make_generic_nd((4, 4, 4), 'blob', np.random.default_rng(1)))[0]
ok(min(abs(a - b) for a, b in itertools.combinations(c, 2)) > 0.05, f'blob: distinct coordinates in a cube {c}')

# --- symmetric sources
for shape in [(5,), (4, 5), (3, 4, 5), (3, 4, 3, 4)]:
    for c2 in ND.sym_centres_nd(shape):
        s, sup = ND.make_sym_nd(shape, c2, np.random.default_rng(3))
        ok(sup.any() and np.all(s[~sup] == 0) and np.all(s[sup] > 0), 'support')
        for i in np.argwhere(sup):
            i = tuple(int(t) for t in i)
            m = ND.mirror_index(i, c2)
            if not (sup[m] and s[m] == s[i]):
                ok(False, f'not symmetric {shape} {c2} {i}')
                break
        cc, _ = ND.ref_com_nd(s)
        ok(np.allclose(cc, np.array(c2[::-1]) / 2, rtol=0, atol=1e-12), f'centre {shape} {c2}')
    ok(len(ND.sym_centres_nd(shape)) == int(np.prod([2 * n - 5 for n in shape])), 'number of centres')

print('test_c17_nd:', 'FAILED' if fails else 'ok')
sys.exit(1 if fails else 0)
