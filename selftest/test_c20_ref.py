"""Self-test of the C20 reference pieces (renderer, well-sampledness, sma sequence, model metric).
Plain script: exits non-zero on failure."""
import math
import os
import sys

import numpy as np

sys.path.insert(0, os.path.dirname(os.path.dirname(os.path.abspath(__file__))))
from mcphot.props import c20  # noqa: E402

fail = []


def check(ok, what):
    if not ok:
        fail.append(what)


# 1. the renderer's elliptical radius against the parametric form of an ellipse (independent formula)
rng = np.random.default_rng(5)
for _ in range(200):
    t = {'x0': rng.uniform(30, 60), 'y0': rng.uniform(30, 50), 'eps': rng.uniform(0.0, 0.85), 'pa': rng.uniform(-4, 4)}
    a = rng.uniform(0.5, 40)
    b = a * (1 - t['eps'])
    E = rng.uniform(0, 2 * math.pi, 7)
    x = t['x0'] + a * np.cos(E) * math.cos(t['pa']) - b * np.sin(E) * math.sin(t['pa'])
    y = t['y0'] + a * np.cos(E) * math.sin(t['pa']) + b * np.sin(E) * math.cos(t['pa'])
    check(np.allclose(c20.rell(x, y, t), a, rtol=1e-12, atol=1e-12), 'rell parametric')
    wx, wy = c20.half_widths(a, t['eps'], t['pa'])
    EE = np.linspace(0, 2 * math.pi, 20001)
    xs = a * np.cos(EE) * math.cos(t['pa']) - b * np.sin(EE) * math.sin(t['pa'])
    ys = a * np.cos(EE) * math.sin(t['pa']) + b * np.sin(EE) * math.cos(t['pa'])
    check(abs(xs.max() - wx) < 1e-6 * a and abs(ys.max() - wy) < 1e-6 * a, 'half_widths brute force')

# 2. every lattice image: monotone decreasing in r_ell, maximum at the centre pixel nearest the truth
for tier in ('quick',):
    for _, case in c20.enumerate_cases(tier)[::9]:
        img, t = c20.make_image(case, 0)
        r = c20.ell_radius(c20.frame_of(case)['shape'], t)
        o = np.argsort(r.ravel())
        check(np.all(np.diff(img.ravel()[o].astype(float)) <= 0), 'image monotone in r_ell')
        check(np.isfinite(img).all() and ((img > 0).all() or (case['dtype'] in c20.INT_MAX and (img >= 0).all())), 'image finite positive')
        if case['dtype'] != 'f8':      # model metric below is for float64 images
            continue
        # model metric: the image itself has zero excess, a one-pixel shift has not (steep galaxies)
        ex, _, n, nbad = c20.model_excess(img, case, t, 6.0, 25.0)
        check(ex == 0.0 and nbad == 0 and n > 100, 'model_excess(image) == 0')
        ex2, _, _, nbad2 = c20.model_excess(np.roll(img, 2, axis=1), case, t, 6.0, 25.0)
        check(ex2 > 0.02 and nbad2 > 0, f'model_excess(shifted by 2 px) > 0: {ex2}')

# 3. sma sequence
for growth in c20.GROWTH:
    for rg in c20.RANGE + c20.RANGE_EDGE:
        case = dict(c20.DEFAULT, growth=growth, range=rg)
        s = c20.expected_smas(case)
        check(any(abs(v - 10.0) < 1e-12 for v in s), 'sma0 in sequence')
        big = dict(case, frame='large', range=c20.RANGE_LARGE)
        sb = c20.expected_smas(big)
        check(any(abs(v - 30.0) < 1e-12 for v in sb) and all(25.0 < v < 50.0 for v in sb)
              and all(b > a for a, b in zip(sb, sb[1:])), 'large-frame sequence')
        check(all(b > a for a, b in zip(s, s[1:])), 'sequence increasing')
        if rg != 'default':
            mn, mx = map(float, rg.split('-'))
            check(all(mn < v < mx or v == 10.0 for v in s), 'sequence within range')
        d = np.diff(s) if growth == 'lin1.0' else np.array(s[1:]) / np.array(s[:-1])
        check(np.allclose(d, 1.0 if growth == 'lin1.0' else 1.1, rtol=1e-12), 'sequence step')

# 4. well-sampledness is monotone: inside a contiguous sma interval
for _, case in c20.enumerate_cases('quick')[::5]:
    t = c20.truth_geometry(case, 0)
    flags = [c20.well_sampled(s, case, t) for s in np.arange(0.5, 80, 0.25)]
    changes = sum(1 for a, b in zip(flags, flags[1:]) if a != b)
    check(changes <= 2 and any(flags), 'well-sampled range is one non-empty interval')

# 5. angle helpers
check(abs(c20.pa_diff(0.001, math.pi - 0.001) - 0.002) < 1e-12, 'pa_diff mod pi')
check(c20.same_angle(1e-13, 2 * math.pi - 1e-13, 1e-12) and not c20.same_angle(0.5, 0.5 + 1e-9, 1e-12), 'same_angle')

# 6. lattice sizes are what the module documents
check(len(c20.enumerate_cases('quick')) == 344 and len(c20.enumerate_cases('thorough')) == 3632, 'lattice sizes')

# 7. start of the sequence: sma0 keyword overrides geometry.sma; growth clause accepts exactly the documented sequence
for growth in c20.GROWTH_START:
    for rg in c20.RANGE_PRODUCT:
        for s0 in c20.SMA0:
            for gs in c20.GEOMSMA:
                case = dict(c20.DEFAULT, growth=growth, range=rg, sma0=s0, geomsma=gs)
                start = s0 if s0 is not None else gs
                check(c20.start_sma(case) == start and c20.geometry_sma(case) == gs, 'start_sma / geometry_sma')
                mn, mx = c20.parse_range(case) or (0.0, None)
                if not (mn < start and (mx is None or start < mx)):
                    check(c20.admissible(case, c20.truth_geometry(case, 0)) is not None, 'inadmissible start rejected')
                    continue
                s = c20.expected_smas(case)
                check(start in s, 'start in sequence')
                check(all(v > max(mn, 0.5) and (mx is None or v < mx) for v in s), 'sequence strictly inside the range')
                check(c20.growth_breaks(s, case) == [], 'documented sequence has no growth break')
                check(len(c20.growth_breaks(s[:3] + s[4:], case)) == 1, 'a gap is a growth break')
                check(len(c20.growth_breaks(s[:3] + [s[2]] + s[3:], case)) >= 1, 'a duplicate is a growth break')
                other = dict(case, sma0=start * 1.37)
                mix = sorted(s + c20.expected_smas(other))
                check(len(c20.growth_breaks(mix, case)) >= 1, 'two interleaved sequences are a growth break')
                kw = c20.fit_kwargs(case)
                check(kw.get('sma0') == s0 if s0 is not None else 'sma0' not in kw, 'sma0 keyword passed only when given')
                check((kw.get('minsma', 0.0), kw.get('maxsma')) == (mn, mx), 'range parsed')
check(c20.start_site(dict(c20.DEFAULT)) == 'sma0=None'
      and c20.start_site(dict(c20.DEFAULT, sma0=10.0, geomsma=18.0)) == 'sma0-kwarg:geometry.sma>sma0'
      and c20.start_site(dict(c20.DEFAULT, sma0=14.0)) == 'sma0-kwarg:geometry.sma<sma0'
      and c20.start_site(dict(c20.DEFAULT, sma0=10.0)) == 'sma0-kwarg:geometry.sma==sma0', 'start_site')
old = {k: v for k, v in c20.DEFAULT.items() if k not in ('sma0', 'geomsma', 'growvia')}      # replay files of older runs
check(c20.start_sma(old) == 10.0 and c20.expected_smas(old) == c20.expected_smas(dict(c20.DEFAULT)), 'old replay cases')

# 7. share of the sectors that hold enough pixels for the area integrators (sector_fraction), against counts measured
#    with counters inside the integrators on the pinned tree (mean mode, step 0.1; threshold 7 = "more than 6 pixels"):
#    eps 0.8: 0.23 / 0.28 / 0.33 / 0.40 / 0.41 of the sectors at sma 31.38 / 34.52 / 37.97 / 41.77 / 45.95; round
#    isophotes: none at sma 21.4, (nearly) all from sma 28.5
geo = dict(c20.DEFAULT, mode='mean')
for sma, meas in ((31.38, 0.23), (34.52, 0.28), (37.97, 0.33), (41.77, 0.40), (45.95, 0.41)):
    check(abs(c20.sector_fraction(sma, 0.8, geo, thr=7.0) - meas) <= 0.05, f'sector_fraction eps 0.8 sma {sma}')
check(c20.sector_fraction(21.44, 0.2, geo, thr=7.0) == 0.0 and c20.sector_fraction(28.53, 0.2, geo, thr=7.0) == 1.0,
      'sector_fraction eps 0.2')
check(c20.sector_fraction(40.0, 0.2, dict(geo, growth='lin1.0')) == 0.0, 'linear growth: annulus of 0.1 px (geometry astep), no sector with pixels')
t2 = {'eps': 0.2}
check(not c20.area_integrated(27.27, geo, t2) and c20.area_integrated(30.0, geo, t2)
      and not c20.area_integrated(30.0, dict(geo, mode='bilinear'), t2), 'area_integrated class')
# every quick fit of the block 'area' has area-integrated isophotes in its well-sampled expected sequence
for name, case in c20.enumerate_cases('quick'):
    if name == 'area':
        t = c20.truth_geometry(case, 0)
        n = sum(1 for v in c20.expected_smas(case) if c20.well_sampled(v, case, t) and c20.area_integrated(v, case, t))
        check(n >= 4, f'area block: {n} area-integrated isophotes expected')

# 6. block 'dtype': the image of every dtype holds exactly the values of its float64 twin, integer counts fit the dtype,
# the integer galaxy is the analytic one to half a count, and every integer fit of an area mode has area-integrated
# isophotes whose 7-pixel sector sum exceeds the dtype's range (so a sum kept in the pixel dtype would wrap)
for tier in ('quick', 'thorough'):
    seen = set()
    for name, case in c20.enumerate_cases(tier):
        if case['frame'] == 'large' and case['size'] == 2.5 and case['init'] == 'shape':
            seen.add((case['dtype'], case['mode']))      # thorough: the f8 mean / median points belong to the block 'area'
        if name != 'dtype':
            check(case['dtype'] == 'f8', 'dtype axis only in its block')
            continue
        if tier == 'thorough' and (case['pa_deg'], case['cen']) != (120, 'int'):
            continue
        img, t = c20.make_image(case, 1)
        twin, _ = c20.make_image(case, 1, as_float64=True)
        check(img.dtype == np.dtype(case['dtype']) and twin.dtype == np.float64 and twin.dtype.isnative, 'dtypes')
        check(np.array_equal(img.astype(np.float64), twin), 'twin holds the same stored values')
        exact = t['amp'] * c20.radial(case['law'], c20.ell_radius(img.shape, t), case['size'])
        if case['dtype'] in c20.INT_MAX:
            check(twin.max() <= c20.INT_MAX[case['dtype']] and twin.min() >= 0 and np.abs(twin - exact).max() <= 0.5,
                  'integer counts fit the dtype, rounded to the nearest count')
            check(twin.max() >= 0.8 * c20.INT_MAX[case['dtype']], 'peak fills the dtype')
            if case['mode'] in c20.AREA_MODE:
                n = sum(1 for v in c20.expected_smas(case) if c20.well_sampled(v, case, t)
                        and c20.area_integrated(v, case, t) and c20.sector_sum_beyond_dtype(v, case, t))
                check(n >= 3, f'dtype block: {n} isophotes with sector sums beyond the dtype')
        else:
            check(np.abs(twin - exact).max() <= 1e-7 * exact.max(), 'float image = analytic galaxy to float32 rounding')
    want = c20.DTYPE if tier == 'thorough' else c20.DTYPE[:7]
    check(seen == {(d, m) for d in want for m in c20.MODE_ALL}, 'dtype x integrmode product complete')

if fail:
    print('FAIL', sorted(set(fail)))
    sys.exit(1)
print('c20 reference self-test OK')
