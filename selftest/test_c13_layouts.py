"""Self-test of mcphot/ref/c13_layouts.py: every layout is a structural rearrangement of the window points
(X == xs[I], Y == ys[J]), the alphabet really contains the memory layouts / shapes it claims, and a pointwise function is
reproduced through every layout while a 'first row x first column' shortcut is not."""
import sys

import numpy as np

sys.path.insert(0, '/verif')
from mcphot.ref import c13_layouts as L  # noqa: E402

fail = []


def check(cond, msg):
    if not cond:
        fail.append(msg)


WINDOWS = {'int5x3': (np.arange(3.0, 8.0), np.arange(-2.0, 1.0)),
           'frac3x4': (np.array([0.31, 1.7, 2.25]), np.array([-1.1, 0.4, 0.9, 2.6])),
           'frac4x4': (np.array([0.31, 1.7, 2.25, 3.5]), np.array([-1.1, 0.4, 0.9, 2.6]))}


def f(x, y):
    return np.exp(-0.1 * (np.asarray(x, float) - 2.0) ** 2) * np.cos(np.asarray(y, float)) + 0.0


def shortcut(x, y):
    x, y = np.asarray(x, float), np.asarray(y, float)
    if x.ndim == 2 and x.shape == y.shape:
        return f(x[:1, :], y[:, :1])
    return f(x, y)


seen_shapes = set()
for wname, (xs, ys) in WINDOWS.items():
    ref = f(xs[None, :], ys[:, None])
    names = [n for n, _, _ in L.applicable(xs, ys)]
    check(len(names) == len(set(names)), f'{wname}: duplicate layout names')
    check(('2d-xy:int64' in names) == (wname == 'int5x3'), f'{wname}: integer layouts applicability')
    caught = []
    for name, group, fn in L.applicable(xs, ys):
        X, Y, I, J, shape = L.realise(fn, xs, ys)
        Xb, Yb = np.broadcast_arrays(np.asarray(X, float), np.asarray(Y, float))
        check(np.array_equal(Xb, xs[I]) and np.array_equal(Yb, ys[J]), f'{wname}/{name}: not a rearrangement of the window points')
        check(np.array_equal(f(X, Y), ref[J, I]), f'{wname}/{name}: pointwise function not reproduced')
        seen_shapes.add((name, shape))
        if np.shape(shortcut(X, Y)) != shape or not np.array_equal(shortcut(X, Y), ref[J, I]):
            caught.append(name)
    check('2d-xy' not in caught and '1d' not in caught and '2d-xy-rows-permuted' not in caught, f'{wname}: shortcut must be exact on the image layout')
    for must in ('2d-ij', '2d-xy-transposed-view', '2d-scattered-(ny,nx)', '2d-scattered-(1,n)', '2d-xy-interior-shuffled', '2d-ij-one-row', 'nested-list-ij', '2d-ij:int32'):
        check(must in caught or (must == '2d-ij:int32' and wname != 'int5x3'), f'{wname}: shortcut not exposed by {must}')

xs, ys = WINDOWS['int5x3']
byname = {n: fn for n, _, fn in L.applicable(xs, ys)}
X, Y = byname['2d-xy-transposed-view'](xs, ys)
check(X.flags['F_CONTIGUOUS'] and not X.flags['C_CONTIGUOUS'] and X.shape == (5, 3), 'transposed view flags')
X, Y = byname['2d-xy-interior-shuffled'](xs, ys)
check(np.array_equal(X[0], xs) and np.array_equal(Y[:, 0], ys) and np.array_equal(X[:, 0], np.full(3, xs[0]))
      and not np.array_equal(X, np.meshgrid(xs, ys)[0]) and not np.array_equal(Y, np.meshgrid(xs, ys)[1]), 'interior-shuffled')
X, Y = byname['2d-xy-strided'](xs, ys)
check(not X.flags['C_CONTIGUOUS'] and not X.flags['F_CONTIGUOUS'] and X.shape == (3, 5), 'strided view flags')
X, Y = byname['2d-xy-flipped'](xs, ys)
check(X.strides[0] < 0 and X.strides[1] < 0, 'flipped view strides')
X, Y = byname['2d-xy-broadcast-views'](xs, ys)
check(0 in X.strides and 0 in Y.strides and not X.flags['WRITEABLE'], 'broadcast views')
X, Y = byname['2d-ij:int32'](xs, ys)
check(X.dtype == np.int32 and X.shape == (5, 3), 'int32 ij mesh')
X, Y = byname['nested-list-ij'](xs, ys)
check(isinstance(X, list) and isinstance(X[0], list) and isinstance(X[0][0], float), 'nested list')
X, Y = byname['bcast-scalar-x-1d'](xs, ys)
check(isinstance(X, float) and Y.shape == (3,), 'python scalar with 1-D')
X, Y = byname['bcast-row-x-col'](xs, ys)
check(X.shape == (1, 5) and Y.shape == (3, 1), 'row x column')
X, Y = byname['3d-xy-stack'](xs, ys)
check(X.shape == (2, 3, 5), '3-D stack')
p = L.perm(15)
check(sorted(p.tolist()) == list(range(15)) and all(abs(int(p[k + 1]) - int(p[k])) not in (0, 1) for k in range(14)), 'perm')
check(L.GROUPS == ['1-D', '2-D-xy-mesh', '2-D-not-xy-mesh', 'broadcast', '3-D', 'list', 'integer-dtype'], f'groups {L.GROUPS}')

if fail:
    print('FAIL')
    for m in fail:
        print('  -', m)
    sys.exit(1)
print(f'ok: {len(L.LAYOUTS)} layouts in {len(L.GROUPS)} groups, {len(WINDOWS)} windows')
