"""Self-test of the C12 reference helpers (mcphot/ref/psfphot.py) against more naive brute force."""
import itertools
import math
import os
import sys

import numpy as np

sys.path.insert(0, os.path.join(os.path.dirname(os.path.abspath(__file__)), '..'))
from mcphot.ref import psfphot as R   # noqa: E402

fail = 0

# set partitions: Bell numbers, distinct, canonical restricted-growth strings
for n in range(0, 6):
    ps = R.set_partitions(n)
    assert len(ps) == R.BELL[n] == len(set(ps)), n
    for p in ps:
        assert R.first_appearance(p) == tuple(p)
    # brute force: every labelling canonicalised
    brute = {R.first_appearance(lab) for lab in itertools.product(range(max(n, 1)), repeat=n)}
    assert brute == set(ps), n

# single linkage vs transitive closure by repeated flooding
rng = np.random.default_rng(5)
for trial in range(300):
    n = int(rng.integers(1, 7))
    x = rng.integers(0, 5, n) + rng.uniform(-0.2, 0.2, n)
    y = rng.integers(0, 5, n) + rng.uniform(-0.2, 0.2, n)
    sep = float(rng.choice([0.7, 1.1, 1.6, 2.3]))
    adj = [[math.hypot(x[i] - x[j], y[i] - y[j]) <= sep for j in range(n)] for i in range(n)]
    comp = list(range(n))
    changed = True
    while changed:
        changed = False
        for i in range(n):
            for j in range(n):
                if adj[i][j] and comp[i] != comp[j]:
                    comp[i] = comp[j] = min(comp[i], comp[j])
                    changed = True
    if R.first_appearance(comp) != R.single_linkage(list(x), list(y), sep):
        print('single_linkage mismatch', x, y, sep)
        fail += 1

# a tie is reported as two candidates, a generic configuration as one
assert len(R.linkage_candidates([0.0, 1.0], [0.0, 0.0], 1.0)) == 2
assert len(R.linkage_candidates([0.0, 1.0], [0.0, 0.0], 1.2)) == 1

# box_pixels against a direct definition: pixels whose index differs from the centre pixel by <= half
for xin, yin, shape in [(3.2, 1.2, (5, 5)), (0.4, 7.7, (5, 7)), (-1.1, 3.0, (3, 5)), (9.6, 9.9, (5, 7))]:
    bad = np.zeros((10, 11), bool)
    bad[1, 3] = bad[7, 0] = True
    pix, cen = R.box_pixels(xin, yin, shape, bad.shape, bad)
    cy, cx = round(yin), round(xin)
    want = [(j, i) for j in range(10) for i in range(11)
            if abs(j - cy) <= shape[0] // 2 and abs(i - cx) <= shape[1] // 2 and not bad[j, i]]
    if sorted(pix) != sorted(want) or cen != (cy, cx):
        print('box_pixels mismatch', xin, yin, shape)
        fail += 1
assert R.centre_pixels(12.5) == [12, 13] and R.centre_pixels(12.3) == [12] and R.centre_pixels(-0.7) == [-1]

# lsq_param_errors on a linear problem with known covariance
A = rng.normal(size=(30, 3))
ytrue = A @ np.array([1.0, -2.0, 0.5])
yobs = ytrue + 0.1 * rng.normal(size=30)
sol = np.linalg.lstsq(A, yobs, rcond=None)[0]
e_abs = R.lsq_param_errors(lambda p: A @ p - yobs, sol, True)
e_rel = R.lsq_param_errors(lambda p: A @ p - yobs, sol, False)
cov = np.linalg.inv(A.T @ A)
r = A @ sol - yobs
assert np.allclose(e_abs, np.sqrt(np.diag(cov)), rtol=1e-6)
assert np.allclose(e_rel, np.sqrt(np.diag(cov) * (r @ r) / 27), rtol=1e-6)

# frame symmetries: array transform and point transform agree on every pixel; 8 distinct maps; shapes swap for 't*'
a = np.arange(3 * 5, dtype=float).reshape(3, 5)
seen = set()
for fr in R.FRAMES:
    b = R.frame_array(fr, a)
    if b.shape != R.frame_shape(fr, a.shape):
        print('frame_shape mismatch', fr)
        fail += 1
    for j in range(3):
        for i in range(5):
            x2, y2 = R.frame_point(fr, i, j, a.shape)
            if b[y2, x2] != a[j, i]:
                print('frame_point/array mismatch', fr, i, j)
                fail += 1
    seen.add((b.shape, tuple(b.ravel())))
assert len(seen) == 8 and R.FRAMES[0] == 'id' and R.frame_point('id', 1.25, 2.5, (3, 5)) == (1.25, 2.5)
assert R.frame_point('tfy', 1.25, 0.5, (3, 5)) == (1.5, 1.25)

if fail:
    print('FAILED', fail)
    sys.exit(1)
print('ok')
