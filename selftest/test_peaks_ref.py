"""Self-test of mcphot/ref/peaks.py (reference models of C14) against even more naive
formulations.  Plain script; exits non-zero on failure; a few seconds."""
import itertools
import math
import os
import sys

import numpy as np

sys.path.insert(0, os.path.dirname(os.path.dirname(os.path.abspath(__file__))))
from mcphot.ref import peaks as R  # noqa: E402

fail = 0


def check(ok, msg):
    global fail
    if not ok:
        fail += 1
        print('FAIL', msg)


# 1. ref_peaks vs a formulation with a -inf padded array (all 2x3 images over {-1, 0, 1, NaN})
NAN = float('nan')
fps = {'box': np.ones((3, 3), bool), 'cross': np.array([[0, 1, 0], [1, 1, 1], [0, 1, 0]], bool),
       'ell': np.array([[1, 1, 0], [0, 1, 0], [0, 0, 0]], bool), 'row': np.ones((1, 3), bool)}
shape = (2, 3)
n = 0
for code in itertools.product((-1.0, 0.0, 1.0, NAN), repeat=6):
    img = np.array(code).reshape(shape)
    for fpn, fp in fps.items():
        for border in (None, (0, 1), (1, 0)):
            for thr in (-2.0, 0.0):
                for mask in (None, (0, 1)):
                    n += 1
                    mflat = None
                    if mask:
                        mflat = [False] * 6
                        mflat[mask[0] * 3 + mask[1]] = True
                    got = R.ref_peaks(list(code), shape, R.neighbour_table(shape, R.footprint_offsets(fp)), thr,
                                      border, mflat)
                    # naive: pad with -inf, NaN -> -inf, window maximum by slicing
                    fy, fx = fp.shape
                    cy, cx = fy // 2, fx // 2
                    pad = np.full((shape[0] + 2, shape[1] + 2), -np.inf)
                    pad[1:-1, 1:-1] = np.where(np.isnan(img), -np.inf, img)
                    exp = []
                    for y in range(shape[0]):
                        for x in range(shape[1]):
                            v = img[y, x]
                            if math.isnan(v) or (mask and (y, x) == mask):
                                continue
                            if border and (y < border[0] or y >= shape[0] - border[0] or x < border[1]
                                           or x >= shape[1] - border[1]):
                                continue
                            win = pad[y + 1 - cy:y + 1 - cy + fy, x + 1 - cx:x + 1 - cx + fx]
                            if v > thr and v >= win[fp].max():
                                exp.append((x, y, v))
                    if got != exp:
                        check(False, f'ref_peaks {code} {fpn} {border} {thr} {mask}: {got} != {exp}')
check(n == 4096 * 4 * 3 * 2 * 2, 'count')

# 2. conv_zero vs the quadruple loop
rng = np.random.default_rng(5)
d = rng.normal(size=(6, 7))
k = rng.normal(size=(3, 5))
k[0, 0] = 0.0
out = R.conv_zero(d, k)
exp = np.zeros_like(d)
for y in range(6):
    for x in range(7):
        s = 0.0
        for j in range(3):
            for i in range(5):
                p, q = y - (j - 1), x - (i - 2)
                if 0 <= p < 6 and 0 <= q < 7:
                    s += k[j, i] * d[p, q]
        exp[y, x] = s
check(np.allclose(out, exp, rtol=0, atol=1e-13), 'conv_zero')
# a NaN only poisons the pixels whose non-zero kernel cells see it
d2 = d.copy()
d2[2, 3] = np.nan
o2 = R.conv_zero(d2, k)
seen = np.zeros((6, 7), bool)
for j in range(3):
    for i in range(5):
        if k[j, i] != 0:
            p, q = 2 + (j - 1), 3 + (i - 2)
            if 0 <= p < 6 and 0 <= q < 7:
                seen[p, q] = True
check(np.array_equal(np.isnan(o2), seen), 'conv_zero NaN footprint')

# 3. disc_offsets
for r in (0.5, 1, 2, 2.5, 3, 4.5, 5):
    brute = [(dy, dx) for dy in range(-8, 9) for dx in range(-8, 9) if math.hypot(dx, dy) <= r + 1e-15]
    check(sorted(R.disc_offsets(r)) == sorted(brute), f'disc {r}')
check((4, 3) in R.disc_offsets(5) and (3, 4) in R.disc_offsets(5) and (4, 3) not in R.disc_offsets(4.99), 'disc 3-4-5')

# 4. com
cut = [[0.0, 1.0, 2.0], [3.0, NAN, 1.0]]
excl = [[False, False, True], [False, False, False]]
x, y = R.com(cut, excl)
w = np.array([[0, 1, 0], [3, 0, 1.0]])
check(abs(x - (w * np.array([0, 1, 2])).sum() / w.sum()) < 1e-15 and abs(y - (w * np.array([[0], [1]])).sum() / w.sum()) < 1e-15,
      'com')
check(all(math.isnan(v) for v in R.com([[0.0, 0.0]], [[False, False]])), 'com zero weight')

print('selftest peaks ref:', 'FAILED' if fail else 'ok', f'({n} peak cases)')
sys.exit(1 if fail else 0)
