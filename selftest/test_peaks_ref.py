"""Self-test of mcphot/ref/peaks.py (reference models of C14) against even more naive
formulations.  Plain script; exits non-zero on failure; a few seconds."""
import itertools
import math
import os
import sys

import numpy as np

sys.path.insert(0, os.path.dirname(os.path.dirname(os.path.abspath(__file__))))
from mcphot.ref import peaks as R  # noqa: E402

fail = 0


def check(ok, msg):
    global fail
    if not ok:
        fail += 1
        print('FAIL', msg)


# 1. ref_peaks vs a formulation with a -inf padded array (all 2x3 images over {-1, 0, 1, NaN})
NAN = float('nan')
fps = {'box': np.ones((3, 3), bool), 'cross': np.array([[0, 1, 0], [1, 1, 1], [0, 1, 0]], bool),
       'ell': np.array([[1, 1, 0], [0, 1, 0], [0, 0, 0]], bool), 'row': np.ones((1, 3), bool)}
shape = (2, 3)
n = 0
for code in itertools.product((-1.0, 0.0, 1.0, NAN), repeat=6):
    img = np.array(code).reshape(shape)
    for fpn, fp in fps.items():
        for border in (None, (0, 1), (1, 0)):
            for thr in (-2.0, 0.0):
                for mask in (None, (0, 1)):
                    n += 1
                    mflat = None
                    if mask:
                        mflat = [False] * 6
                        mflat[mask[0] * 3 + mask[1]] = True
                    got = R.ref_peaks(list(code), shape, R.neighbour_table(shape, R.footprint_offsets(fp)), thr,
                                      border, mflat)
                    # naive: pad with -inf, NaN -> -inf, window maximum by slicing
                    fy, fx = fp.shape
                    cy, cx = fy // 2, fx // 2
                    pad = np.full((shape[0] + 2, shape[1] + 2), -np.inf)
                    pad[1:-1, 1:-1] = np.where(np.isnan(img), -np.inf, img)
                    exp = []
                    for y in range(shape[0]):
                        for x in range(shape[1]):
                            v = img[y, x]
                            if math.isnan(v) or (mask and (y, x) == mask):
                                continue
                            if border and (y < border[0] or y >= shape[0] - border[0] or x < border[1]
                                           or x >= shape[1] - border[1]):
                                continue
                            win = pad[y + 1 - cy:y + 1 - cy + fy, x + 1 - cx:x + 1 - cx + fx]
                            if v > thr and v >= win[fp].max():
                                exp.append((x, y, v))
                    if got != exp:
                        check(False, f'ref_peaks {code} {fpn} {border} {thr} {mask}: {got} != {exp}')
check(n == 4096 * 4 * 3 * 2 * 2, 'count')

# 2. conv_zero vs the quadruple loop
rng = np.random.default_rng(5)
d = rng.normal(size=(6, 7))
k = rng.normal(size=(3, 5))
k[0, 0] = 0.0
out = R.conv_zero(d, k)
exp = np.zeros_like(d)
for y in range(6):
    for x in range(7):
        s = 0.0
        for j in range(3):
            for i in range(5):
                p, q = y - (j - 1), x - (i - 2)
                if 0 <= p < 6 and 0 <= q < 7:
                    s += k[j, i] * d[p, q]
        exp[y, x] = s
check(np.allclose(out, exp, rtol=0, atol=1e-13), 'conv_zero')
# a NaN only poisons the pixels whose non-zero kernel cells see it
d2 = d.copy()
d2[2, 3] = np.nan
o2 = R.conv_zero(d2, k)
seen = np.zeros((6, 7), bool)
for j in range(3):
    for i in range(5):
        if k[j, i] != 0:
            p, q = 2 + (j - 1), 3 + (i - 2)
            if 0 <= p < 6 and 0 <= q < 7:
                seen[p, q] = True
check(np.array_equal(np.isnan(o2), seen), 'conv_zero NaN footprint')

# 3. disc_offsets
for r in (0.5, 1, 2, 2.5, 3, 4.5, 5):
    brute = [(dy, dx) for dy in range(-8, 9) for dx in range(-8, 9) if math.hypot(dx, dy) <= r + 1e-15]
    check(sorted(R.disc_offsets(r)) == sorted(brute), f'disc {r}')
check((4, 3) in R.disc_offsets(5) and (3, 4) in R.disc_offsets(5) and (4, 3) not in R.disc_offsets(4.99), 'disc 3-4-5')

# 4. com
cut = [[0.0, 1.0, 2.0], [3.0, NAN, 1.0]]
excl = [[False, False, True], [False, False, False]]
x, y = R.com(cut, excl)
w = np.array([[0, 1, 0], [3, 0, 1.0]])
check(abs(x - (w * np.array([0, 1, 2])).sum() / w.sum()) < 1e-15 and abs(y - (w * np.array([[0], [1]])).sum() / w.sum()) < 1e-15,
      'com')
check(all(math.isnan(v) for v in R.com([[0.0, 0.0]], [[False, False]])), 'com zero weight')

# 5. box_cutouts / simple_measurements vs explicit loops
d = rng.normal(size=(9, 11))
P = [(0, 0), (10, 8), (5, 4), (1, 7), (10, 0)]
for kshape in ((5, 5), (5, 7), (7, 5)):
    ky, kx = kshape
    cuts = R.box_cutouts(d, P, kshape)
    km = np.zeros(kshape, bool)
    for j in range(ky):
        for i in range(kx):
            km[j, i] = ((j - ky // 2) / (ky / 2)) ** 2 + ((i - kx // 2) / (kx / 2)) ** 2 <= 1.0
    mi = R.simple_measurements('IRAF', cuts, km)
    md = R.simple_measurements('DAO', cuts, km)
    for n_, (x, y) in enumerate(P):
        e = np.zeros(kshape)
        for j in range(ky):
            for i in range(kx):
                yy, xx = y - ky // 2 + j, x - kx // 2 + i
                if 0 <= yy < 9 and 0 <= xx < 11:
                    e[j, i] = d[yy, xx]
        check(np.array_equal(cuts[n_], e), f'box_cutouts {kshape} {(x, y)}')
        check(md['peak'][n_] == d[y, x] and abs(md['flux'][n_] - e.sum()) < 1e-12 and md['npix'][n_] == ky * kx, 'dao simple')
        sky = sum(e[j, i] for j in range(ky) for i in range(kx) if not km[j, i]) / max(1, (~km).sum())
        tot = sx = sy = 0.0
        pk = 0.0
        npx = 0
        for j in range(ky):
            for i in range(kx):
                v = e[j, i] - sky
                if km[j, i] and v > 0:
                    tot += v
                    sx += v * i
                    sy += v * j
                    pk = max(pk, v)
                    npx += 1
        check(abs(mi['flux'][n_] - tot) < 1e-12 and abs(mi['peak'][n_] - pk) < 1e-12 and mi['npix'][n_] == npx, 'iraf simple')
        if tot > 0:
            check(abs(mi['xcentroid_in_box'][n_] - sx / tot) < 1e-12 and abs(mi['ycentroid_in_box'][n_] - sy / tot) < 1e-12,
                  'iraf centroid')
zero = R.simple_measurements('IRAF', np.zeros((1, 5, 5)), np.ones((5, 5), bool))
check(math.isnan(zero['xcentroid_in_box'][0]) and zero['npix'][0] == 0, 'iraf empty box')

# 6. grid_positions / grid_assign
g = dict(ox=3, oy=2, px=11, py=15, ncols=4, nrows=3, n=10)
pos = R.grid_positions(g)
check(len(pos) == 10 and list(pos[0]) == [3, 2] and list(pos[5]) == [3 + 11, 2 + 15] and list(pos[9]) == [3 + 11, 2 + 30], 'grid_positions')
for t, (x, y) in enumerate(pos):
    for dx, dy in ((0, 0), (5.4, -7.4), (-5.4, 7.4), (2.5, 3.5)):
        check(R.grid_assign([x + dx], [y + dy], g)[0] == t, f'grid_assign {t} {(dx, dy)}')
check(list(R.grid_assign([3 + 22, -9.0, 3 + 44, float('nan'), 3 + 5.6], [2 + 30, 2.0, 2.0, 2.0, 2.0], g)) == [-1, -1, -1, -1, 1],
      'grid_assign outside / unused node / nan / next node')

print('selftest peaks ref:', 'FAILED' if fail else 'ok', f'({n} peak cases)')
sys.exit(1 if fail else 0)
