#!/venv/bin/python
"""Self-test of the C03 machinery (no photutils involved): a toy "API" that obeys the
translation/transposition relation must pass the comparator, toy APIs with the classic
registration slips (x/y swapped origin, exclusive upper index, cutout-relative value
reported as absolute) must be flagged, the footprint rule must drop exactly the rows
whose footprint leaves the frame, and the scenes must be deterministic."""
import collections
import math
import os
import sys

import numpy as np

sys.path.insert(0, os.path.dirname(os.path.dirname(os.path.abspath(__file__))))
from mcphot.ref.c03_core import Identity, Shift, Transpose, make_scene, num_diff  # noqa: E402
from mcphot.ref.c03_tables import Res, compare  # noqa: E402

TABLE = {
    'xcentroid': ('x', 'ycentroid', 'pos', 'seg'),
    'ycentroid': ('y', 'xcentroid', 'pos', 'seg'),
    'centroid': ('xy', None, 'pos', 'seg'),
    'maxval_index': ('yx', None, 'exact', 'seg'),
    'bbox_xmax': ('x', 'bbox_ymax', 'exact', 'seg'),
    'bbox_ymax': ('y', 'bbox_xmax', 'exact', 'seg'),
    'flux': ('inv', None, 'rel', 'seg'),
    'orientation': ('ang_deg', None, 'rel', 'seg'),
    'moments': ('mat', None, 'mom', 'seg'),
    'edge_flux': ('inv', None, 'rel', 'edge'),
}


def toy(S, T, bug=None):
    """Per-label measurements written directly with numpy."""
    data, seg = T.img(S['data']), T.img(S['seg'])
    res = Res('toy')
    rows = collections.defaultdict(list)
    for lab in range(1, seg.max() + 1):
        ys, xs = np.nonzero(seg == lab)
        w = np.abs(data[ys, xs])             # (the scenes contain a negative segment)
        xc, yc = (w * xs).sum() / w.sum(), (w * ys).sum() / w.sum()
        if bug == 'origin-swapped':          # cutout-relative centroid + (ymin, xmin)
            xc, yc = xc - xs.min() + ys.min(), yc - ys.min() + xs.min()
        if bug == 'relative':
            xc = xc - xs.min()
        rows['xcentroid'].append(xc)
        rows['ycentroid'].append(yc)
        rows['centroid'].append((xc, yc))
        i = np.argmax(data[ys, xs])
        rows['maxval_index'].append((ys[i], xs[i]))
        rows['bbox_xmax'].append(xs.max() + (1 if bug == 'exclusive-xmax' else 0))
        rows['bbox_ymax'].append(ys.max())
        rows['flux'].append(data[ys, xs].sum())
        mxx, myy, mxy = (w * (xs - xc) ** 2).sum(), (w * (ys - yc) ** 2).sum(), (w * (xs - xc) * (ys - yc)).sum()
        th = np.degrees(0.5 * np.arctan2(2 * mxy, mxx - myy))
        # isotropic second moments (single pixel, ...): the orientation is undefined
        round_ = math.hypot(2 * mxy, mxx - myy) <= 1e-9 * max(mxx + myy, w.sum())
        if bug == 'theta-offset' and not round_ and T.kind != 'id':
            th = th + 5.0
        if bug == 'theta-round-rows-differ' and round_:
            th = 17.0 if T.kind == 'id' else 63.0
        rows['orientation'].append(th)
        rows['_round'].append(round_)
        m = np.array([[(w * (ys - ys.min()) ** i_ * (xs - xs.min()) ** j_).sum() for j_ in range(3)] for i_ in range(3)])
        rows['moments'].append(m)
        # a measurement that looks 12 px to the left of the segment (zero padding changes it)
        if T.kind == 'T':                    # (the same look-up in the transposed frame)
            y0 = ys.min() - 12
            rows['edge_flux'].append(float(data[y0, xs.min()]) if y0 >= 0 else -1.0)
        else:
            x0 = xs.min() - 12
            rows['edge_flux'].append(float(data[ys.min(), x0]) if x0 >= 0 else -1.0)
    round_ = np.array(rows.pop('_round'))
    for k, v in rows.items():
        res.add(k, np.array(v), table=TABLE)
    res.cols['orientation']['extra']['ambig'] = round_
    res.n = len(rows['flux'])
    res.foot['seg'] = np.ones(res.n, bool)
    edge = []
    for lab in range(1, S['seg'].max() + 1):
        edge.append(np.nonzero(S['seg'] == lab)[1].min() - 12 >= 0)
    res.foot['edge'] = np.array(edge)
    m = res.cols['moments']['v']
    res.cols['moments']['extra']['scale'] = np.abs(m[:, :1, :1]) * 20.0 ** np.add.outer(np.arange(3), np.arange(3))[None]
    return res


def run(S, T, bug=None):
    keys = []
    stats = collections.Counter()
    compare(None, {}, toy(S, Identity(), bug), toy(S, T, bug), T, lambda c, s, o, e, d='': keys.append(f'{c}|{s}'), stats)
    return keys, stats


def main():
    fails = []
    a, b = make_scene(1, 5), make_scene(1, 5)
    if not all(np.array_equal(a[k], b[k], equal_nan=True) for k in ('data', 'error', 'mask', 'seg', 'conv', 'data_bad')):
        fails.append('scene not deterministic')
    if np.array_equal(make_scene(1, 5)['data'], make_scene(1, 6)['data']):
        fails.append('seed ignored')
    S3 = make_scene(3, 0)       # has a source 9 px from the left edge
    for k in range(4):
        S = make_scene(k, 0)
        for T in (Shift(0, 0, 0, 0), Shift(1, 0, 0, 0), Shift(0, 3, 4, 6), Shift(5, 7, 4, 6), Transpose()):
            keys, stats = run(S, T)
            if keys:
                fails.append(f'correct toy flagged: scene {k} {T.case()} {keys[:3]}')
            if not stats['values_compared']:
                fails.append('nothing compared')
    # the footprint rule: without it the near-edge row of scene 3 would alarm
    keys, stats = run(S3, Shift(5, 7, 4, 6))
    if stats['rowvalues_excluded_by_footprint'] < 1:
        fails.append('footprint rule excluded nothing in scene 3')
    t0, t1 = toy(S3, Identity()), toy(S3, Shift(13, 0, 0, 0))
    if np.allclose(t0.cols['edge_flux']['v'], t1.cols['edge_flux']['v']):
        fails.append('edge_flux toy does not depend on the padding (self-test is vacuous)')
    # the scenes: odd segments present with the structure the check relies on; large-scale error gradient
    for k in range(8):
        S = make_scene(k, 1)
        kinds = [o['kind'] for o in S['odd']]
        if sorted(kinds) != ['diag5', 'masked9', 'neg9', 'pixel1', 'ramp12', 'row4']:
            fails.append(f'scene {k}: odd segments {kinds}')
        for o in S['odd']:
            sel = S['seg'] == o['label']
            ys, xs = np.nonzero(sel)
            vals = np.where(sel, S['data'], -np.inf)
            py, px = np.unravel_index(np.argmax(vals), vals.shape)
            interior = xs.min() < px < xs.max() and ys.min() < py < ys.max()
            n33 = int(sel[py - 1:py + 2, px - 1:px + 2].sum())
            ok = {'diag5': sel.sum() == 5 and interior and n33 < 6,
                  'pixel1': sel.sum() == 1,
                  'row4': sel.sum() == 4 and min(np.ptp(xs), np.ptp(ys)) == 0,
                  'neg9': sel.sum() == 9 and (S['data'][sel] < 0).all(),
                  'masked9': sel.sum() == 9 and S['mask'][sel].all(),
                  'ramp12': sel.sum() == 12 and not interior}[o['kind']]
            if not ok:
                fails.append(f'scene {k}: odd segment {o["kind"]} lost its structure')
            if min(xs.min(), ys.min(), S['shape'][1] - 1 - xs.max(), S['shape'][0] - 1 - ys.max()) < 10:
                fails.append(f'scene {k}: odd segment {o["kind"]} closer than 10 px to the border')
        e = S['error']
        if not (e[-8:, -8:].min() > 1.5 * e[:8, :8].max() and (e > 0).all()):
            fails.append(f'scene {k}: error map has no large-scale gradient')
    # orientation ambiguity: rows with isotropic moments accept any angle, all other rows do not
    S = make_scene(0, 0)
    for T in (Shift(2, 7, 4, 6), Transpose()):
        keys, stats = run(S, T, 'theta-round-rows-differ')
        if keys or not stats['orientation_values_ambiguous']:
            fails.append(f'undefined orientation of an isotropic row flagged / not counted: {keys}')
    for T in (Shift(2, 7, 4, 6), Transpose()):
        keys, _ = run(S, T, 'theta-offset')
        if f'{T.kind}:value|toy.orientation' not in keys:
            fails.append('wrong orientation of an elongated row not flagged')
    # classic slips must be caught
    S = make_scene(0, 0)
    want = {'origin-swapped': [Shift(1, 0, 4, 6), Shift(2, 7, 4, 6)], 'relative': [Shift(1, 0, 0, 0)],
            'exclusive-xmax': [Transpose()]}
    for bug, Ts in want.items():
        for T in Ts:
            keys, _ = run(S, T, bug)
            if not keys:
                fails.append(f'bug {bug} not detected under {T.case()}')
    # x/y symmetric slip 'exclusive-xmax' is, by construction, invisible to a pure shift
    keys, _ = run(S, Shift(2, 3, 4, 6), 'exclusive-xmax')
    if keys:
        fails.append('exclusive-xmax should be shift-covariant')
    # comparator basics
    if num_diff(np.array([1.0, np.nan]), np.array([1.0, np.nan]), 'rel') is not None:
        fails.append('NaN-aware equality')
    if num_diff(np.array([1.0, 2.0]), np.array([1.0, np.nan]), 'rel') is None:
        fails.append('NaN pattern difference missed')
    if num_diff(np.array([1, 2]), np.array([1, 3]), 'pos') is None:
        fails.append('integer outputs must be exact')
    if num_diff(np.array([89.9999999999]), np.array([-90.0]), 'rel', period=180.0) is not None:
        fails.append('angles are compared mod 180')
    if fails:
        print('C03 self-test FAILED:')
        for f in fails:
            print('  ', f)
        sys.exit(1)
    print('C03 self-test ok')


if __name__ == '__main__':
    main()
