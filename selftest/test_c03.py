#!/venv/bin/python
"""Self-test of the C03 machinery (no photutils involved): a toy "API" that obeys the
translation/transposition relation must pass the comparator, toy APIs with the classic
registration slips (x/y swapped origin, exclusive upper index, cutout-relative value
reported as absolute) must be flagged, the footprint rule must drop exactly the rows
whose footprint leaves the frame, and the scenes must be deterministic."""
import collections
import math
import os
import sys

import numpy as np

sys.path.insert(0, os.path.dirname(os.path.dirname(os.path.abspath(__file__))))
from mcphot.ref.c03_core import Identity, Shift, Transpose, make_scene, num_diff  # noqa: E402
from mcphot.ref.c03_tables import Res, compare  # noqa: E402

TABLE = {
    'xcentroid': ('x', 'ycentroid', 'pos', 'seg'),
    'ycentroid': ('y', 'xcentroid', 'pos', 'seg'),
    'centroid': ('xy', None, 'pos', 'seg'),
    'maxval_index': ('yx', None, 'exact', 'seg'),
    'bbox_xmax': ('x', 'bbox_ymax', 'exact', 'seg'),
    'bbox_ymax': ('y', 'bbox_xmax', 'exact', 'seg'),
    'flux': ('inv', None, 'rel', 'seg'),
    'orientation': ('ang_deg', None, 'rel', 'seg'),
    'moments': ('mat', None, 'mom', 'seg'),
    'edge_flux': ('inv', None, 'rel', 'edge'),
}


def toy(S, T, bug=None):
    """Per-label measurements written directly with numpy."""
    data, seg = T.img(S['data']), T.img(S['seg'])
    res = Res('toy')
    rows = collections.defaultdict(list)
    for lab in range(1, seg.max() + 1):
        ys, xs = np.nonzero(seg == lab)
        w = np.abs(data[ys, xs])             # (the scenes contain a negative segment)
        xc, yc = (w * xs).sum() / w.sum(), (w * ys).sum() / w.sum()
        if bug == 'origin-swapped':          # cutout-relative centroid + (ymin, xmin)
            xc, yc = xc - xs.min() + ys.min(), yc - ys.min() + xs.min()
        if bug == 'relative':
            xc = xc - xs.min()
        rows['xcentroid'].append(xc)
        rows['ycentroid'].append(yc)
        rows['centroid'].append((xc, yc))
        i = np.argmax(data[ys, xs])
        rows['maxval_index'].append((ys[i], xs[i]))
        rows['bbox_xmax'].append(xs.max() + (1 if bug == 'exclusive-xmax' else 0))
        rows['bbox_ymax'].append(ys.max())
        rows['flux'].append(data[ys, xs].sum())
        mxx, myy, mxy = (w * (xs - xc) ** 2).sum(), (w * (ys - yc) ** 2).sum(), (w * (xs - xc) * (ys - yc)).sum()
        th = np.degrees(0.5 * np.arctan2(2 * mxy, mxx - myy))
        # isotropic second moments (single pixel, ...): the orientation is undefined
        round_ = math.hypot(2 * mxy, mxx - myy) <= 1e-9 * max(mxx + myy, w.sum())
        if bug == 'theta-offset' and not round_ and T.kind != 'id':
            th = th + 5.0
        if bug == 'theta-round-rows-differ' and round_:
            th = 17.0 if T.kind == 'id' else 63.0
        rows['orientation'].append(th)
        rows['_round'].append(round_)
        m = np.array([[(w * (ys - ys.min()) ** i_ * (xs - xs.min()) ** j_).sum() for j_ in range(3)] for i_ in range(3)])
        rows['moments'].append(m)
        # a measurement that looks 12 px to the left of the segment (zero padding changes it)
        if T.kind == 'T':                    # (the same look-up in the transposed frame)
            y0 = ys.min() - 12
            rows['edge_flux'].append(float(data[y0, xs.min()]) if y0 >= 0 else -1.0)
        else:
            x0 = xs.min() - 12
            rows['edge_flux'].append(float(data[ys.min(), x0]) if x0 >= 0 else -1.0)
    round_ = np.array(rows.pop('_round'))
    for k, v in rows.items():
        res.add(k, np.array(v), table=TABLE)
    res.cols['orientation']['extra']['ambig'] = round_
    res.n = len(rows['flux'])
    res.foot['seg'] = np.ones(res.n, bool)
    edge = []
    for lab in range(1, S['seg'].max() + 1):
        edge.append(np.nonzero(S['seg'] == lab)[1].min() - 12 >= 0)
    res.foot['edge'] = np.array(edge)
    m = res.cols['moments']['v']
    res.cols['moments']['extra']['scale'] = np.abs(m[:, :1, :1]) * 20.0 ** np.add.outer(np.arange(3), np.arange(3))[None]
    return res


def run(S, T, bug=None):
    keys = []
    stats = collections.Counter()
    compare(None, {}, toy(S, Identity(), bug), toy(S, T, bug), T, lambda c, s, o, e, d='': keys.append(f'{c}|{s}'), stats)
    return keys, stats


def main():
    fails = []
    a, b = make_scene(1, 5), make_scene(1, 5)
    if not all(np.array_equal(a[k], b[k], equal_nan=True) for k in ('data', 'error', 'mask', 'seg', 'conv', 'data_bad')):
        fails.append('scene not deterministic')
    if np.array_equal(make_scene(1, 5)['data'], make_scene(1, 6)['data']):
        fails.append('seed ignored')
    S3 = make_scene(3, 0)       # has a source 9 px from the left edge
    for k in range(4):
        S = make_scene(k, 0)
        for T in (Shift(0, 0, 0, 0), Shift(1, 0, 0, 0), Shift(0, 3, 4, 6), Shift(5, 7, 4, 6), Transpose()):
            keys, stats = run(S, T)
            if keys:
                fails.append(f'correct toy flagged: scene {k} {T.case()} {keys[:3]}')
            if not stats['values_compared']:
                fails.append('nothing compared')
    # the footprint rule: without it the near-edge row of scene 3 would alarm
    keys, stats = run(S3, Shift(5, 7, 4, 6))
    if stats['rowvalues_excluded_by_footprint'] < 1:
        fails.append('footprint rule excluded nothing in scene 3')
    t0, t1 = toy(S3, Identity()), toy(S3, Shift(13, 0, 0, 0))
    if np.allclose(t0.cols['edge_flux']['v'], t1.cols['edge_flux']['v']):
        fails.append('edge_flux toy does not depend on the padding (self-test is vacuous)')
    # the scenes: odd segments present with the structure the check relies on; large-scale error gradient
    for k in range(8):
        S = make_scene(k, 1)
        kinds = [o['kind'] for o in S['odd']]
        if sorted(kinds) != ['diag5', 'masked9', 'neg9', 'pixel1', 'ramp12', 'row4']:
            fails.append(f'scene {k}: odd segments {kinds}')
        for o in S['odd']:
            sel = S['seg'] == o['label']
            ys, xs = np.nonzero(sel)
            vals = np.where(sel, S['data'], -np.inf)
            py, px = np.unravel_index(np.argmax(vals), vals.shape)
            interior = xs.min() < px < xs.max() and ys.min() < py < ys.max()
            n33 = int(sel[py - 1:py + 2, px - 1:px + 2].sum())
            ok = {'diag5': sel.sum() == 5 and interior and n33 < 6,
                  'pixel1': sel.sum() == 1,
                  'row4': sel.sum() == 4 and min(np.ptp(xs), np.ptp(ys)) == 0,
                  'neg9': sel.sum() == 9 and (S['data'][sel] < 0).all(),
                  'masked9': sel.sum() == 9 and S['mask'][sel].all(),
                  'ramp12': sel.sum() == 12 and not interior}[o['kind']]
            if not ok:
                fails.append(f'scene {k}: odd segment {o["kind"]} lost its structure')
            if min(xs.min(), ys.min(), S['shape'][1] - 1 - xs.max(), S['shape'][0] - 1 - ys.max()) < 10:
                fails.append(f'scene {k}: odd segment {o["kind"]} closer than 10 px to the border')
        e = S['error']
        if not (e[-8:, -8:].min() > 1.5 * e[:8, :8].max() and (e > 0).all()):
            fails.append(f'scene {k}: error map has no large-scale gradient')
    # orientation ambiguity: rows with isotropic moments accept any angle, all other rows do not
    S = make_scene(0, 0)
    for T in (Shift(2, 7, 4, 6), Transpose()):
        keys, stats = run(S, T, 'theta-round-rows-differ')
        if keys or not stats['orientation_values_ambiguous']:
            fails.append(f'undefined orientation of an isotropic row flagged / not counted: {keys}')
    for T in (Shift(2, 7, 4, 6), Transpose()):
        keys, _ = run(S, T, 'theta-offset')
        if f'{T.kind}:value|toy.orientation' not in keys:
            fails.append('wrong orientation of an elongated row not flagged')
    # classic slips must be caught
    S = make_scene(0, 0)
    want = {'origin-swapped': [Shift(1, 0, 4, 6), Shift(2, 7, 4, 6)], 'relative': [Shift(1, 0, 0, 0)],
            'exclusive-xmax': [Transpose()]}
    for bug, Ts in want.items():
        for T in Ts:
            keys, _ = run(S, T, bug)
            if not keys:
                fails.append(f'bug {bug} not detected under {T.case()}')
    # x/y symmetric slip 'exclusive-xmax' is, by construction, invisible to a pure shift
    keys, _ = run(S, Shift(2, 3, 4, 6), 'exclusive-xmax')
    if keys:
        fails.append('exclusive-xmax should be shift-covariant')
    # BORDER ALPHABET: every (edge, d) present once, brightest pixel of the star image at the nominal pixel, >= 9 px
    # from the neighbouring edges; detection-pixel recovery (numpy toy finders) finds exactly the pixel used
    from mcphot.ref.c03_core import EDGE_D, EDGE_NAMES, dao_peak_pixels, starfinder_peak_pixels
    for k in range(8):
        S = make_scene(k, 2)
        ny, nx = S['shape']
        if sorted((e['edge'], e['d']) for e in S['edge']) != sorted((a, d) for a in EDGE_NAMES for d in EDGE_D):
            fails.append(f'scene {k}: edge-star alphabet incomplete')
        stars = S['fdata'] - S['data']
        for e in S['edge']:
            dist = {'bottom': e['iy'], 'top': ny - 1 - e['iy'], 'left': e['ix'], 'right': nx - 1 - e['ix']}[e['edge']]
            other = (min(e['ix'], nx - 1 - e['ix']) if e['edge'] in ('bottom', 'top') else min(e['iy'], ny - 1 - e['iy']))
            y0, x0 = max(e['iy'] - 2, 0), max(e['ix'] - 2, 0)
            win = stars[y0:e['iy'] + 3, x0:e['ix'] + 3]
            py, px = np.unravel_index(np.argmax(win), win.shape)
            if dist != e['d'] or other < 9 or (px + x0, py + y0) != (e['ix'], e['iy']):
                fails.append(f'scene {k}: edge star {e["edge"]}/{e["d"]} misplaced')
    S = make_scene(1, 0)
    for T in (Identity(), Shift(5, 7, 4, 6)):
        data = T.img(S['fdata'])
        px_, py_ = T.ipos([e['ix'] for e in S['edge']], [e['iy'] for e in S['edge']])
        ky, kx = 5, 9
        pad = np.pad(np.maximum(data, 0.0), ((2, 2), (4, 4)))
        yy, xx = np.mgrid[-2:3, -4:5].astype(float)
        xc, yc, fl, pk = [], [], [], []
        for x, y in zip(px_, py_):
            box = pad[y:y + ky, x:x + kx]
            fl.append(box.sum())
            xc.append((box * xx).sum() / box.sum() + x)
            yc.append((box * yy).sum() / box.sum() + y)
            pk.append(data[y, x])
        cands = starfinder_peak_pixels(data, np.array(xc), np.array(yc), np.array(fl), (ky, kx))
        true = list(zip(px_.tolist(), py_.tolist()))
        # (several candidates only where a neighbouring box differs by columns without a positive pixel: allowed,
        # but most rows must be unique)
        if not all(t in c for t, c in zip(true, cands)) or sum(len(c) == 1 for c in cands) < 20:
            fails.append(f'starfinder_peak_pixels does not recover the box centres under {T.case()}')
        # a centroid shifted by up to half a kernel still leads back to the pixel holding the peak value
        cands = dao_peak_pixels(data, np.array(px_) + 4.4, np.array(py_) - 2.4, np.array(pk), (ky, kx))
        if cands != [[t] for t in true]:
            fails.append(f'dao_peak_pixels does not recover the peak pixels under {T.case()}')
        # ambiguity is reported, not guessed: a value that occurs twice in the window / a flux nobody reproduces
        d2 = data.copy()
        d2[py_[3] + 1, px_[3] + 1] = d2[py_[3], px_[3]]
        if len(dao_peak_pixels(d2, np.array(px_[3:4], float), np.array(py_[3:4], float), np.array(pk[3:4]),
                               (ky, kx))[0]) != 2:
            fails.append('dao_peak_pixels guessed among tied candidates')
        if starfinder_peak_pixels(data, np.array(xc[:1]), np.array(yc[:1]), np.array(fl[:1]) * 1.01, (ky, kx))[0]:
            fails.append('starfinder_peak_pixels accepted a box with another flux')
    # comparator basics
    if num_diff(np.array([1.0, np.nan]), np.array([1.0, np.nan]), 'rel') is not None:
        fails.append('NaN-aware equality')
    if num_diff(np.array([1.0, 2.0]), np.array([1.0, np.nan]), 'rel') is None:
        fails.append('NaN pattern difference missed')
    if num_diff(np.array([1, 2]), np.array([1, 3]), 'pos') is None:
        fails.append('integer outputs must be exact')
    if num_diff(np.array([89.9999999999]), np.array([-90.0]), 'rel', period=180.0) is not None:
        fails.append('angles are compared mod 180')
    if fails:
        print('C03 self-test FAILED:')
        for f in fails:
            print('  ', f)
        sys.exit(1)
    print('C03 self-test ok')


if __name__ == '__main__':
    main()
