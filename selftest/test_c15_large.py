"""Self-test of mcphot.ref.c15_large (helpers of the C15 large-reduction family) and of the tolerance policy of
mcphot.props.c15 for it: a float32 running sum over the image must fail, pairwise / float64 accumulation must pass."""
import os
import sys

import numpy as np

sys.path.insert(0, os.path.dirname(os.path.dirname(os.path.abspath(__file__))))
from mcphot.props import c15                   # noqa: E402
from mcphot.ref import c15_large as L          # noqa: E402
from mcphot.ref import registry as R           # noqa: E402

fails = []


def check(ok, msg):
    if not ok:
        fails.append(msg)
        print('FAIL', msg)


for domain in L.PEDESTAL:
    d, e = L.image(0, domain)
    check(d.shape == L.SHAPE and np.array_equal(d, np.round(d)) and np.array_equal(e, np.round(e)), f'{domain}: integer valued')
    check(abs(d.mean() - L.PEDESTAL[domain]) < 0.1 and abs(d.std() - L.NOISE_SIGMA) < 0.1, f'{domain}: pedestal / sigma')
    check(e.min() >= 4 and e.max() <= 7, 'error map range')
check(L.image(0, 'byte')[0].max() <= 127 and L.image(0, 'byte')[0].min() >= 0, 'byte domain fits int8')
check(not np.array_equal(L.image(0, 'full')[0], L.image(1, 'full')[0]), 'the seed chooses the noise')

# every representation holds exactly the numbers of the float64 image, in the stated dtype / layout
d, _ = L.image(0, 'full')
for rep in L.REPS_THOROUGH + L.QUANTITY_REPS:
    dom = L.domain_of(rep)
    a = L.image(0, dom)[0]
    b = L.represent(a, rep)
    v = np.asarray(getattr(b, 'value', b))
    check(np.array_equal(v.astype(float), a), f'{rep}: same numbers')
    dt = L.dtype_of(rep)
    if dt is not None:
        check(v.dtype.str == R.DTYPE_OF_REP[dt], f'{rep}: dtype {v.dtype.str}')
    if rep.endswith('@F') or rep == 'F':
        check(v.flags.f_contiguous and not v.flags.c_contiguous, f'{rep}: Fortran order')
    if rep.endswith('strided'):
        check(not v.flags.c_contiguous and not v.flags.f_contiguous and v.base is not None, f'{rep}: strided view')
check(L.domain_of('u1') == 'byte' and L.domain_of('i1') == 'byte' and L.domain_of('u2') == 'full', 'value domains')
check(not L.holds_nan('i2') and L.holds_nan('f4') and L.holds_nan('be') and L.holds_nan('F'), 'NaN only in floating-point types')
try:
    L.represent(d, 'u1')
    check(False, 'uint8 cannot hold the full-domain image')
except AssertionError:
    pass

# sigma-clipping tie detector: n values -1, n values +1 and the pair -b, +b with b = 3 std exactly (a tie at the bound)
n = 1000
b = np.sqrt(18.0 * n / (2.0 * n - 16.0))
tie = np.array([-1.0] * n + [1.0] * n + [-b, b])
check(abs(3 * np.std(tie) - b) < 1e-12, 'tie construction')
check(L.clip_margin(tie) < 1e-9, 'clip_margin sees a tie')
check(L.clip_margin(np.array([-1.0] * n + [1.0] * n)) > 1.9, 'clip_margin: no tie (bounds at +-3, values at +-1)')
near = np.array([-1.0] * n + [1.0] * n + [-b - 0.01, b + 0.01])
check(1e-3 < L.clip_margin(near) < 2e-2, f'clip_margin near a tie: {L.clip_margin(near):.3g}')
x = np.array([np.nan, -1.0, 1.0] * 50)
check(np.isfinite(L.clip_margin(x)), 'clip_margin ignores NaN')

# tolerance policy: float32 running sum fails, pairwise float32 / float64 accumulation pass
x = d.astype('<f4')
exact = d.sum()
running = float(np.add.accumulate(x.ravel(), dtype=np.float32)[-1])
pairwise = float(np.sum(x, dtype=np.float32))
ent = L.ENTRIES['large/_stats.nansum[axis=None]']
rtol = c15.large_rtol(ent, 'f4')
check(abs(running - exact) / exact > 100 * rtol, f'float32 running sum is off by {abs(running - exact) / exact:.2e} (must fail rtol {rtol:g})')
check(abs(pairwise - exact) / exact < rtol / 10, f'float32 pairwise sum is off by {abs(pairwise - exact) / exact:.2e} (must pass)')
col = np.add.accumulate(x, axis=0, dtype=np.float32)[-1].astype(float)
check(np.max(np.abs(col - d.sum(axis=0)) / d.sum(axis=0)) < c15.large_rtol(L.ENTRIES['large/_stats.nansum[axis=0]'], 'f4'),
      'float32 running sum along an axis of 1024 pixels passes the axis tolerance')
check(c15.large_rtol(ent, 'be') == c15.RTOL_LARGE_F8 and c15.large_rtol(ent, 'i2') == c15.RTOL_LARGE
      and c15.large_rtol(L.ENTRIES['large/calc_total_error'], 'F') == c15.RTOL, 'tolerance classes')
i2 = d.astype('<i2')
check(float(np.add.accumulate(i2.ravel(), dtype=np.int16)[-1]) != exact, 'an int16 accumulator overflows on this image')

# the plan contains every (entry group, representation) exactly once
for tier in ('quick', 'thorough'):
    units = [u for u in c15.plan(tier, 0) if 'large' in u]
    for g in L.GROUPS:
        reps = sorted(r for u in units if u['large'] == g for r in u['reps'])
        check(reps == sorted(L.reps_of(g, tier)), f'{tier}: plan covers group {g}')

print('test_c15_large:', 'FAILED' if fails else 'ok')
sys.exit(1 if fails else 0)
