"""Self-test of the C09 harness (mcphot/ref/c09_common.py + mcphot/props/c09.py).

The differential oracle is only as good as (a) the state key (must be reproducible for equal states, must
differ when a cache or a hidden field differs, must not contain unmergeable tokens), (b) compare() and
(c) the ability of a system to see a seeded history dependence.  (c) is tested on toy classes that have
exactly the defect patterns C09 looks for -- no photutils code is patched.
Plain script; exits non-zero on failure.
"""
import os
import sys
import warnings

import numpy as np

sys.path.insert(0, os.path.dirname(os.path.dirname(os.path.abspath(__file__))))
warnings.simplefilter('ignore')
from mcphot.explorer import explore  # noqa: E402
from mcphot.props import c09  # noqa: E402
from mcphot.ref.c09_common import CallSystem, Raised, compare, dig, state_key  # noqa: E402
from mcphot.runner import Acc  # noqa: E402

fails = []


def check(cond, what):
    if not cond:
        fails.append(what)


# (a) state keys ------------------------------------------------------------------------------------
cfg = {'filter_threshold': 'inside', 'filter_size': 3, 'interp': 'idw', 'exclude_percentile': 10, 'mask': True,
       'coverage': True, 'units': True}
s = c09.BkgSystem(cfg, 0)
a, b = s.make(), s.make()
ka, kb = state_key(vars(a), []), state_key(vars(b), [])
check(ka == kb, 'equal Background2D states have different keys')
check('HIST' not in repr(ka), 'key fell back on history')
from mcphot.snapshot import digest  # noqa: E402
from mcphot.ref.c09_common import norm  # noqa: E402
check('<unmergeable' not in repr(digest(norm(dict(vars(a))))), 'Background2D state contains unmergeable values')
_ = a.background_rms_mesh
check(state_key(vars(a), []) != kb, 'cached lazy attribute / dropped statistics not visible in the key')
b._bkg_stats = None
check(state_key(vars(b), []) != kb, 'hidden field _bkg_stats not visible in the key')
for kind, c in [('psf', c09.PSF_CONFIGS[2]), ('psf', c09.PSF_CONFIGS[6]), ('finder', c09.SF_CONFIGS[2]),
                ('ellipse', {'geometry': True, 'ncalls': 4}), ('localbkg', {}), ('gridded', {}),
                ('profile', c09.PROF_CONFIGS[2]), ('aperture', {'cls': 'EllipticalAnnulus'})]:
    sysm = c09.make_system(kind, c, 0)
    st1, st2 = sysm.initial(), sysm.initial()
    k1, k2 = sysm.canon(st1), sysm.canon(st2)
    check(k1 == k2, f'{kind}: two fresh objects have different state keys')
    st1.hist.append(('x',))
    check(sysm.canon(st1) == k1, f'{kind}: state key depends on the history (unmergeable value in __dict__)')

# configuration digests ignore private bookkeeping but see public changes
from astropy.stats import SigmaClip  # noqa: E402
sc = SigmaClip(3.0)
d0 = dig(sc)
sc(np.arange(10.0))
check(dig(sc) == d0, 'SigmaClip bookkeeping leaks into configuration digests')
sc.sigma = 2.0
check(dig(sc) != d0, 'public configuration change not seen')

# (b) compare --------------------------------------------------------------------------------------
check(compare(np.array([1.0, np.nan]), np.array([1.0, np.nan])) is None, 'NaN-aware equality')
check(compare(np.array([1.0]), np.array([1.0 + 1e-15])) is not None, 'bit-exact compare misses 1e-15')
check(compare(np.array([1.0]), np.array([1.0 + 1e-15]), rtol=1e-12) is None, 'rtol not honoured')
check(compare(Raised(ValueError('a')), Raised(ValueError('b'))) is None, 'same exception type must be equal')
check(compare(Raised(TypeError('a')), np.array([1.0]))[0] == 'raises', 'raise vs value')
check(compare(Raised(TypeError('a')), Raised(ValueError('a')))[0] == 'raises-differently', 'different exception types')


# (c) seeded toy defects ---------------------------------------------------------------------------
class Toy:
    """call(x) -> x * gain; 'poison' calls permanently change the configuration (like grouper = None)."""

    def __init__(self, leak):
        self.gain = 2.0
        self.leak = leak
        self.last = None

    def __call__(self, x, poison=False):
        if poison and self.leak:
            self.gain = 3.0
        g = 3.0 if poison else self.gain
        self.last = x * g
        return self.last


class ToySystem(CallSystem):
    name = 'Toy'

    def __init__(self, leak):
        super().__init__()
        self.leak = leak

    def make(self):
        return Toy(self.leak)

    def calls(self):
        return [('call', 1.0, False), ('call', 2.0, True)]

    def config(self, obj):
        return {'gain': obj.gain}

    def do(self, obj, op):
        return obj(op[1], poison=op[2])


for leak in (False, True):
    acc = Acc()
    explore(ToySystem(leak), 3, acc, extra={'sys': 'toy'})
    keys = sorted({v['key'] for v in acc.violations})
    if leak:
        check(keys == ['call-differs-from-fresh|Toy.call:dirty=gain', 'config-changed|Toy.gain'], f'toy leak keys: {keys}')
    else:
        check(keys == [], f'toy without leak reports {keys}')
        check(acc.transitions > 0 and len(acc.state_keys) >= 2, 'toy exploration vacuous')

if fails:
    print('FAIL')
    for f in fails:
        print('  ', f)
    sys.exit(1)
print('ok test_c09_harness')
