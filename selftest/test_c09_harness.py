"""Self-test of the C09 harness (mcphot/ref/c09_common.py + mcphot/props/c09.py).

The differential oracle is only as good as (a) the state key (must be reproducible for equal states, must
differ when a cache or a hidden field differs, must not contain unmergeable tokens), (b) compare() and
(c) the ability of a system to see a seeded history dependence.  (c) is tested on toy classes that have
exactly the defect patterns C09 looks for -- no photutils code is patched.
Plain script; exits non-zero on failure.
"""
import os
import sys
import warnings

import numpy as np

sys.path.insert(0, os.path.dirname(os.path.dirname(os.path.abspath(__file__))))
warnings.simplefilter('ignore')
from mcphot.explorer import explore  # noqa: E402
from mcphot.props import c09  # noqa: E402
from mcphot.ref.c09_common import CallSystem, Raised, compare, dig, state_key  # noqa: E402
from mcphot.runner import Acc  # noqa: E402

fails = []


def check(cond, what):
    if not cond:
        fails.append(what)


# (a) state keys ------------------------------------------------------------------------------------
cfg = {'filter_threshold': 'inside', 'filter_size': 3, 'interp': 'idw', 'exclude_percentile': 10, 'mask': True,
       'coverage': True, 'units': True}
s = c09.BkgSystem(cfg, 0)
a, b = s.make(), s.make()
ka, kb = state_key(vars(a), []), state_key(vars(b), [])
check(ka == kb, 'equal Background2D states have different keys')
check('HIST' not in repr(ka), 'key fell back on history')
from mcphot.snapshot import digest  # noqa: E402
from mcphot.ref.c09_common import norm  # noqa: E402
check('<unmergeable' not in repr(digest(norm(dict(vars(a))))), 'Background2D state contains unmergeable values')
_ = a.background_rms_mesh
check(state_key(vars(a), []) != kb, 'cached lazy attribute / dropped statistics not visible in the key')
b._bkg_stats = None
check(state_key(vars(b), []) != kb, 'hidden field _bkg_stats not visible in the key')
for kind, c in [('psf', c09.PSF_CONFIGS[2]), ('psf', c09.PSF_CONFIGS[6]), ('finder', c09.SF_CONFIGS[2]),
                ('ellipse', {'geometry': 'preset'}), ('localbkg', {}), ('gridded', {}),
                ('profile', c09.PROF_CONFIGS[2]), ('aperture', {'cls': 'EllipticalAnnulus'}),
                ('aperture', {'cls': 'CircularAperture', 'ctor': 'ndarray'}), ('psf', c09.PSF_CONFIGS[7]),
                ('psf', c09.PSF_CONFIGS[9])]:
    sysm = c09.make_system(kind, c, 0)
    st1, st2 = sysm.initial(), sysm.initial()
    k1, k2 = sysm.canon(st1), sysm.canon(st2)
    check(k1 == k2, f'{kind}: two fresh objects have different state keys')
    st1.hist.append(('x',))
    check(sysm.canon(st1) == k1, f'{kind}: state key depends on the history (unmergeable value in __dict__)')

# configuration digests ignore private bookkeeping but see public changes
from astropy.stats import SigmaClip  # noqa: E402
sc = SigmaClip(3.0)
d0 = dig(sc)
sc(np.arange(10.0))
check(dig(sc) == d0, 'SigmaClip bookkeeping leaks into configuration digests')
sc.sigma = 2.0
check(dig(sc) != d0, 'public configuration change not seen')

# the configuration digest of a PSF model follows its parameter VALUES and fixed flags, not its identity
from photutils.psf import CircularGaussianPRF  # noqa: E402
m1, m2 = CircularGaussianPRF(fwhm=2.4), CircularGaussianPRF(fwhm=2.4)
check(dig(m1) == dig(m2), 'equal PSF models have different configuration digests')
m2.fwhm = 2.9
check(dig(m1) != dig(m2), 'a changed parameter value of the PSF model is not seen by the configuration digest')
m2.fwhm = 2.4
m2.x_0 = 3.0
check(dig(m1) != dig(m2), 'a changed position value of the PSF model is not seen by the configuration digest')
m2.x_0 = 0.0
m2.fwhm.fixed = False
check(dig(m1) != dig(m2), 'a changed fixed flag of the PSF model is not seen by the configuration digest')

# aperture positions containers and the caller's in-place writes: the ndarray handed over is float64 (the only
# container an aperture could keep without converting), a write really changes the container handed over, and a
# copy taken before does not move
for val in c09.AP_POS:
    for rep in c09.AP_REPS:
        for how in c09.AP_CALLER_WRITES:
            cont = c09._ap_container(val, rep)
            before = np.array(cont, dtype=float)
            check(np.array_equal(before, np.array(val, dtype=float)), f'container {rep} of {val} has other values')
            if rep == 'ndarray':
                check(isinstance(cont, np.ndarray) and cont.dtype == np.float64, 'ndarray representation is not float64')
            c09._ap_caller_write(cont, how)
            check(not np.array_equal(np.array(cont, dtype=float), before), f'caller write {how} into {rep} changed nothing')
st = c09.make_system('aperture', {'cls': 'CircularAperture', 'ctor': 'ndarray'}, 0).initial()
check(isinstance(st.aux['caller'], np.ndarray), 'ndarray constructor system does not keep the caller array')
sysm = c09.make_system('aperture', {'cls': 'CircularAperture'}, 0)
st = sysm.initial()
k0 = sysm.canon(st)
sysm.apply(st, ('set', 'positions', 0, 'ndarray'), lambda *a, **k: None)
check(isinstance(st.aux['caller'], np.ndarray) and not st.aux['caller_wrote'], 'setter does not record the caller array')
k1 = sysm.canon(st)
sysm.apply(st, ('caller_writes', 'shift-all'), lambda *a, **k: fails.append(f'unexpected report {a}'))
check(st.aux['caller_wrote'] and st.aux['vals']['positions'] == c09.AP_POS[0], 'caller write changed the values as passed')

# result-consuming requests are enabled only once the history holds a call, and at most PSF_MAX_RESULT_OPS of them
ps = c09.make_system('psf', c09.PSF_CONFIGS[6], 0)


class _H:
    def __init__(self, hist):
        self.hist = hist


call = ps.calls()[0]
res = c09.PSF_RESULT_OPS
check(all(o[0] == 'call' for o in ps.ops(_H([]))), 'result requests enabled before any call')
check(set(res) <= set(ps.ops(_H([call]))), 'result requests not enabled after a call')
check(set(res) <= set(ps.ops(_H([call, res[1]]))), 'second result request not enabled')
check(not (set(res) & set(ps.ops(_H([call, res[1], res[0]])))), 'more than PSF_MAX_RESULT_OPS result requests')
check(not (set(res) & set(ps.ops(_H([call, call])))), 'quick tier: result requests after two calls')
pt = c09.make_system('psf', c09.PSF_CONFIGS[6], 0, 'thorough')
check(set(res) <= set(pt.ops(_H([call, call]))), 'thorough tier: result requests not enabled after two calls')
check(ps.last_call([call, res[0], ps.calls()[1], res[1]]) == ps.calls()[1], 'last_call')
check(not ps.nontrivial((call, res[0])) and ps.nontrivial((call, res[0], res[1])) and ps.nontrivial((call, call)),
      'nontrivial rule of the photometry histories')

# (b) compare --------------------------------------------------------------------------------------
check(compare(np.array([1.0, np.nan]), np.array([1.0, np.nan])) is None, 'NaN-aware equality')
check(compare(np.array([1.0]), np.array([1.0 + 1e-15])) is not None, 'bit-exact compare misses 1e-15')
check(compare(np.array([1.0]), np.array([1.0 + 1e-15]), rtol=1e-12) is None, 'rtol not honoured')
check(compare(Raised(ValueError('a')), Raised(ValueError('b'))) is None, 'same exception type must be equal')
check(compare(Raised(TypeError('a')), np.array([1.0]))[0] == 'raises', 'raise vs value')
check(compare(Raised(TypeError('a')), Raised(ValueError('a')))[0] == 'raises-differently', 'different exception types')


# (c) seeded toy defects ---------------------------------------------------------------------------
class Toy:
    """call(x) -> x * gain; 'poison' calls permanently change the configuration (like grouper = None)."""

    def __init__(self, leak):
        self.gain = 2.0
        self.leak = leak
        self.last = None

    def __call__(self, x, poison=False):
        if poison and self.leak:
            self.gain = 3.0
        g = 3.0 if poison else self.gain
        self.last = x * g
        return self.last


class ToySystem(CallSystem):
    name = 'Toy'

    def __init__(self, leak):
        super().__init__()
        self.leak = leak

    def make(self):
        return Toy(self.leak)

    def calls(self):
        return [('call', 1.0, False), ('call', 2.0, True)]

    def config(self, obj):
        return {'gain': obj.gain}

    def do(self, obj, op):
        return obj(op[1], poison=op[2])


for leak in (False, True):
    acc = Acc()
    explore(ToySystem(leak), 3, acc, extra={'sys': 'toy'})
    keys = sorted({v['key'] for v in acc.violations})
    if leak:
        check(keys == ['call-differs-from-fresh|Toy.call:dirty=gain', 'config-changed|Toy.gain'], f'toy leak keys: {keys}')
    else:
        check(keys == [], f'toy without leak reports {keys}')
        check(acc.transitions > 0 and len(acc.state_keys) >= 2, 'toy exploration vacuous')



# (d) exceptional exits: a per-call override that is restored on the normal exit only ---------------
class Toy2:
    """call(x, boost) multiplies by gain; boost overrides gain for this call only.  ``leak`` names the exit on
    which the restore is forgotten: 'empty' (x == 0 -> early return None) or 'raise' (x < 0 -> ValueError)."""

    def __init__(self, leak):
        self.gain = 2.0
        self.leak = leak

    def __call__(self, x, boost=False):
        saved = self.gain
        if boost:
            self.gain = 5.0
        if x == 0:
            if self.leak != 'empty':
                self.gain = saved
            return None
        if x < 0:
            if self.leak != 'raise':
                self.gain = saved
            raise ValueError('negative')
        out = x * self.gain
        self.gain = saved
        return out


class Toy2System(CallSystem):
    name = 'Toy2'

    def __init__(self, leak, xs):
        super().__init__()
        self.leak, self.xs = leak, xs

    def make(self):
        return Toy2(self.leak)

    def calls(self):
        return [('call', x, b) for x in self.xs for b in (False, True)]

    def config(self, obj):
        return {'gain': obj.gain}

    def expected_invalid(self, op):
        return op[1] < 0

    def do(self, obj, op):
        return obj(op[1], boost=op[2])


for leak, want in (('empty', 'config-changed|Toy2.gain:after-empty-result'), ('raise', 'config-changed|Toy2.gain:after-raised'),
                   (None, None)):
    # an alphabet of normal requests only cannot see the leak ...
    acc = Acc()
    explore(Toy2System(leak, [1.0, 3.0]), 2, acc, extra={'sys': 'toy2'})
    check(not acc.violations, f'toy2 leak={leak}: normal-only alphabet reports {sorted({v["key"] for v in acc.violations})}')
    # ... the alphabet with one request per exit class does, under a key that names the exit
    acc = Acc()
    sysm = Toy2System(leak, [1.0, 0.0, -1.0])
    explore(sysm, 2, acc, extra={'sys': 'toy2'})
    keys = sorted({v['key'] for v in acc.violations})
    if leak:
        check(keys == ['call-differs-from-fresh|Toy2.call:dirty=gain', want], f'toy2 leak={leak} keys: {keys}')
    else:
        check(keys == [], f'toy2 without leak reports {keys}')
    c = sysm.counters
    check(c.get('calls_exit_raised', 0) > 0 and c.get('calls_exit_empty-result', 0) > 0 and c.get('calls_exit_normal', 0) > 0,
          f'toy2: exit classes not counted: {c}')
    if leak:
        check(c.get('calls_straight_after_exit_' + ('raised' if leak == 'raise' else 'empty-result'), 0) > 0,
              f'toy2 leak={leak}: no request executed straight after the exceptional exit: {c}')

# every CallSystem alphabet of the module holds at least one request that leaves by an exceptional exit on a
# FRESH object (measured), and the Ellipse alphabet reaches all four ways out of fit_image
for kind, c in [('psf', c09.PSF_CONFIGS[0]), ('psf', c09.PSF_CONFIGS[4]), ('finder', c09.SF_CONFIGS[0]),
                ('finder', c09.SF_CONFIGS[6]), ('ellipse', {'geometry': 'default'}), ('ellipse', {'geometry': 'preset'}),
                ('localbkg', {})]:
    sysm = c09.make_system(kind, c, 0)
    tags = set()
    for op in sysm.calls():
        if kind == 'psf' and not (op[1] == 'Z' or sysm.expected_invalid(op)):
            continue        # ordinary (slow) fits are not executed here
        if kind == 'ellipse' and not (op[0] == 'fit_image' and (op[1] in ('nofit', 'raise') or op[2].startswith('fix_all'))):
            continue
        tags.add(sysm.exit_tag(op, sysm.fresh(op)))
    need = {'ellipse': {'raised', 'everything-fixed', 'no-meaningful-fit'}}.get(kind, {'raised', 'empty-result'})
    check(need <= tags, f'{kind} {c}: exit classes reached on a fresh object {sorted(tags)}, wanted {sorted(need)}')

if fails:
    print('FAIL')
    for f in fails:
        print('  ', f)
    sys.exit(1)
print('ok test_c09_harness')
