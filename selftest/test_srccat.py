#!/venv/bin/python
"""Self-test of the C07 reference model (mcphot/ref/srccat.py).

The plain-Python definitions are cross-checked against an even more naive,
independently written numpy formulation (explicit coordinate grids, numpy sums,
numpy.linalg for the eigen decomposition) on exhaustive tiny inputs and on
hand-computed examples.  Exits non-zero on the first disagreement.
"""
import itertools
import math
import os
import sys

import numpy as np

sys.path.insert(0, os.path.dirname(os.path.dirname(os.path.abspath(__file__))))
from mcphot.ref import srccat  # noqa: E402

fails = 0


def check(cond, msg):
    global fails
    if not cond:
        fails += 1
        print('FAIL', msg)


def eq(a, b, tol=1e-9):
    a, b = float(a), float(b)
    if math.isnan(a) or math.isnan(b):
        return math.isnan(a) and math.isnan(b)
    return abs(a - b) <= tol * (1 + abs(b))


# 1. hand-computed example: two pixels (x=1,y=0,w=1) and (x=3,y=0,w=3) in one row
r = srccat.ref_row(1, [[0, 1, 0, 1]], [[9.0, 1.0, 9.0, 3.0]])
m = r['moment']
check(r['segment_flux'] == 4.0 and r['area'] == 2.0 and r['bbox_xmin'] == 1 and r['bbox_xmax'] == 3, 'flux/area/bbox')
check(eq(m['centroid'][0], 1 + (0 * 1 + 2 * 3) / 4.0) and m['centroid'][1] == 0.0, 'centroid')
# variance along x: sum w (x - 1.5)^2 / 4 = (2.25 + 3*0.25)/4 = 0.75 ; y variance 0 -> det 0 -> +1/12 on both
check(eq(m['covariance'][0][0], 0.75 + 1 / 12) and eq(m['covariance'][1][1], 1 / 12) and m['covariance'][0][1] == 0.0,
      'regularised covariance of a horizontal line')
check(eq(m['orientation'], 0.0) and eq(m['semimajor_sigma'], math.sqrt(0.75 + 1 / 12)), 'orientation / semimajor')
check(r['minval_index'] == (0, 1) and r['maxval_index'] == (0, 3), 'min/max index')
# single pixel: covariance = I/12 exactly (one regularisation step), eccentricity 0
m1 = srccat.ref_row(2, [[0, 2], [0, 0]], [[5.0, 2.5], [1.0, 1.0]])['moment']
check(m1['covariance'] == [[1 / 12, 0.0], [0.0, 1 / 12]] and m1['eccentricity'] == 0.0, 'single pixel')
# first occurrence among ties, raster order
rt = srccat.ref_row(1, [[1, 1], [1, 1]], [[2.0, 5.0], [5.0, 2.0]])
check(rt['minval_index'] == (0, 0) and rt['maxval_index'] == (0, 1), 'ties: first occurrence')
# masked / non-finite / negative handling
rm = srccat.ref_row(1, [[1, 1, 1]], [[1.0, float('nan'), -2.0]], mask=[[True, False, False]], error=[[1.0, 2.0, 3.0]],
                    background=[[1.0, 1.0, 4.0]])
check(rm['npix'] == 1 and rm['segment_flux'] == -2.0 and rm['segment_fluxerr'] == 3.0 and rm['background_mean'] == 4.0,
      'mask / nan excluded')
check(rm['moment']['degenerate'] and math.isnan(rm['moment']['centroid'][0]), 'all-negative moment image -> NaN centroid')
ra = srccat.ref_row(1, [[1]], [[float('inf')]])
check(math.isnan(ra['segment_flux']) and math.isnan(ra['area']) and math.isnan(ra['minval_index'][0]), 'all masked -> NaN')
# bilinear
img = [[0.0, 1.0, 2.0], [10.0, 11.0, 12.0]]
check(eq(srccat.bilinear(img, 0.5, 0.5), 5.5) and eq(srccat.bilinear(img, 2.0, 1.0), 12.0)
      and eq(srccat.bilinear(img, 5.0, -3.0), 2.0) and eq(srccat.bilinear(img, 1.25, 0.0), 1.25), 'bilinear / clamping')


# 2. exhaustive: all 2x3 label maps over {0,1} x all 8 mask patterns on the first row, generic weights,
#    against a numpy formulation
def numpy_version(seg, data, mask, conv):
    seg = np.array(seg)
    S = seg == 1
    ys, xs = np.nonzero(S)
    y0, x0 = ys.min(), xs.min()
    P = S & np.isfinite(data) & ~mask
    out = {'flux': data[P].sum() if P.any() else np.nan, 'area': P.sum() if P.any() else np.nan}
    W = np.where(S & ~mask & np.isfinite(conv) & (conv >= 0), conv, 0.0)
    yy, xx = np.indices(W.shape)
    if W.sum() > 0:
        cx, cy = (xx * W).sum() / W.sum(), (yy * W).sum() / W.sum()
        a = ((xx - cx) ** 2 * W).sum() / W.sum()
        d = ((yy - cy) ** 2 * W).sum() / W.sum()
        b = ((xx - cx) * (yy - cy) * W).sum() / W.sum()
        cov = np.array([[a, b], [b, d]])
        det = a * d - b * b
        if abs(det) < 1e-13:
            det = 0.0
        while det < 1 / 144:
            cov = cov + np.eye(2) / 12
            det = np.linalg.det(cov)
        ev = np.sort(np.linalg.eigvalsh(cov))[::-1]
        out.update(cx=cx, cy=cy, cov=cov, ev=ev)
        out['M12'] = ((yy - y0) * (xx - x0) ** 2 * W).sum()
    return out


rng = np.random.default_rng(5)
data = rng.normal(1, 2, (2, 3))
conv = rng.normal(1, 2, (2, 3))
n = 0
for code in itertools.product((0, 1), repeat=6):
    if not any(code):
        continue
    seg = np.array(code).reshape(2, 3)
    for mbits in itertools.product((False, True), repeat=3):
        mask = np.zeros((2, 3), bool)
        mask[0] = mbits
        ref = srccat.ref_row(1, seg.tolist(), data.tolist(), mask.tolist(), None, None, conv.tolist())
        npv = numpy_version(seg, data, mask, conv)
        n += 1
        check(eq(ref['segment_flux'], npv['flux']) and eq(ref['area'], npv['area']), f'flux/area {code} {mbits}')
        m = ref['moment']
        if 'cx' in npv:
            check(eq(m['centroid'][0], npv['cx']) and eq(m['centroid'][1], npv['cy']), f'centroid {code} {mbits}')
            check(all(eq(m['covariance'][i][j], npv['cov'][i, j]) for i in range(2) for j in range(2)),
                  f'covariance {code} {mbits}: {m["covariance"]} vs {npv["cov"].tolist()}')
            check(eq(m['eigvals'][0], npv['ev'][0]) and eq(m['eigvals'][1], npv['ev'][1]), f'eigvals {code} {mbits}')
            check(eq(m['moments'][1][2], npv['M12']), f'raw moment M12 {code} {mbits}')
            # orientation: the eigenvector of the larger eigenvalue
            if m['orientation_defined']:
                th = math.radians(m['orientation'])
                v = np.array([math.cos(th), math.sin(th)])
                check(np.allclose(npv['cov'] @ v, npv['ev'][0] * v, atol=1e-9), f'orientation {code} {mbits}')
        else:
            check(m['degenerate'], f'degenerate {code} {mbits}')

# 4. local background (rectangular annulus, < 10 usable pixels -> 0, sigma-clipped SourceExtractor mode)
Z = [[0] * 7 for _ in range(7)]
check(len(srccat.annulus_pixels((3, 3, 3, 3), 1, (7, 7))) == 8, 'single pixel, width 1: the 8-pixel ring')
check(len(srccat.annulus_pixels((3, 3, 3, 3), 2, (7, 7))) == 24, 'single pixel, width 2: 5x5 minus centre')
check(len(srccat.annulus_pixels((0, 0, 0, 0), 2, (7, 7))) == 8, 'corner pixel, width 2: 3x3 minus centre inside the image')
# 2x2 box: the rectangle sides pass through pixel centres (ties)
check(len(srccat.annulus_pixels((2, 3, 2, 3), 1, (7, 7))) == 12, '2x2 box open/open: 4x4 - 2x2')
check(len(srccat.annulus_pixels((2, 3, 2, 3), 1, (7, 7), closed_in=True)) == 0, '2x2 box closed inner: 4x4 - 4x4')
check(len(srccat.annulus_pixels((2, 3, 2, 3), 1, (7, 7), closed_out=True)) == 32, '2x2 box closed outer: 6x6 - 2x2')
# 1x3 box (h=1, w=3), width 1: inner half sizes 0.75 / 2.25, outer 1.75 / 3.25 -> 3 x 7 minus 1 x 5
check(len(srccat.annulus_pixels((3, 3, 2, 4), 1, (7, 7))) == 16, '1x3 box, width 1')
est, k = srccat.clipped_mode([1.0] * 10 + [100.0])
check(est == 1.0 and k == 1, 'outlier clipped, constant survivors -> their value')
est, k = srccat.clipped_mode([2.0] * 12)
check(est == 2.0 and k == 0, 'constant sky')
seg7 = [row[:] for row in Z]
seg7[3][3] = 1
seg7[0][0] = 2
sky = rng.normal(5, 1, (7, 7))
lb1 = srccat.local_background(1, seg7, sky.tolist(), None, 1)
check(lb1['values'] == [0.0] and lb1['nusable'] == [8] and not lb1['tie'], 'fewer than 10 usable pixels -> 0')
check(srccat.local_background(1, seg7, sky.tolist(), None, 0)['values'] == [0.0], 'width 0 -> 0')
lb2 = srccat.local_background(1, seg7, sky.tolist(), None, 2)
ring = np.ones((7, 7), bool)
ring[:1] = ring[-1:] = ring[:, :1] = ring[:, -1:] = False
ring[3, 3] = False
v = sky[ring]
for _ in range(20):
    keep = np.abs(v - np.median(v)) <= 3 * np.std(v)
    if keep.all():
        break
    v = v[keep]
q = abs(v.mean() - np.median(v)) / v.std()
want = np.median(v) if q >= 0.3 else 2.5 * np.median(v) - 1.5 * v.mean()
check(lb2['nusable'] == [24] and eq(lb2['values'][0], want, 1e-12), 'width 2 estimate vs numpy formulation')
# usable = label 0, unmasked, finite, inside the image: corner source of 1 pixel, width 3 -> 4x4 - 1 = 15 pixels, minus
# a masked, a NaN and two labelled pixels ((1,1) and (3,3)) = 11
seg7[1][1] = 1
skyn = sky.copy()
skyn[2, 2] = np.nan
m7 = np.zeros((7, 7), bool)
m7[0, 1] = True
lb3 = srccat.local_background(2, seg7, skyn.tolist(), m7.tolist(), 3)
check(lb3['nusable'] == [11], f'usable pixel count {lb3["nusable"]}')
# cross-check of the estimator with clipping on 200 generic samples with planted outliers
nclipped = 0
for t in range(200):
    v0 = rng.normal(3, 1, rng.integers(10, 40))
    v0[: t % 4] *= 40.0
    est, k = srccat.clipped_mode(v0.tolist())
    v = v0.copy()
    for _ in range(20):
        keep = np.abs(v - np.median(v)) <= 3 * np.std(v)
        if keep.all():
            break
        v = v[keep]
    q = abs(v.mean() - np.median(v)) / v.std()
    want = np.median(v) if q >= 0.3 else 2.5 * np.median(v) - 1.5 * v.mean()
    nclipped += k > 0
    check(est is None or (eq(est, want, 1e-12) and k == len(v0) - len(v)), f'clipped mode sample {t}')
check(nclipped > 50, 'clipping exercised')

print(f'test_srccat: {n} exhaustive cases, {fails} failure(s)')
sys.exit(1 if fails else 0)
